"""C03 — prediction is a per-sample function through every calling form (structural clauses)."""
import re

from . import inplace
from .core import RuleResult
from .facts import fn_key, fn_loc, walk, strip, peel_refs, pat_bindings, Render, children
from .sym import Tracer, Term, Cmp, k, as_term, walk_terms

LEVEL = ("Static analysis of every PredictInplace impl in the workspace and of the four blanket Predict forms: (forms) each "
         "blanket form calls default_target(&r) and predict_inplace(&r, &mut t) once, on the records it received, and hands "
         "those records back; (shape) every predict_inplace has a diverging check relating the batch's row count to the "
         "output's length/shape before the output is written, and every default_target sizes its leading extent from the "
         "batch's row count; (rowlocal) along every predict path the batch is touched only through row-local operations: no "
         "reduction, statistic or selection along the batch axis or over all elements, and no mutable state carried from one "
         "row to the next; (layout) no raw-layout accessor is applied to the batch; (noint) model types contain no interior "
         "mutability; (composite) the multi-class wrapper replaces (label, probability) together when the candidate is larger, "
         "the multi-target wrapper transposes its (models, n) buffer, Platt maps each inner value through platt_predict only. "
         "Necessary conditions of 'batch prediction equals row-by-row prediction for any composition, order or layout'; "
         "numeric equality of roundings is not decided.")
ASSUME = ["rustc resolution/typeck; HIR faithfully dumped", "ndarray's elementwise operations, dot and per-row iterators are row-local (documented semantics)"]

ROWCOUNT = re.compile(r"\.(nrows|nsamples)\(\)|\.len_of\(ndarray::Axis\(0\)\)|\.dim\(\)\.0|\.shape\(\)\[0\]")
ELEMENTWISE = {"to_owned", "view", "clone", "reborrow", "mapv", "map", "mapv_into", "mapv_inplace", "into_owned", "view_mut", "as_ref", "borrow",
               "unwrap", "expect", "with_lapack", "without_lapack", "into_dimensionality", "into_dyn", "abs", "sqrt", "exp", "ln", "neg", "to_shared",
               "insert_axis_noop", "iter", "iter_mut", "into_iter"}
AXIS_REDUCERS = {"sum_axis", "mean_axis", "std_axis", "var_axis", "fold_axis", "map_axis", "map_axis_mut", "quantile_axis_mut", "argmax_axis", "min_axis", "max_axis", "select", "index_axis", "accumulate_axis_inplace", "sort_axis_by", "permute_axis"}
FULL_REDUCERS = {"sum", "mean", "std", "var", "max", "min", "argmax", "argmin", "product", "fold", "quantile_mut", "norm", "norm_l1", "norm_l2", "norm_max", "scalar_sum", "max_skipnan", "min_skipnan"}
ROW_ITERS = {"rows", "outer_iter", "genrows", "axis_iter", "rows_mut", "outer_iter_mut", "axis_iter_mut", "lanes", "axis_chunks_iter"}
RAW_LAYOUT = {"as_slice", "as_slice_mut", "to_slice", "into_raw_vec", "as_ptr", "as_mut_ptr", "as_slice_memory_order", "as_slice_memory_order_mut", "as_standard_layout_noop", "raw_dim_noop"}
INTERIOR = ("std::cell::Cell<", "std::cell::RefCell<", "std::sync::Mutex<", "std::sync::RwLock<", "std::sync::atomic::", "std::cell::OnceCell<", "std::sync::OnceLock<", "std::cell::UnsafeCell<", "once_cell::")


def predictors(F):
    out = []
    for fn in F.all_fns():
        d = fn["d"]
        if (d.get("trait") or "").endswith("PredictInplace") and d["name"] in ("predict_inplace", "default_target") and d.get("pk") == "impl":
            out.append(fn)
    return out


def inst_key(fn):
    """fn_key plus the record/target types (several impls per model type exist)"""
    return "%s[%s]" % (fn_key(fn), re.sub(r"\s+", "", fn["inputs"][1])[:60] if len(fn["inputs"]) > 1 else "")


def find_callee_fns(F, c, n):
    """workspace fns a call node may resolve to (by definition key)"""
    d = None
    if n.get("k") == "MethodCall":
        d = c.dfn(n.get("inst")) or c.dfn(n.get("def"))
    elif n.get("k") == "Call":
        f = strip(n["f"])
        d = (c.dfn(f.get("inst")) or c.dfn(f.get("def"))) if f.get("k") == "Path" else None
    if d is None:
        return []
    out = [g for g in INDEX.get((d["krate"], d.get("raw")), [])]
    if not out and d.get("krate", "").startswith("linfa"):
        # a required trait method called on a generic Self (NaiveBayes::joint_log_likelihood, Link dispatch, ...): the
        # declaration has no body; every implementation in the workspace may be the callee
        segs = (d.get("path") or "").split("::")
        if len(segs) >= 2:
            tr = segs[-2]
            out = [g for g in TRAIT_IMPLS.get((tr, d["name"]), [])]
    return out


INDEX = {}
TRAIT_IMPLS = {}


def build_index(F):
    INDEX.clear()
    TRAIT_IMPLS.clear()
    for fn in F.all_fns():
        INDEX.setdefault((fn["d"]["krate"], fn["d"].get("raw")), []).append(fn)
        t = fn["d"].get("trait")
        if t and fn["d"].get("pk") == "impl":
            TRAIT_IMPLS.setdefault((t.split("::")[-1].split("<")[0], fn["d"]["name"]), []).append(fn)


def rule_forms(ctx):
    res = RuleResult("R-C03-forms", "the four blanket Predict forms call default_target(&r) then predict_inplace(&r, &mut t) once on the received records and hand them back")
    F = ctx.facts()
    fns = [f for f in F.all_fns() if f["d"]["krate"] == "linfa" and f["d"]["name"] == "predict" and (f["d"].get("trait") or "").endswith("Predict") and f["d"].get("self_ty") == "O"]
    if len(fns) != 4:
        res.missing_anchor("the four blanket Predict impls (found %d)" % len(fns))
    for fn in fns:
        key = "%s[%s]" % (fn_key(fn), re.sub(r"\s+", "", fn["inputs"][1])[:50])
        tr = Tracer(fn, inline=ctx.inliner()).run()
        res.instance(key)
        dt = [e for e in tr.events if e.kind == "call" and e.name == "default_target"]
        pi = [e for e in tr.events if e.kind == "call" and e.name == "predict_inplace"]
        others = [e for e in tr.events if e.kind == "call" and e.name not in ("default_target", "predict_inplace", "new", "records", "view")]
        okf = len(dt) == 1 and len(pi) == 1 and dt[0].order < pi[0].order
        if okf:
            r0 = k(dt[0].args[0])
            okf = r0 == k(pi[0].args[0]) and k(pi[0].args[1]) == k(dt[0].val)
            # the records handed to the model are the received ones
            pname = "param:%s" % (fn["params"][1].get("name", "x"))
            okf = okf and (r0 == pname or r0 == "field:records(%s)" % pname or r0 == "call:records(%s)" % pname)
            rv = as_term(tr.result)
            if rv is not None and rv.is_call("new"):
                okf = okf and k(rv.args[0]) in (pname, "field:records(%s)" % pname, r0) and k(rv.args[1]) == k(dt[0].val)
            elif rv is not None:
                okf = okf and k(tr.result) == k(dt[0].val)
        if okf and not [e for e in others if e.name not in ("branch",)]:
            res.ok()
            res.sample({"form": key, "shape": "t = default_target(&r); predict_inplace(&r, &mut t); return t / Dataset::new(r, t)"})
        else:
            res.violate("%s : form" % key, "blanket form is not `default_target(&r); predict_inplace(&r, &mut t); return (r,) t` on the received records (extra calls: %s)" % sorted(set(e.name for e in others)), fn_loc(fn),
                        undecided=not (dt and pi))
    return res.finish(4)


def assert_pairs(c, body):
    """(lhs text, rhs text, node) of assert_eq!/assert! style diverging checks, in order."""
    r = Render(c)
    out = []
    for n in walk(body):
        if n.get("k") == "Match" and n.get("src") == "Normal":
            sc = strip(n["scrut"])
            if sc.get("k") == "Tup" and len(sc["es"]) == 2 and any(x.get("k") == "Call" and (c.dfn(strip(x["f"]).get("def")) or {}).get("name") == "assert_failed" for a in n["arms"] for x in walk(a["body"])):
                out.append((r.e(sc["es"][0]), r.e(sc["es"][1]), n))
        if n.get("k") == "If" and any(x.get("k") == "Call" and (c.dfn(strip(x["f"]).get("def")) or {}).get("name") in ("panic", "panic_fmt", "panic_display", "begin_panic") for x in walk(n["then"])):
            out.append((r.e(n["c"]), "", n))
    return out


def first_output_write(c, body, out_local):
    for n in walk(body):
        if n.get("k") in ("Assign", "AssignOp"):
            root = peel_refs(n["l"])
            while root.get("k") in ("Index", "Field") or (root.get("k") == "MethodCall" and root["name"] in ("row_mut", "slice_mut", "index_axis_mut", "column_mut")):
                root = peel_refs(root.get("e") or root.get("recv"))
            if root.get("k") == "Path" and root.get("local") == out_local:
                return n
        if n.get("k") == "MethodCall" and n["name"] in ("iter_mut", "assign", "fill", "rows_mut", "outer_iter_mut", "and", "zip") :
            for a in [n["recv"]] + n["args"]:
                if peel_refs(a).get("k") == "Path" and peel_refs(a).get("local") == out_local and n["name"] != "zip":
                    return n
    return None


def is_rowcount(n, xl, inits, depth=0):
    """n is the row count of the batch parameter `xl`: x.nrows() / x.nsamples() / x.len_of(Axis(0)) / x.dim().0 /
    x.shape()[0] / x.raw_dim()[0] / x.len() for 1-D - directly or through let bindings"""
    n = peel_refs(n)
    if depth > 4:
        return False
    kk = n.get("k")

    def is_x(e):
        e = peel_refs(e)
        while e.get("k") == "MethodCall" and e["name"] in ("view", "records", "to_owned", "reborrow", "as_ref") and not e["args"]:
            e = peel_refs(e["recv"])
        return e.get("k") == "Path" and e.get("local") == xl

    def axis0(a):
        a = peel_refs(a)
        return a.get("k") == "Call" and a["args"] and peel_refs(a["args"][0]).get("k") == "Lit" and peel_refs(a["args"][0]).get("v", "").startswith("0")
    if kk == "MethodCall":
        if n["name"] in ("nrows", "nsamples") and not n["args"] and is_x(n["recv"]):
            return True
        if n["name"] == "len_of" and len(n["args"]) == 1 and is_x(n["recv"]) and axis0(n["args"][0]):
            return True
    if kk == "Field" and n["name"] == "0":
        b = peel_refs(n["e"])
        if b.get("k") == "MethodCall" and b["name"] in ("dim", "raw_dim") and is_x(b["recv"]):
            return True
    if kk == "Index":
        b = peel_refs(n["e"])
        i = peel_refs(n["i"])
        if b.get("k") == "MethodCall" and b["name"] in ("shape", "raw_dim") and is_x(b["recv"]) and i.get("k") == "Lit" and i.get("v", "").startswith("0"):
            return True
    if kk == "Path" and n.get("local") in inits:
        which, init = inits[n["local"]]
        if which == "whole":
            return is_rowcount(init, xl, inits, depth + 1)
        b = peel_refs(init)
        return which == 0 and b.get("k") == "MethodCall" and b["name"] in ("dim", "raw_dim") and is_x(b["recv"])
    return False


def rule_shape(ctx):
    res = RuleResult("R-C03-shape", "predict_inplace checks batch rows against the output before writing it; default_target sizes its leading extent from the batch rows")
    F = ctx.facts()
    build_index(F)
    for fn in predictors(F):
        c = fn["crate"]
        r = Render(c)
        key = inst_key(fn)
        if len(fn["params"]) < 2 or fn["params"][1].get("k") != "Bind":
            continue
        x = fn["params"][1]["name"]
        is_single = "Dim<[usize; 1]>" in fn["inputs"][1] and (fn["d"].get("self_adt") or "").endswith("KMeans")
        if fn["d"]["name"] == "default_target":
            res.instance(key)
            if is_single:
                res.ok()
                res.info.append("exception: %s predicts a single observation (no rows)" % key)
                continue
            body = r.e(fn["body"])
            xl = fn["params"][1]["local"]
            deleg = any(y.get("k") == "MethodCall" and y["name"] == "default_target" and y["args"] and peel_refs(y["args"][0]).get("local") == xl for y in walk(fn["body"]))
            creations = []
            for y in walk(fn["body"]):
                if y.get("k") == "Call" and y["args"]:
                    dd = c.dfn(strip(y["f"]).get("def")) if strip(y["f"]).get("k") == "Path" else None
                    if dd and dd["krate"] == "ndarray" and dd["name"] in ("zeros", "default", "ones", "from_elem", "uninit", "from_shape_fn", "from_shape_simple_fn"):
                        creations.append(y)
            inits = {}
            for y in walk(fn["body"]):
                if y.get("k") == "LetStmt" and y.get("init") is not None:
                    if y["pat"].get("k") == "Bind":
                        inits[y["pat"]["local"]] = ("whole", y["init"])
                    elif y["pat"].get("k") == "Tuple":
                        for i_, q in enumerate(y["pat"]["pats"]):
                            if q.get("k") == "Bind":
                                inits[q["local"]] = (i_, y["init"])
            okext = False
            for cr in creations:
                shp = strip(cr["args"][0])
                first = strip(shp["es"][0]) if shp.get("k") == "Tup" and shp["es"] else shp
                if is_rowcount(first, xl, inits):
                    okext = True
            if deleg or okext:
                res.ok()
            elif not creations:
                res.undecided("%s : default-target-form" % key, "no array allocation recognised in default_target: %s" % body[:100], fn_loc(fn))
            else:
                res.violate("%s : default-target-extent" % key, "default_target does not size its leading extent from the batch's row count: %s" % body[:100], fn_loc(fn))
            continue
        # predict_inplace
        res.instance(key)
        if is_single:
            res.ok()
            continue
        if len(fn["params"]) < 3 or fn["params"][2].get("k") != "Bind":
            res.undecided("%s : params" % key, "unexpected parameter shape (fail closed)", fn_loc(fn))
            continue
        y = fn["params"][2]["name"]
        yl = fn["params"][2]["local"]

        def has_check(f, xn, yn, depth=0):
            cc = f["crate"]
            for a, b, node in assert_pairs(cc, f["body"]):
                txt = a + " ~ " + b
                if re.search(r"\b%s\b" % re.escape(xn), txt) and re.search(r"\b%s\b" % re.escape(yn), txt) and (ROWCOUNT.search(txt) or ".dim()" in txt or "n_samples" in txt):
                    w = first_output_write(cc, f["body"], [p["local"] for p in f["params"] if p.get("name") == yn][0])
                    if w is None or node["ln"] <= w["ln"]:
                        return True
            # `let (n_samples, dim) = x.dim()` style: the asserted local derives from x.dim()
            rr = Render(cc)
            txt_all = rr.e(f["body"])
            m = re.search(r"let \((\w+), \w+\) = %s\.dim\(\)" % re.escape(xn), txt_all)
            if m:
                for a, b, node in assert_pairs(cc, f["body"]):
                    if re.search(r"\b%s\b" % m.group(1), a + b) and re.search(r"\b%s\b" % re.escape(yn), a + b):
                        return True
            if depth >= 3:
                return False
            # delegation: a call that forwards both the batch and the output
            for n in walk(f["body"]):
                if n.get("k") in ("MethodCall", "Call"):
                    args = ([n["recv"]] if n.get("k") == "MethodCall" else []) + n["args"]
                    names = [peel_refs(a).get("name") for a in args]
                    if xn in names and yn in names:
                        for g in find_callee_fns(F, cc, n):
                            gx = [p.get("name") for p in g["params"]]
                            off = 0 if n.get("k") == "Call" else 0
                            ix, iy = names.index(xn), names.index(yn)
                            if ix < len(gx) and iy < len(gx) and has_check(g, gx[ix], gx[iy], depth + 1):
                                return True
                        nm = n.get("name") or (cc.dfn(strip(n["f"]).get("def")) or {}).get("name")
                        if nm == "predict_inplace":
                            for g in F.find_fns(name="predict_inplace"):
                                if g is not f and g["d"]["krate"] == f["d"]["krate"] and len(g["params"]) >= 3:
                                    gx = [p.get("name") for p in g["params"]]
                                    if has_check(g, gx[1], gx[2], depth + 1):
                                        return True
            return False
        if has_check(fn, x, y):
            res.ok()
            res.sample({"predictor": key, "check": "rows(%s) vs %s before the output is written" % (x, y)})
        else:
            res.violate("%s : no-shape-check" % key, "no diverging check relates the batch's row count to the output's length/shape before the output is written", fn_loc(fn))
    return res.finish(50)


class BatchAxis:
    """Abstract interpretation: which axis of an array value indexes the batch rows (0, 1, None = batch-free)."""

    def __init__(self, F, res, root_key):
        self.F = F
        self.res = res
        self.root_key = root_key
        self.seen = set()
        self.memo = {}
        self.fresh = set()     # (fn, local): arrays created in the function itself (owned, standard layout)
        self.sites = 0

    def run(self, fn, batch_params, out_params, depth=0):
        sig = (id(fn), tuple(sorted(batch_params.items())))
        if sig in self.seen or depth > 6:
            return self.memo.get(sig)
        self.seen.add(sig)
        self.fn, self.c, self.r = fn, fn["crate"], Render(fn["crate"])
        # `as_slice()` / `as_slice_mut()` are `Some` only for the standard layout: used as a fast path with a fallback
        # (`if let Some(s) = x.as_slice() { .. } else { .. }`, a match with a None arm) they do not make the result
        # depend on the layout. Unwrapped, they turn a non-contiguous batch into a panic.
        from .layout import with_parents
        if not hasattr(self, "guarded_slices"):
            self.guarded_slices = set()
        for n_, anc_ in with_parents(fn["body"]):
            if n_.get("k") == "MethodCall" and n_["name"] in ("as_slice", "as_slice_mut") and anc_:
                # climb through `(a.as_slice(), b.as_slice())` tuples and refs
                j = len(anc_) - 1
                while j >= 0 and anc_[j].get("k") in ("Tup", "Ref"):
                    j -= 1
                par = anc_[j] if j >= 0 else None
                if par is not None and par.get("k") == "Let":
                    iff = anc_[j - 1] if j >= 1 else None
                    while iff is not None and iff.get("k") == "Binary" and j >= 2:
                        j -= 1
                        iff = anc_[j - 1]
                    if iff is not None and iff.get("k") == "If" and iff.get("else") is not None:
                        self.guarded_slices.add(id(n_))
                    elif iff is not None and iff.get("k") == "If" and any(z.get("k") == "Ret" for z in walk(iff["then"])):
                        # `if let Some(flat) = x.as_slice_mut() { ..; return x; }` followed by the code for every other
                        # layout: the fall-through is the fallback
                        self.guarded_slices.add(id(n_))
                if par is not None and par.get("k") == "Match" and par.get("src", "Normal") == "Normal" and len(par["arms"]) >= 2:
                    self.guarded_slices.add(id(n_))
        # raw memory-order accessors that rules/layout.py finds dominated by a layout test (or consumed without regard to
        # positions) do not make the result depend on the layout either
        try:
            from . import layout as _layout
            for s_ in _layout.sites(fn):
                if s_.get("verdict") == "ok":
                    self.guarded_slices.add(id(s_["node"]))
        except Exception:
            pass
        env = dict(batch_params)
        self.out = set(out_params)
        self.depth = depth
        a = self.visit(fn["body"], env)
        self.memo[sig] = a if a in (0, 1) else None
        return self.memo[sig]

    def report(self, kind, n, what):
        key = "%s : %s:%s" % (self.root_key, kind, fn_key(self.fn).split("::")[-1])
        self.res.violate(key, "%s (in %s): `%s`" % (what, fn_key(self.fn), self.r.e(n)[:90]), fn_loc(self.fn, n.get("ln")))

    def axis_lit(self, n):
        n = peel_refs(n)
        if n.get("k") == "Call" and n["args"]:
            d = self.c.dfn(strip(n["f"]).get("def")) if strip(n["f"]).get("k") == "Path" else None
            if d and d["name"] == "Axis":
                a = peel_refs(n["args"][0])
                if a.get("k") == "Lit":
                    return int(a["v"])
        return None

    def ax(self, n, env):
        """batch axis of expression n (and visit it)"""
        if n is None:
            return None
        kk = n.get("k")
        if kk == "Path":
            return env.get(n.get("local")) if "local" in n else None
        if kk in ("Ref", "Cast") or (kk == "Unary"):
            a0 = self.ax(n["e"], env)
            if kk == "Cast" and a0 == "count" and (self.c.ty(n.get("t")) or "") in ("f32", "f64"):
                # the number of rows of the batch turned into a float: it is about to enter the values that are computed
                # (an extent, a loop bound or an index never needs that)
                self.report("batch-size-in-arithmetic", n, "the number of rows of the batch is converted to a float and enters the computed values: a row's result then depends on how many rows are predicted with it")
            return a0
        if kk == "Binary":
            a, b = self.ax(n["l"], env), self.ax(n["r"], env)
            if a == "count" or b == "count":
                other = b if a == "count" else a
                return other if other in (0, 1, "rows") else "count"
            return a if a is not None else b
        if kk == "Block":
            return self.visit(n, env)
        if kk == "MethodCall":
            return self.method(n, env)
        if kk == "Call":
            return self.call(n, env)
        if kk == "Field" or kk == "Index":
            a = self.ax(n["e"], env)
            if kk == "Index":
                self.ax(n["i"], env)
            return None
        if kk == "Tup":
            axes = [self.ax(x, env) for x in n["es"]]
            return next((v for v in axes if v in (0, 1)), None)
        if kk in ("Block", "Semi", "LetStmt", "Assign", "AssignOp", "If", "Match", "Loop", "Ret", "Break", "Struct", "Tup", "Array", "Let", "Closure"):
            self.visit(n, env)
            return None
        for ch in children(n):
            self.ax(ch, env)
        return None

    def method(self, n, env):
        name = n["name"]
        a = self.ax(n["recv"], env)
        argax = [self.ax(x, env) if strip(x).get("k") != "Closure" else None for x in n["args"]]
        argax = [None if v == "count" else v for v in argax]
        if a == "count":
            # a row count of the batch is a scalar: arithmetic on it is not a batch operation
            return "count" if name in ("max", "min", "clone", "into", "saturating_sub", "pow") else None
        self.sites += 1 if a is not None else 0
        if a is None:
            # batch passed as an argument: m.dot(x.t()) -> axis 1; Zip::from(..).and(x.rows())
            if name == "dot" and argax and argax[0] is not None:
                return argax[0]
            for x in n["args"]:
                if strip(x).get("k") == "Closure":
                    self.closure(strip(x), n, env, batch_iter=any(v is not None for v in argax) or self.iter_over_batch(n["recv"], env))
            return self.callee(n, [None] + argax, env)
        if name in RAW_LAYOUT and id(n) in getattr(self, "guarded_slices", ()):
            return a
        if name in RAW_LAYOUT:
            rv = peel_refs(n["recv"])
            if rv.get("k") == "Path" and (id(self.fn), rv.get("local")) in self.fresh:
                return None    # the raw buffer of an array this function allocated itself: its layout is the standard one
            self.report("layout", n, "raw-layout accessor `%s` on the batch: the result depends on the memory layout of the query rows" % name)
            return None
        if name in ("t", "reversed_axes", "permuted_axes_swap"):
            return 1 - a if a in (0, 1) else a
        if name == "insert_axis":
            kx = self.axis_lit(n["args"][0]) if n["args"] else None
            return a + 1 if kx is not None and kx <= a else a
        if name == "dot":
            return a if a == 0 else None
        if name in AXIS_REDUCERS:
            kx = self.axis_lit(n["args"][0]) if n["args"] else None
            for x in n["args"]:
                if strip(x).get("k") == "Closure":
                    self.closure(strip(x), n, env, batch_iter=False)
            if kx is not None and kx == a:
                self.report("batch-axis-reduction", n, "`%s(Axis(%d))` reduces/selects along the batch axis: a row's result then depends on the other rows of the batch" % (name, kx))
                return None
            if kx is not None:
                return a - 1 if kx < a else a
            return a
        if name in FULL_REDUCERS and not (name in ("max", "min") and n["args"]):
            self.report("whole-batch-reduction", n, "`%s()` over all elements of a batch-carrying value" % name)
            return None
        if name in ROW_ITERS:
            kx = self.axis_lit(n["args"][0]) if n["args"] else 0
            if name in ("rows", "genrows", "rows_mut", "lanes") or kx == a:
                return "rows"
            return a
        if name in ("zip", "and", "enumerate", "map_collect", "and_broadcast"):
            for x in n["args"]:
                if strip(x).get("k") == "Closure":
                    self.closure(strip(x), n, env, batch_iter=True)
            return a
        if name in ("for_each", "map", "filter", "fold", "par_for_each", "map_collect", "for_each_mut") and a == "rows":
            for x in n["args"]:
                if strip(x).get("k") == "Closure":
                    self.closure(strip(x), n, env, batch_iter=True)
            return "rows" if name in ("map", "filter") else None
        if name in ELEMENTWISE or name.startswith("mapv"):
            for x in n["args"]:
                if strip(x).get("k") == "Closure":
                    self.closure(strip(x), n, env, batch_iter=False)
            return a
        if name in ("nrows", "nsamples") and a == 0 or (name == "ncols" and a == 1) or (name == "len_of" and n["args"] and self.axis_lit(n["args"][0]) == a):
            return "count"
        if name in ("nrows", "ncols", "len", "dim", "shape", "len_of", "raw_dim", "ndim", "is_empty", "nsamples", "nfeatures"):
            return None
        if name in ("slice", "slice_mut", "slice_move", "slice_axis", "select_rows_noop"):
            return a
        if name in ("into_shape", "reshape", "to_shape", "into_shape_with_order"):
            par_ok = False
            self.report("reshape", n, "`%s` of a batch-carrying value re-interprets the memory order of the batch" % name)
            return None
        # workspace callee taking the batch as receiver/argument: its result carries the batch where its body's value does
        return self.callee(n, [a] + argax, env)

    def iter_over_batch(self, n, env):
        for x in walk(n):
            if x.get("k") == "MethodCall" and x["name"] in ROW_ITERS and self.peek_ax(x["recv"], env) is not None:
                return True
            if x.get("k") == "Path" and env.get(x.get("local")) == "rows":
                return True
        return False

    def peek_ax(self, n, env):
        n = peel_refs(n)
        if n.get("k") == "Path":
            return env.get(n.get("local"))
        if n.get("k") == "MethodCall" and n["name"] in ELEMENTWISE:
            return self.peek_ax(n["recv"], env)
        return None

    def call(self, n, env):
        f0 = strip(n["f"])
        d0 = self.c.dfn(f0.get("def")) if f0.get("k") == "Path" else None
        if d0 and d0["name"] in ("zeros", "ones", "from_elem", "default", "uninit") and d0["krate"] == "ndarray" and n["args"]:
            # a fresh array whose i-th extent is the batch's row count is indexed by the batch along axis i
            shp = strip(n["args"][0])
            els = shp["es"] if shp.get("k") == "Tup" else [shp]
            axes = [self.ax(x, env) for x in els]
            for x in n["args"][1:]:
                self.ax(x, env)
            for i, v in enumerate(axes):
                if v == "count" and i in (0, 1):
                    return i
            return None
        argax = [self.ax(x, env) if strip(x).get("k") != "Closure" else None for x in n["args"]]
        if d0 and d0["name"] in ("cast", "from_usize", "from_u64", "from_f64") and "count" in argax and len(n["args"]) == 1:
            self.report("batch-size-in-arithmetic", n, "the number of rows of the batch is converted to a float (`%s`) and enters the computed values: a row's result then depends on how many rows are predicted with it" % d0["name"])
        argax = [None if v == "count" else v for v in argax]
        for x in n["args"]:
            if strip(x).get("k") == "Closure":
                self.closure(strip(x), n, env, batch_iter=any(v is not None for v in argax))
        f = strip(n["f"])
        d = self.c.dfn(f.get("def")) if f.get("k") == "Path" else None
        if d and d["name"] in ("from", "new") and "Zip" in d["path"]:
            return argax[0] if argax else None
        if d and d["name"] in ("Some", "Ok", "from", "into"):
            return argax[0] if argax else None
        return self.callee(n, argax, env)

    def callee(self, n, argax, env):
        if not any(v in (0, 1) for v in argax):
            return None
        saved = (self.fn, self.c, self.r, self.out, self.depth)
        out = None
        for g in find_callee_fns(self.F, self.c, n):
            params = {}
            for i, v in enumerate(argax):
                if v in (0, 1) and i < len(g["params"]) and g["params"][i].get("k") == "Bind":
                    params[g["params"][i]["local"]] = v
            if params:
                a = self.run(g, params, [], self.depth + 1)
                out = a if out is None else out
                self.fn, self.c, self.r, self.out, self.depth = saved
        self.fn, self.c, self.r, self.out, self.depth = saved
        return out

    def closure(self, clo, call, env, batch_iter):
        e2 = dict(env)
        if batch_iter:
            # state carried from one row to the next: a mutable capture that is not the output
            for cap in clo.get("captures", []):
                if ("Mut" in cap["by"] or "Unique" in cap["by"]) and cap["local"] not in self.out and env.get(cap["local"]) is None:
                    if not self.only_indexed_by_row(clo, cap["local"]):
                        self.report("row-carried-state", call, "the per-row closure captures `%s` mutably: state is carried from one row of the batch to the next" % cap["name"])
        self.visit(clo["body"], e2)

    def only_indexed_by_row(self, clo, lid):
        """the captured local is only written at a position selected by the closure's own row index / row value"""
        pids = set(b["local"] for p in clo["params"] for b in pat_bindings(p))
        for x in walk(clo["body"]):
            if x.get("k") in ("Assign", "AssignOp"):
                root = peel_refs(x["l"])
                idx_ok = False
                while root.get("k") in ("Index", "Field"):
                    if root.get("k") == "Index" and any(y.get("k") == "Path" and y.get("local") in pids for y in walk(root["i"])):
                        idx_ok = True
                    root = peel_refs(root["e"])
                if root.get("k") == "Path" and root.get("local") == lid and not idx_ok:
                    return False
            if x.get("k") == "MethodCall" and peel_refs(x["recv"]).get("local") == lid and x["name"] in ("push", "push_back", "insert", "extend", "add_assign", "sub_assign"):
                return False
        return True

    def visit(self, n, env):
        """statement-level traversal; returns the batch axis of a block's value"""
        kk = n.get("k")
        if kk == "Block":
            for s in n["stmts"]:
                self.visit(s, env)
            return self.ax(n["e"], env) if n.get("e") else None
        if kk == "Semi":
            self.ax(n["e"], env)
            return None
        if kk == "LetStmt":
            a = self.ax(n["init"], env) if n.get("init") is not None else None
            bs = list(pat_bindings(n["pat"]))
            if len(bs) == 1 and n["pat"].get("k") == "Bind":
                ini = strip(n["init"]) if n.get("init") is not None else {}
                if ini.get("k") == "Call":
                    d1 = self.c.dfn(strip(ini["f"]).get("def")) if strip(ini["f"]).get("k") == "Path" else None
                    if d1 and d1["krate"] == "ndarray" and d1["name"] in ("zeros", "ones", "from_elem", "default", "uninit"):
                        self.fresh.add((id(self.fn), bs[0]["local"]))
                if a is not None:
                    env[bs[0]["local"]] = a
            elif a in (0, 1) and n["pat"].get("k") == "Tuple":
                # a tuple of per-row results (e.g. (normaliser[n], responsibilities[n, k])): every part is indexed by the batch
                for b in bs:
                    env[b["local"]] = a
            return None
        if kk in ("Assign", "AssignOp"):
            a = self.ax(n["r"], env)
            self.ax(n["l"], env)
            l = peel_refs(n["l"])
            if l.get("k") == "Path" and "local" in l and a is not None and kk == "Assign":
                env[l["local"]] = a
            return None
        if kk == "Match" and n.get("src") == "ForLoopDesugar":
            sc = strip(n["scrut"])
            it = sc["args"][0] if sc.get("k") == "Call" and sc["args"] else None
            a = self.ax(it, env) if it is not None else None
            over_batch = a is not None or (it is not None and self.iter_over_batch(it, env))
            loop = next((x for x in walk(n["arms"][0]["body"]) if x.get("k") == "Loop"), None)
            if loop is not None:
                body = loop["body"]
                if over_batch:
                    self.loop_state(n, body, env)
                self.visit(body, env)
            return None
        if kk == "If":
            ca = self.ax(n["c"], env)
            if ca == "count":
                # a branch on the number of rows of the batch: the same row is then computed one way in a small batch and
                # another way in a large one. Only an exit (empty batch, shape assertion) may depend on the row count.
                def diverges(b):
                    b = strip(b) if b is not None else None
                    if b is None:
                        return False
                    last = b
                    if b.get("k") == "Block":
                        last = strip(b.get("e") or (b["stmts"][-1] if b["stmts"] else b))
                    if last.get("k") in ("Ret", "Break", "Continue"):
                        return True
                    if last.get("k") == "Call":
                        f = strip(last["f"])
                        return f.get("k") == "Path" and ((self.c.dfn(f.get("def")) or {}).get("name") or "").startswith(("panic", "begin_panic", "assert_failed", "unreachable"))
                    return False
                def works_on_batch(b):
                    # an exit that first computes on the batch (`if n < 2048 { <plain scan>; return }`) is a branch, not an exit
                    return b is not None and any(z.get("k") == "Path" and env.get(z.get("local")) in (0, 1, "rows") for z in walk(b))
                pure_exit = (diverges(n["then"]) and not works_on_batch(n["then"])) or (diverges(n.get("else")) and not works_on_batch(n.get("else")))
                if not pure_exit:
                    self.report("batch-size-branch", n["c"], "the computation branches on the number of rows of the batch, so a row's result depends on how many rows are predicted with it")
            for ch in (n["then"], n.get("else")):
                if ch is not None:
                    self.ax(ch, env)
            return None
        if kk in ("Match", "Loop", "Ret", "Break", "Struct", "Tup", "Array", "Let", "Closure"):
            for ch in children(n):
                if ch.get("k") == "Closure":
                    self.visit(ch["body"], env)
                else:
                    self.ax(ch, env)
            return None
        return self.ax(n, env)

    def loop_state(self, matchnode, body, env):
        """a loop over the batch rows must not carry mutable locals (other than the output) across iterations"""
        declared = set()
        for x in walk(body):
            if x.get("k") == "LetStmt":
                declared |= set(b["local"] for b in pat_bindings(x["pat"]))
            if x.get("k") == "Match":
                for a in x["arms"]:
                    declared |= set(b["local"] for b in pat_bindings(a["pat"]))
        for x in walk(body):
            if x.get("k") in ("Assign", "AssignOp"):
                root = peel_refs(x["l"])
                indexed = False
                while root.get("k") in ("Index", "Field"):
                    indexed = indexed or root.get("k") == "Index"
                    root = peel_refs(root["e"])
                if root.get("k") == "Path" and "local" in root and root["local"] not in declared and root["local"] not in self.out and root.get("name") != "self":
                    if not indexed:
                        self.report("row-carried-state", x, "`%s` is updated inside the loop over the batch rows and lives across iterations" % root["name"])


def rule_rowlocal(ctx):
    res = RuleResult("R-C03-rowlocal", "along every predict path the batch is touched only through row-local operations; no raw-layout access; no state carried across rows")
    F = ctx.facts()
    build_index(F)
    total = 0
    for fn in predictors(F):
        if fn["d"]["name"] != "predict_inplace" or len(fn["params"]) < 3:
            continue
        if fn["params"][1].get("k") != "Bind" or fn["params"][2].get("k") != "Bind":
            continue
        if "Dim<[usize; 1]>" in fn["inputs"][1]:
            continue
        key = inst_key(fn)
        res.instance(key)
        before = len(res.violations)
        ba = BatchAxis(F, res, key)
        ba.run(fn, {fn["params"][1]["local"]: 0}, [fn["params"][2]["local"]])
        total += ba.sites
        if len(res.violations) == before:
            res.ok()
    # transforms of the scalers / whiteners / PCA (C16: fixed row-wise maps)
    for fn in F.all_fns():
        d = fn["d"]
        if d["name"] == "transform" and (d.get("trait") or "").endswith("Transformer") and d["krate"] in ("linfa_preprocessing",) and "DatasetBase" not in fn["inputs"][1] and len(fn["params"]) >= 2 and fn["params"][1].get("k") == "Bind":
            if (d.get("self_adt") or "").split("::")[-1] in ("LinearScaler", "NormScaler", "FittedWhitener"):
                key = inst_key(fn)
                res.instance(key)
                before = len(res.violations)
                ba = BatchAxis(F, res, key)
                ba.run(fn, {fn["params"][1]["local"]: 0}, [])
                total += ba.sites
                if len(res.violations) == before:
                    res.ok()
    res.info.append("%d batch-carrying operations classified" % total)
    seen, uniq = set(), []
    for v in res.violations:
        if v.key not in seen:
            seen.add(v.key)
            uniq.append(v)
    res.violations = uniq
    return res.finish(24)


def rule_noint(ctx):
    res = RuleResult("R-C03-noint", "model types (implementors of PredictInplace) contain no interior mutability")
    F = ctx.facts()
    adts = {}
    for c in F.crates.values():
        for a in c.adts:
            adts[(c.name, a["path"])] = a
            adts.setdefault(("*", a["path"].split("::")[-1]), a)
    models = set()
    for fn in predictors(F):
        if fn["d"].get("self_adt"):
            models.add((fn["d"]["krate"], fn["d"]["self_adt"]))
    for (crate, path) in sorted(models):
        a = adts.get((crate, path))
        inst = "%s::%s" % (crate, path)
        res.instance(inst)
        if a is None:
            res.undecided("%s : adt-not-found" % inst, "model type not found among the crate's ADTs (fail closed)")
            continue
        bad = []
        seen = set()

        def scan(adt, depth=0):
            if id(adt) in seen or depth > 4:
                return
            seen.add(id(adt))
            for v in adt["variants"]:
                for f in v["fields"]:
                    t = f["ty"]
                    for marker in INTERIOR:
                        if marker in t:
                            bad.append("%s.%s: %s" % (adt["path"].split("::")[-1], f["name"], t[:60]))
                    for m in re.finditer(r"([\w:]+)<|([\w:]+)", t):
                        nm = (m.group(1) or m.group(2)).split("::")[-1]
                        sub = adts.get(("*", nm))
                        if sub is not None and sub is not adt:
                            scan(sub, depth + 1)
        scan(a)
        if bad:
            res.violate("%s : interior-mutability" % inst, "model type reaches interior mutability (%s): prediction through &self could carry state from one call or row to the next" % "; ".join(bad[:3]))
        else:
            res.ok()
    return res.finish(20)


def rule_composite(ctx):
    res = RuleResult("R-C03-composite", "composing wrappers follow their parts: larger probability wins with its label, (models, n) buffer is transposed, Platt maps through platt_predict -> Pr::new")
    F = ctx.facts()
    # MultiClassModel
    for fn in [f for f in predictors(F) if (f["d"].get("self_adt") or "").endswith("MultiClassModel") and f["d"]["name"] == "predict_inplace"]:
        c = fn["crate"]
        r = Render(c)
        key = fn_key(fn)
        # every member is consulted: the arg-max over the one-vs-all members is not left before the last member (a member
        # seen later may still beat the incumbent of a row; a batch-level "everybody is confident" test makes a row's label
        # depend on the other rows of the batch)
        res.instance("%s : every member consulted" % key)
        from .c17 import for_loops as _for_loops
        early = None
        from .c17 import explicit_exits as _explicit_exits
        for it_, pat_, body_, node_ in _for_loops(fn["body"]):
            for y in _explicit_exits(body_, c):
                early = y
        if early is not None:
            res.violate("%s : member-loop-left-early" % key, "the loop over the member models is left with `%s` before every member has been compared: a later member can still hold the larger probability for a row, and a condition on the whole batch makes the label of one row depend on the others" % early["k"].lower(), fn_loc(fn, early.get("ln")))
        else:
            res.ok()
        res.instance("%s : running arg-max" % key)
        found = False
        for n in walk(fn["body"]):
            if n.get("k") == "Closure" and len(n["params"]) == 1 and n["params"][0].get("k") == "Tuple":
                body = strip(n["body"])
                if body.get("k") == "If" and body.get("else"):
                    cond = strip(body["c"])
                    names = [b["name"] for b in pat_bindings(n["params"][0])]
                    if cond.get("k") == "Binary" and cond["op"] in (">", ">=", "<", "<=") and len(names) == 2:
                        inc, cand = names
                        l, rr = r.e(cond["l"]), r.e(cond["r"])
                        then, els = r.e(body["then"]).strip("{} "), r.e(body["else"]).strip("{} ")
                        # which operand is larger when the condition holds?
                        if cond["op"] in (">", ">="):
                            big, small = l, rr
                        else:
                            big, small = rr, l
                        big_name = inc if re.match(r"\W*%s\b" % inc, big) else (cand if re.match(r"\W*%s\b" % cand, big) else None)
                        found = True
                        if big_name is not None and then == big_name and els == (cand if big_name == inc else inc) and ".1" in l and ".1" in rr:
                            res.ok()
                            res.sample({"fn": key, "rule": "keep the pair with the larger probability: `%s`" % r.e(body)[:80]})
                        else:
                            res.violate("%s : argmax-direction" % key, "the running arg-max does not keep the (label, probability) pair with the larger probability: `%s`" % r.e(body)[:100], fn_loc(fn, body["ln"]))
        if not found:
            # the pair rebuilt component-wise: `let label = if d.1 > c.1 { d.0 } else { c.0 }; (label, <probability>)`:
            # both components must be selected from the same side under the same condition
            for n in walk(fn["body"]):
                if n.get("k") != "Closure" or len(n["params"]) != 1 or n["params"][0].get("k") != "Tuple":
                    continue
                names = [b["name"] for b in pat_bindings(n["params"][0])]
                if len(names) != 2:
                    continue
                linits = {}
                for y in walk(n["body"]):
                    if y.get("k") == "LetStmt" and y.get("init") is not None and y["pat"].get("k") == "Bind":
                        linits[y["pat"]["local"]] = y["init"]
                tail = strip(n["body"])
                while tail.get("k") == "Block" and tail.get("e") is not None:
                    tail = strip(tail["e"])
                if tail.get("k") != "Tup" or len(tail["es"]) != 2:
                    continue

                def classify(e):
                    e = peel_refs(e)
                    if e.get("k") == "Path" and e.get("local") in linits:
                        e = peel_refs(linits[e["local"]])
                    while e.get("k") == "MethodCall" and e["name"] in ("clone", "to_owned"):
                        e = peel_refs(e["recv"])
                    if e.get("k") == "If" and e.get("else") is not None:
                        def side(b):
                            b = strip(b)
                            while b.get("k") == "Block" and b.get("e") is not None:
                                b = strip(b["e"])
                            b = peel_refs(b)
                            while b.get("k") == "MethodCall" and b["name"] in ("clone", "to_owned"):
                                b = peel_refs(b["recv"])
                            if b.get("k") == "Field" and peel_refs(b["e"]).get("name") in names:
                                return peel_refs(b["e"])["name"]
                            return None
                        return ("sel", r.e(e["c"]), side(e["then"]), side(e["else"]))
                    if e.get("k") == "Field" and peel_refs(e["e"]).get("name") in names:
                        return ("fixed", peel_refs(e["e"])["name"])
                    if e.get("k") == "MethodCall" and e["name"] in ("max", "min"):
                        return ("ext", e["name"])
                    return ("other",)
                a, b = classify(tail["es"][0]), classify(tail["es"][1])
                if a[0] == "sel" and a[2] and a[3]:
                    found = True
                    if b[0] == "sel" and b[1:] == a[1:]:
                        res.ok()
                    elif b[0] == "fixed":
                        res.violate("%s : argmax-partial-update" % key, "the label of the more probable member is kept, but the probability carried on is always `%s`'s: later members are compared with that member's probability, not with the incumbent's (with three or more members the label of a less probable one can win)" % b[1], fn_loc(fn, tail["ln"]))
                    elif b[0] == "ext" and b[1] == "max":
                        res.ok()
                    else:
                        res.undecided("%s : pair-rebuild" % key, "label and probability of the running pair are rebuilt in a way that was not classified (fail closed)", fn_loc(fn, tail["ln"]))
        if not found:
            # second idiom: a loop that overwrites (label slot, incumbent probability slot) under `candidate > incumbent`
            for n in walk(fn["body"]):
                if n.get("k") != "If" or n.get("else"):
                    continue
                cond = strip(n["c"])
                if cond.get("k") != "Binary" or cond["op"] not in (">", ">=", "<", "<="):
                    continue
                l, rr = peel_refs(cond["l"]), peel_refs(cond["r"])
                if l.get("k") == "Field" and rr.get("k") == "Field" and l["name"] == rr["name"] and peel_refs(l["e"]).get("k") == "Path" and peel_refs(rr["e"]).get("k") == "Path":
                    # `candidate.1 > best.1` on (label, probability) pairs updated in place
                    fld = l["name"]
                    lb, rb = peel_refs(l["e"]), peel_refs(rr["e"])
                    bigp, smallp = (lb, rb) if cond["op"] in (">", ">=") else (rb, lb)
                    wrote = set()
                    for x in walk(n["then"]):
                        if x.get("k") == "Assign":
                            t = peel_refs(x["l"])
                            if t.get("k") == "Field" and peel_refs(t["e"]).get("local") == smallp.get("local"):
                                wrote.add(t["name"])
                            elif t.get("k") == "Path" and t.get("local") == smallp.get("local"):
                                wrote.add("*")
                    if not wrote:
                        continue
                    found = True
                    if "*" in wrote or (fld in wrote and len(wrote) >= 2):
                        res.ok()
                        res.sample({"fn": key, "rule": "under `%s` the whole incumbent pair is replaced" % r.e(cond)})
                    elif fld not in wrote:
                        res.violate("%s : argmax-partial-update" % key, "under `%s` the label of the incumbent is replaced but its probability `%s.%s` is not: later members are compared with a stale maximum" % (r.e(cond), smallp.get("name"), fld), fn_loc(fn, n["ln"]))
                    else:
                        res.violate("%s : argmax-partial-update" % key, "under `%s` only `%s.%s` of the incumbent is replaced: label and probability no longer belong together" % (r.e(cond), smallp.get("name"), fld), fn_loc(fn, n["ln"]))
                    break
                if l.get("k") != "Path" or rr.get("k") != "Path" or "local" not in l or "local" not in rr:
                    continue
                big, small = (l, rr) if cond["op"] in (">", ">=") else (rr, l)
                assigned = set()
                for x in walk(n["then"]):
                    if x.get("k") == "Assign":
                        t = peel_refs(x["l"])
                        if t.get("k") == "Path" and "local" in t:
                            assigned.add(t["local"])
                found = True
                # `small` is the incumbent (it is the one that loses): it must be overwritten together with the label
                if small["local"] in assigned and len(assigned) >= 2:
                    res.ok()
                    res.sample({"fn": key, "rule": "under `%s` both the label and the incumbent probability are replaced" % r.e(cond)})
                elif small["local"] not in assigned and assigned:
                    res.violate("%s : argmax-partial-update" % key, "under `%s` the label is replaced but the incumbent probability `%s` is not: later members are compared with a stale maximum" % (r.e(cond), small.get("name")), fn_loc(fn, n["ln"]))
                else:
                    res.violate("%s : argmax-direction" % key, "the running arg-max does not keep the pair with the larger probability: `%s`" % r.e(cond), fn_loc(fn, n["ln"]))
                break
        if not found:
            res.undecided("%s : argmax-not-found" % key, "running arg-max over (label, probability) pairs not found (fail closed)", fn_loc(fn))
        # the incumbent label must be a member's label from the start: an incumbent seeded with `L::default()` survives
        # whenever no member beats the seed probability (all members report 0), and L::default() need not be any member's label
        out_ty = (fn["inputs"][2] if len(fn["inputs"]) > 2 else "")
        m_ = re.search(r"<\s*(\w+)\s*>\s*$|<\s*(\w+)\s*,", out_ty.replace("&mut ", ""))
        lab = None
        for cand in re.findall(r"\b([A-Z]\w*)\b", out_ty):
            if cand not in ("Array1", "ArrayBase", "OwnedRepr", "Dim", "Ix1", "Array"):
                lab = cand
        res.instance("%s : incumbent label comes from a member" % key)
        seeded = [x for x in walk(fn["body"]) if x.get("k") == "Call" and not x["args"] and strip(x["f"]).get("k") == "Path" and (c.dfn(strip(x["f"]).get("def")) or {}).get("name") == "default" and (c.ty(x.get("t")) or "") == (lab or "L")]
        if seeded:
            res.violate("%s : incumbent-label-not-a-member" % key, "the running arg-max is seeded with `%s::default()`: a row on which no member beats the seed probability keeps that label, which need not be the label of any member model" % (lab or "L"), fn_loc(fn, seeded[0]["ln"]))
        else:
            res.ok()
    # the wrapper keeps every member it is given: a member list that passes through a keyed container (one entry per
    # label) or a dropping adaptor loses members, and the label returned is then not that of the best member handed in
    nb = 0
    for fn in F.all_fns():
        d = fn["d"]
        if d["krate"] != "linfa" or not (d.get("self_adt") or "").endswith("MultiClassModel") or d["name"] == "predict_inplace":
            continue
        c = fn["crate"]
        if not any(x.get("k") == "Struct" and (c.dfn(x.get("def")) or {}).get("path", "").endswith("MultiClassModel") for x in walk(fn["body"])):
            continue
        nb += 1
        key = fn_key(fn)
        res.instance("%s : member list keeps every member" % key)
        bad = None
        for x in walk(fn["body"]):
            ty = c.ty(x.get("t")) or ""
            if x.get("k") in ("MethodCall", "Call") and re.search(r"\b(BTreeMap|HashMap|BTreeSet|HashSet)<", ty):
                bad = "a `%s`" % re.search(r"\b(BTreeMap|HashMap|BTreeSet|HashSet)\b", ty).group(1)
                break
            if x.get("k") == "MethodCall" and x["name"] in ("dedup", "dedup_by", "dedup_by_key", "filter", "take", "skip", "step_by", "retain", "take_while", "skip_while", "truncate"):
                bad = "`.%s(..)`" % x["name"]
                break
        if bad:
            res.violate("%s : members-dropped" % key, "the member models pass through %s before they are stored: members (two models for the same label, say) can be dropped, and the wrapper then returns the label of the best *remaining* member, not of the member with the highest probability" % bad, fn_loc(fn, x.get("ln")))
        else:
            res.ok()
    if nb < 2:
        res.missing_anchor("the constructors of MultiClassModel (new, from_iter; found %d)" % nb)
    # Pr::try_from - the range check behind Pr::new - rejects NaN: evaluated abstractly with the argument = NaN (every
    # ordered comparison false, `!=` true, range `contains` false)
    for fn in [f for f in F.all_fns() if f["d"]["krate"] == "linfa" and f["d"]["name"] == "try_from" and (f["d"].get("self_adt") or "").endswith("Pr")]:
        c = fn["crate"]
        key = fn_key(fn)
        res.instance("%s : NaN is rejected" % key)
        pl = set(b["local"] for p_ in fn["params"] for b in pat_bindings(p_))

        def mentions(e):
            return any(y.get("k") == "Path" and y.get("local") in pl for y in walk(e))

        def nan_val(e):
            e = strip(e)
            k_ = e.get("k")
            if k_ == "Unary" and e.get("op") == "!":
                v = nan_val(e["e"])
                return None if v is None else (not v)
            if k_ == "Binary":
                if e["op"] == "&&":
                    a, b = nan_val(e["l"]), nan_val(e["r"])
                    if a is False or b is False:
                        return False
                    return True if (a and b) else None
                if e["op"] == "||":
                    a, b = nan_val(e["l"]), nan_val(e["r"])
                    if a is True or b is True:
                        return True
                    return False if (a is False and b is False) else None
                if e["op"] in ("<", "<=", ">", ">=", "==") and (mentions(e["l"]) or mentions(e["r"])):
                    return False
                if e["op"] == "!=" and (mentions(e["l"]) or mentions(e["r"])):
                    return True
                return None
            if k_ == "MethodCall":
                if e["name"] == "contains" and any(mentions(a) for a in e["args"]):
                    return False
                if e["name"] == "is_nan" and mentions(e["recv"]):
                    return True
                if e["name"] in ("is_finite", "is_normal") and mentions(e["recv"]):
                    return False
                return None
            return None

        def outcomes(e):
            """(set of Ok/Err reachable with a NaN argument, definitely-returned?)"""
            e = strip(e)
            k_ = e.get("k")
            if k_ == "Block":
                acc = set()
                for st in e.get("stmts") or []:
                    o, done = outcomes(st.get("e") if st.get("k") in ("ExprStmt", "Semi") and st.get("e") is not None else st)
                    acc |= o
                    if done:
                        return acc, True
                if e.get("e") is not None:
                    o, done = outcomes(e["e"])
                    return acc | o, True
                return acc, False
            if k_ == "If":
                v = nan_val(e["c"])
                if v is True:
                    return outcomes(e["then"])
                if v is False:
                    return outcomes(e["else"]) if e.get("else") is not None else (set(), False)
                o1, d1 = outcomes(e["then"])
                o2, d2 = outcomes(e["else"]) if e.get("else") is not None else (set(), False)
                return o1 | o2, d1 and d2
            if k_ == "Ret":
                o, _ = outcomes(e["e"]) if e.get("e") is not None else (set(), True)
                return o, True
            if k_ == "Call":
                f0 = strip(e["f"])
                nm = (c.dfn(f0.get("def")) or {}).get("name") if f0.get("k") == "Path" else None
                if nm in ("Ok", "Err"):
                    return set([nm]), True
            return set(), False
        o, _ = outcomes(fn["body"])
        if "Ok" in o and "Err" not in o:
            res.violate("%s : nan-admitted" % key, "evaluated with a NaN argument the range check of Pr::try_from reaches `Ok`: a NaN decision value becomes a `Pr` outside [0, 1] (and wins or loses every comparison of the multi-class arg-max arbitrarily)", fn_loc(fn))
        elif "Err" in o and "Ok" not in o:
            res.ok()
        elif not o:
            res.undecided("%s : nan-path" % key, "the outcome of Pr::try_from for a NaN argument was not determined (fail closed)", fn_loc(fn))
        else:
            res.undecided("%s : nan-path" % key, "for a NaN argument both Ok and Err are reachable as far as the analysis can tell (fail closed)", fn_loc(fn))
    # MultiTargetModel: into_shape((models, n)) followed by reversed_axes
    for fn in [f for f in predictors(F) if (f["d"].get("self_adt") or "").endswith("MultiTargetModel") and f["d"]["name"] == "predict_inplace"]:
        r = Render(fn["crate"])
        key = fn_key(fn)
        res.instance("%s : (models, n) buffer transposed" % key)
        from .shortcut import _fn_of_def
        from .taint import parent_map
        c_ = fn["crate"]
        pm = parent_map(fn["body"])
        shp = next((y for y in walk(fn["body"]) if y.get("k") == "MethodCall" and y["name"] in ("into_shape", "to_shape", "into_shape_with_order") and y["args"] and peel_refs(y["args"][0]).get("k") == "Tup" and len(peel_refs(y["args"][0])["es"]) == 2), None)
        if shp is None:
            res.undecided("%s : reshape" % key, "no `into_shape((a, b))` of the collected predictions (fail closed)", fn_loc(fn))
            continue
        # the list the per-model predictions are produced from: `self.<field>.iter().flat_map(..)`
        src = peel_refs(shp["recv"])
        field = None
        for y in walk(src):
            if y.get("k") == "Field" and peel_refs(y["e"]).get("name") == "self":
                field = y["name"]

        def is_model_count(e, depth=0):
            e = peel_refs(e)
            if e.get("k") == "MethodCall" and e["name"] == "len":
                b = peel_refs(e["recv"])
                return b.get("k") == "Field" and b["name"] == field and peel_refs(b["e"]).get("name") == "self"
            if e.get("k") == "MethodCall" and peel_refs(e["recv"]).get("name") == "self" and not e["args"] and depth < 2:
                g = _fn_of_def(F, c_, e.get("def"))
                if g is not None:
                    b = g["body"]
                    while b.get("k") == "Block" and not b.get("stmts") and b.get("e") is not None:
                        b = strip(b["e"])
                    return is_model_count(b, depth + 1)
            return False

        def is_row_count(e):
            e = peel_refs(e)
            return e.get("k") == "MethodCall" and e["name"] in ("nrows", "len_of", "nsamples") and peel_refs(e["recv"]).get("local") in [b["local"] for p_ in fn["params"][1:2] for b in pat_bindings(p_)]
        a0, a1 = peel_refs(shp["args"][0])["es"]
        up, transposed = pm.get(id(shp)), False
        while up is not None and up.get("k") in ("MethodCall", "Ref", "Paren", "DropTemps", "Unary"):
            if up.get("k") == "MethodCall" and up["name"] in ("reversed_axes", "t", "permuted_axes"):
                transposed = True
            up = pm.get(id(up))
        if is_model_count(a0) and is_row_count(a1) and transposed:
            res.ok()
        elif is_row_count(a0) and is_model_count(a1):
            res.violate("%s : reshape-without-transpose" % key, "the per-model predictions (one model after the other in the buffer) are reshaped as (n, models): column j is not model j's prediction", fn_loc(fn, shp.get("ln")))
        elif is_model_count(a0) and is_row_count(a1) and not transposed:
            res.violate("%s : reshape-without-transpose" % key, "the (models, n) buffer is not transposed: the result has one row per model", fn_loc(fn, shp.get("ln")))
        else:
            res.undecided("%s : reshape-extents" % key, "`%s`: the extents were not recognised as (number of models, number of rows) (fail closed)" % r.e(shp["args"][0])[:60], fn_loc(fn, shp.get("ln")))
    # Platt
    for fn in [f for f in predictors(F) if (f["d"].get("self_adt") or "").endswith("Platt") and f["d"]["name"] == "predict_inplace"]:
        r = Render(fn["crate"])
        key = fn_key(fn)
        body = r.e(fn["body"])
        res.instance("%s : each inner value goes through platt_predict" % key)
        if re.search(r"\*target = [\w:]*platt_predict\(\*?x, self\.a, self\.b\)", body) and "self.obj.predict(data)" in body:
            res.ok()
        else:
            res.violate("%s : not-through-platt-predict" % key, "calibrated probabilities are not `platt_predict(inner value, a, b)` of the inner model's own predictions", fn_loc(fn))
    for fn in [f for f in F.find_fns(name="platt_predict", krate="linfa")]:
        c = fn["crate"]
        key = fn_key(fn)
        res.instance("%s : returns through Pr::new" % key)
        ctors = set()
        for n in walk(fn["body"]):
            if n.get("k") == "Call":
                d = c.dfn(strip(n["f"]).get("def")) if strip(n["f"]).get("k") == "Path" else None
                if d and (d.get("self_adt") or "").endswith("Pr") and d["name"].startswith("new"):
                    ctors.add(d["name"])
            if n.get("k") == "Struct" and (c.dfn(n.get("def")) or {}).get("path", "").endswith("Pr"):
                ctors.add("literal")
        if ctors == {"new"}:
            res.ok()
        else:
            res.violate("%s : unchecked-probability" % key, "platt_predict builds its result with %s instead of the range-checked Pr::new only" % sorted(ctors), fn_loc(fn))
    return res.finish(7)


def rule_overwrite(ctx):
    """predict_inplace determines every element of the target from the batch and the model: the caller's buffer content
    is never read, every element is written on every path (see rules/inplace.py)"""
    res = RuleResult("R-C03-overwrite", "predict_inplace never reads what the target buffer held and writes every element: no compound assignment, no beta != 0 accumulation, no element left unwritten on some path")
    F = ctx.facts()
    ck = inplace.Checker(F)
    n = 0
    for fn in predictors(F):
        if fn["d"]["name"] != "predict_inplace":
            continue
        ps = fn["params"]
        key = fn_key(fn)
        if len(ps) < 3 or ps[2].get("k") != "Bind":
            res.instance("%s : target parameter" % key)
            res.undecided("%s : target-parameter" % key, "third parameter of predict_inplace is not a plain binding", fn_loc(fn))
            continue
        n += 1
        vs = ck.check(fn, ps[2]["local"])
        res.instance("%s : %d uses of the target classified (%s)" % (key, len(vs), ", ".join(sorted(set(v.kind for v in vs)))))
        bad = [v for v in vs if v.verdict != "ok"]
        if not vs:
            res.undecided("%s : no-write" % key, "no write to the target recognised", fn_loc(fn))
        elif not bad:
            res.ok()
        seen = set()
        for v in bad:
            if (v.verdict, v.kind) in seen:
                continue
            seen.add((v.verdict, v.kind))
            if v.verdict == "violation":
                res.violate("%s : %s" % (key, v.kind), v.msg, fn_loc(fn, v.ln))
            else:
                res.undecided("%s : %s" % (key, v.kind), v.msg, fn_loc(fn, v.ln))
    if n == 0:
        res.missing_anchor("PredictInplace impls")
    return res.finish(20)


def rules(tier):
    from . import c13, bitorder
    from . import blockmean, permspace
    return [permspace.make_rule("R-C03-permspace", lambda f: f["d"]["krate"] in ("linfa", "linfa_linear", "linfa_trees", "linfa_nn", "linfa_clustering", "linfa_svm", "linfa_bayes", "linfa_logistic"), "the predictors of the workspace"),
            blockmean.make_offset_rule("R-C03-blockoffset", lambda f: f["d"]["krate"] in ("linfa", "linfa_clustering", "linfa_bayes", "linfa_linear", "linfa_logistic", "linfa_svm", "linfa_trees", "linfa_elasticnet", "linfa_reduction", "linfa_pls", "linfa_ftrl", "linfa_nn"), "the predictors of the workspace"),
            bitorder.make_rule("R-C03-bitorder", {"linfa"}, 1, "the linfa crate (the probabilities the composed models select by)"), rule_forms, rule_shape, rule_rowlocal, rule_noint, rule_composite, rule_overwrite, c13.rule_decision]
