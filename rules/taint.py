"""E-F: unordered-source discovery and consumer classification on typed HIR trees."""
import re

from .facts import children, walk, strip, peel_refs, pat_bindings, Render

HASH_TY = re.compile(r"^(&(mut )?)*('\w+ )?(mut )?std::collections::(HashMap|HashSet)<|^(&(mut )?)*('\w+ )?(mut )?std::collections::hash_(map|set)::")
HASH_ITER_TY = re.compile(r"std::collections::hash_(map|set)::(Iter|IterMut|Keys|Values|ValuesMut|IntoIter|IntoKeys|IntoValues|Drain|Union|Intersection|Difference|SymmetricDifference)<")
ITER_METHODS = {"iter", "iter_mut", "keys", "values", "values_mut", "into_iter", "drain", "into_keys", "into_values",
                "union", "intersection", "difference", "symmetric_difference"}

ADAPTORS = {"map", "filter", "filter_map", "cloned", "copied", "inspect", "flat_map", "chain", "peekable", "by_ref", "flatten",
            "map_while", "into_iter", "iter", "zip"}
POSITIONAL = {"enumerate", "take", "skip", "rev", "next", "nth", "first", "last", "position", "step_by", "take_while", "skip_while",
              "find", "find_map", "next_back", "peek"}
ORDER_FREE_TERMINALS = {"count", "len", "all", "any", "is_empty", "contains", "contains_key", "extend"}
ARG_EXTREMA = {"max_by", "min_by", "max_by_key", "min_by_key"}
VALUE_EXTREMA = {"max", "min"}
INT_RE = re.compile(r"^(usize|u8|u16|u32|u64|u128|isize|i8|i16|i32|i64|i128|bool)$")
SORTS = {"sort", "sort_unstable", "sort_by", "sort_by_key", "sort_unstable_by", "sort_unstable_by_key", "sort_by_cached_key"}


def parent_map(root):
    pm = {}
    for n in walk(root):
        for ch in children(n):
            pm[id(ch)] = n
        if n.get("k") == "Closure":
            pm[id(n["body"])] = n
    return pm


def peeled_ty(c, n, adjusted=True):
    t = c.ty(n.get("at") if adjusted and "at" in n else n.get("t")) or ""
    return t


def is_hash_ty(t):
    t = re.sub(r"^(&(mut )?('\w+ )?)+", "", t.strip())
    return t.startswith("std::collections::HashMap<") or t.startswith("std::collections::HashSet<")


def hash_sources(fn):
    """Nodes where iteration over a hash container starts: (node, how)."""
    c = fn["crate"]
    out = []
    for n in walk(fn["body"]):
        k = n.get("k")
        if k == "MethodCall" and n["name"] in ITER_METHODS:
            rt = c.ty(n["recv"].get("t")) or ""
            rat = c.ty(n["recv"].get("at")) if "at" in n["recv"] else rt
            if is_hash_ty(rt) or is_hash_ty(rat or ""):
                out.append((n, "%s() on %s" % (n["name"], short_ty(rt))))
        elif k == "Call":
            f = strip(n["f"])
            d = c.dfn(f.get("def")) if f.get("k") == "Path" else None
            if d and d["name"] == "into_iter" and n["args"]:
                a = n["args"][0]
                at = c.ty(a.get("t")) or ""
                if is_hash_ty(at):
                    out.append((n, "for-loop / into_iter over %s" % short_ty(at)))
    return out


def short_ty(t):
    t = re.sub(r"std::collections::", "", t)
    return t if len(t) < 70 else t[:70] + "…"



def sort_is_total(sortcall):
    """A sort leaves no ties (hence no residue of the previous order) when it compares whole elements
    or the first tuple component (the unique map key) of the two elements."""
    name = sortcall["name"]
    if name in ("sort", "sort_unstable"):
        return True
    if not sortcall["args"]:
        return False
    clo = strip(sortcall["args"][0])
    if clo.get("k") != "Closure":
        return False
    if name in ("sort_by", "sort_unstable_by") and len(clo["params"]) == 2 and extremum_is_total({"name": "max_by", "args": [clo]}):
        return True          # a comparator that falls back on the unique key (then_with on the first components)
    pids = []
    for p in clo["params"]:
        b = list(pat_bindings(p))
        if p.get("k") != "Bind" or len(b) != 1:
            return False
        pids.append(b[0]["local"])

    def key_of(n):
        """'whole' / 'first' when n is <param> or <param>.0 (through refs/derefs/clones)."""
        n = peel_refs(n)
        if n.get("k") == "Path" and n.get("local") in pids:
            return ("whole", n["local"])
        if n.get("k") == "Field" and n["name"] == "0":
            b = peel_refs(n["e"])
            if b.get("k") == "Path" and b.get("local") in pids:
                return ("first", b["local"])
        return None
    body = peel_refs(clo["body"])
    if name in ("sort_by_key", "sort_unstable_by_key", "sort_by_cached_key"):
        return key_of(body) is not None
    if name in ("sort_by", "sort_unstable_by"):
        while body.get("k") == "MethodCall" and body["name"] in ("unwrap", "expect"):
            body = peel_refs(body["recv"])
        if body.get("k") == "MethodCall" and body["name"] in ("cmp", "partial_cmp", "total_cmp") and len(body["args"]) == 1:
            a, b = key_of(body["recv"]), key_of(body["args"][0])
            return a is not None and b is not None and a[0] == b[0] and a[1] != b[1]
    return False


FN_INDEX = {}     # (krate, raw) -> fn, filled by the rule module: lets a comparator given as a function path be read


def extremum_is_total(call, crate=None):
    """max_by/min_by whose comparator falls back (then/then_with, or a match arm) on comparing the unique map keys
    (first tuple component) of the two elements: no ties remain, so iteration order is irrelevant."""
    if call["name"] not in ("max_by", "min_by") or not call["args"]:
        return False
    clo = strip(call["args"][0])
    if clo.get("k") == "Path" and "def" in clo and crate is not None:
        d = crate.dfn(clo["def"])
        g = FN_INDEX.get((d.get("krate"), d.get("raw"))) if d else None
        if g is not None:
            clo = {"k": "Closure", "params": g["params"], "body": g["body"]}
    if clo.get("k") != "Closure" or len(clo["params"]) != 2:
        return False
    pids = []
    firsts = {}
    for i_, p in enumerate(clo["params"]):
        q = p
        while q is not None and q.get("k") == "Ref":
            q = q.get("pat")
        b = list(pat_bindings(p))
        if len(b) == 1 and q is not None and q.get("k") == "Bind":
            pids.append(b[0]["local"])
        elif q is not None and q.get("k") == "Tuple" and q.get("pats"):
            # `|(word_a, (_, freq_a)), (word_b, (_, freq_b))|`: the first component (the map key) under its own name
            q0 = q["pats"][0]
            while q0 is not None and q0.get("k") == "Ref":
                q0 = q0.get("pat")
            if q0 is None or q0.get("k") != "Bind":
                return False
            pid = "tuple-param-%d" % i_
            pids.append(pid)
            firsts[q0["local"]] = pid
        else:
            return False
    # a closure that only forwards its two entries to a function: read that function
    body0 = strip(clo["body"])
    while body0.get("k") == "Block" and not body0["stmts"] and body0.get("e"):
        body0 = strip(body0["e"])
    if body0.get("k") == "Call" and crate is not None and len(body0["args"]) == 2 and [peel_refs(a).get("local") for a in body0["args"]] in (pids, pids[::-1]):
        f0 = strip(body0["f"])
        d = crate.dfn(f0.get("def")) if f0.get("k") == "Path" else None
        g = FN_INDEX.get((d.get("krate"), d.get("raw"))) if d else None
        if g is not None and len(g["params"]) == 2:
            return extremum_is_total({"name": call["name"], "args": [{"k": "Closure", "params": g["params"], "body": g["body"]}]}, crate)
    # `let (class_a, weight_a) = a;` : the first component of an entry under its own name
    for n in walk(clo["body"]):
        if n.get("k") == "LetStmt" and n.get("init") is not None and n["pat"].get("k") == "Tuple" and n["pat"]["pats"]:
            i0 = peel_refs(n["init"])
            if i0.get("k") == "Path" and i0.get("local") in pids:
                for b in pat_bindings(n["pat"]["pats"][0]):
                    firsts[b["local"]] = i0["local"]

    def first_of(n):
        n = peel_refs(n)
        if n.get("k") == "Field" and n["name"] == "0":
            b = peel_refs(n["e"])
            if b.get("k") == "Path" and b.get("local") in pids:
                return b["local"]
        if n.get("k") == "Path" and n.get("local") in firsts:
            return firsts[n["local"]]
        return None
    # a comparator that decides ties through arithmetic (a tolerance band |a - b| <= eps, a rounded key) is not a total
    # order even if it falls back on the key: "almost equal" is not transitive
    for n in walk(clo["body"]):
        if n.get("k") == "MethodCall" and n["name"] in ("abs", "round", "floor", "ceil", "trunc"):
            return False
        if n.get("k") == "Call" and strip(n["f"]).get("k") == "Path" and "local" in strip(n["f"]):
            return False      # calls a local closure: its relation is not read
    has_then = False
    key_cmp = False
    for n in walk(clo["body"]):
        if n.get("k") == "MethodCall" and n["name"] in ("then", "then_with"):
            has_then = True
        if n.get("k") == "MethodCall" and n["name"] == "cmp" and len(n["args"]) == 1:
            a, b = first_of(n["recv"]), first_of(n["args"][0])
            if a is not None and b is not None and a != b:
                key_cmp = True
    # the keys are unique, so a comparator that consults them whenever the primary comparison ties is total
    return key_cmp


class Consumer:
    def __init__(self, verdict, how, node, detail=""):
        self.verdict = verdict  # 'ok' | 'order' | 'unclassified' | 'derived'
        self.how = how
        self.node = node
        self.detail = detail


def classify(fn, src, pm):
    """Follow the iterator produced at `src` to its consumer."""
    c = fn["crate"]
    cur = src
    chain = []
    while True:
        par = pm.get(id(cur))
        if par is None:
            return Consumer("derived", "returned in iteration order", cur, "->".join(chain))
        k = par.get("k")
        if k == "MethodCall" and par["recv"] is cur:
            name = par["name"]
            chain.append(name)
            if name in ADAPTORS:
                cur = par
                continue
            if name in POSITIONAL:
                if name in ("next", "first", "last", "nth", "peek") and _under_singleton_guard(src, par, pm):
                    return Consumer("ok", "`%s` under a test that the container has exactly one element (one iteration order only)" % name, par, "->".join(chain))
                return Consumer("order", "positional adaptor/consumer `%s`" % name, par, "->".join(chain))
            if name in ORDER_FREE_TERMINALS:
                return Consumer("ok", "order-insensitive `%s`" % name, par, "->".join(chain))
            if name in VALUE_EXTREMA:
                return Consumer("ok", "extremum of the values `%s`" % name, par, "->".join(chain))
            if name in ARG_EXTREMA:
                if extremum_is_total(par, c):
                    return Consumer("ok", "arg-extremum `%s` with a total comparator (ties resolved on the unique key)" % name, par, "->".join(chain))
                return Consumer("order", "arg-extremum `%s`: ties are broken by iteration order" % name, par, "->".join(chain))
            if name in ("sum", "product"):
                t = c.ty(par.get("t")) or ""
                if INT_RE.match(t):
                    return Consumer("ok", "integer %s" % name, par, "->".join(chain))
                return Consumer("order", "floating-point/unknown-type `%s` (%s) accumulates in iteration order" % (name, t), par, "->".join(chain))
            if name in ("fold", "reduce") and _fold_integer_commutative(fn, par):
                return Consumer("ok", "integer `%s` with a commutative, associative step" % name, par, "->".join(chain))
            if name in ("fold", "reduce") and _fold_total_selection(fn, par):
                return Consumer("ok", "`%s` keeps one of its two operands under %s" % (name, _fold_total_selection(fn, par)), par, "->".join(chain))
            if name in ("fold", "reduce", "try_fold", "scan"):
                return Consumer("order", "`%s` accumulates in iteration order" % name, par, "->".join(chain))
            if name == "for_each":
                return classify_body(fn, par["args"][0], par, "->".join(chain))
            if name in ("sorted", "sorted_unstable"):
                return Consumer("ok", "itertools `%s` (total order on the whole element)" % name, par, "->".join(chain))
            if name in ("sorted_by", "sorted_by_key", "sorted_unstable_by", "sorted_unstable_by_key", "sorted_by_cached_key"):
                return Consumer("unclassified", "`%s` with a custom key: ties would keep hash order" % name, par, "->".join(chain))
            if name in ("collect", "unzip"):
                t = c.ty(par.get("t")) or ""
                if re.search(r"(HashMap|HashSet|BTreeMap|BTreeSet)<", t.split("<")[0] + "<"):
                    return Consumer("ok", "collected into %s" % t.split("<")[0].split("::")[-1], par, "->".join(chain))
                return follow_collection(fn, par, pm, "->".join(chain))
            return Consumer("unclassified", "unknown iterator consumer `%s`" % name, par, "->".join(chain))
        if k == "MethodCall" and par["recv"] is not cur:
            # passed as an argument to a method (zip(other), extend(iter), chain(iter))
            name = par["name"]
            chain.append("arg:" + name)
            if name in ("extend",):
                rt = c.ty(par["recv"].get("t")) or ""
                if is_hash_ty(rt) or "BTree" in rt:
                    return Consumer("ok", "extends another hash/b-tree container", par, "->".join(chain))
                return Consumer("order", "extends a sequence in iteration order", par, "->".join(chain))
            if name in ("zip", "chain"):
                cur = par
                continue
            return Consumer("unclassified", "passed to `%s`" % name, par, "->".join(chain))
        if k == "Call":
            f = strip(par["f"])
            d = c.dfn(f.get("def")) if f.get("k") == "Path" else None
            nm = d["name"] if d else "?"
            if nm == "into_iter":
                cur = par
                chain.append("into_iter")
                continue
            if nm in ("from_iter", "from"):
                t = c.ty(par.get("t")) or ""
                if re.search(r"(HashMap|HashSet|BTreeMap|BTreeSet)<", t):
                    return Consumer("ok", "collected into %s" % t.split("<")[0].split("::")[-1], par, "->".join(chain))
                return follow_collection(fn, par, pm, "->".join(chain + [nm]))
            if nm in ("sorted", "sorted_unstable"):
                return Consumer("ok", "itertools `%s` (total order on the whole element)" % nm, par, "->".join(chain))
            return Consumer("unclassified", "passed to function `%s`" % nm, par, "->".join(chain))
        if k == "Match" and par.get("src") == "ForLoopDesugar" and par["scrut"] is cur:
            # for pat in <cur> { body }
            loop = strip(par["arms"][0]["body"])
            return classify_for(fn, loop, par, "->".join(chain + ["for"]))
        if k in ("Ref", "Block", "Semi", "Cast") or (k == "Unary" and par["op"] == "*"):
            cur = par
            continue
        if k == "LetStmt":
            return follow_binding(fn, par, pm, "->".join(chain))
        if k in ("Ret",):
            return Consumer("derived", "returned in iteration order", par, "->".join(chain))
        if k == "Closure":
            return Consumer("derived", "closure result in iteration order", par, "->".join(chain))
        return Consumer("unclassified", "iterator flows into `%s`" % k, par, "->".join(chain))


def _under_singleton_guard(src, node, pm):
    """node sits in the then-branch of `if <container>.len() == 1` (or `<= 1`, `< 2`) where <container> is the one `src`
    iterates over"""
    root = None
    if src.get("k") == "MethodCall":
        root = root_local(src["recv"])
    elif src.get("k") == "Call" and src.get("args"):
        root = root_local(src["args"][0])
    if root is None:
        return False
    cur = node
    while True:
        par = pm.get(id(cur))
        if par is None:
            return False
        if par.get("k") == "If" and any(x is cur for x in walk(par["then"])):
            cond = strip(par["c"])
            while cond.get("k") in ("DropTemps", "Paren"):
                cond = strip(cond["e"])
            if cond.get("k") == "Binary" and cond["op"] in ("==", "<=", "<"):
                l, r_ = peel_refs(cond["l"]), peel_refs(cond["r"])
                if l.get("k") == "MethodCall" and l["name"] == "len" and r_.get("k") == "Lit":
                    rl = root_local(l["recv"])
                    lim = str(r_.get("v"))
                    if rl is not None and rl["local"] == root["local"] and ((cond["op"] in ("==", "<=") and lim == "1") or (cond["op"] == "<" and lim == "2")):
                        return True
        cur = par


def follow_collection(fn, node, pm, chain):
    """`node` evaluates to a sequence (Vec/Array) in hash order. Accepted iff it is sorted before any other use."""
    cur = node
    while True:
        par = pm.get(id(cur))
        if par is None:
            return Consumer("derived", "sequence in iteration order is the function's result", cur, chain)
        k = par.get("k")
        if k in ("Ref", "Semi", "Cast"):
            cur = par
            continue
        if k == "Block":
            if par.get("e") is cur:
                cur = par
                continue
            return Consumer("ok", "result discarded", par, chain)
        if k == "MethodCall" and par["recv"] is cur and par["name"] in ("unwrap", "expect", "clone", "to_vec", "to_owned"):
            cur = par
            continue
        if k == "MethodCall" and par["recv"] is cur and par["name"] in ("into_iter", "iter", "iter_mut", "drain"):
            return classify(fn, par, pm)
        if k == "Call" and strip(par["f"]).get("k") == "Path" and (fn["crate"].dfn(strip(par["f"]).get("def")) or {}).get("name") == "into_iter":
            return classify(fn, par, pm)
        if k == "LetStmt":
            return follow_binding(fn, par, pm, chain)
        if k == "MethodCall" and par["recv"] is cur:
            if par["name"] in SORTS:
                if sort_is_total(par):
                    return Consumer("ok", "sorted (`%s`, total on the unique key) before any other use" % par["name"], par, chain)
                return Consumer("unclassified", "`%s` with a key that may tie: ties keep hash order" % par["name"], par, chain)
            if par["name"] in ("len", "is_empty", "contains"):
                return Consumer("ok", "only `%s` of the sequence is used" % par["name"], par, chain)
            if par["name"] == "next" and not par["args"]:
                nm = _seeds_total_incumbent(fn, par, pm) or _seeds_total_fold(fn, par, pm)
                if nm and nm.startswith("inline:"):
                    return Consumer("undecided", "the first element seeds an incumbent that gives way under comparisons of value and key written out in the loop: not evaluated", par, chain)
                if nm:
                    return Consumer("ok", "the first element only seeds an incumbent that is replaced under the total predicate `%s`" % nm, par, chain)
            if par["name"] in ("fold", "reduce") and _fold_integer_commutative(fn, par):
                return Consumer("ok", "integer `%s` with a commutative, associative step" % par["name"], par, chain)
            if par["name"] in ("fold", "reduce") and _fold_total_selection(fn, par):
                return Consumer("ok", "`%s` keeps one of its two operands under %s" % (par["name"], _fold_total_selection(fn, par)), par, chain)
            return Consumer("order", "sequence in hash order is consumed by `%s`" % par["name"], par, chain)
        if k in ("Ret", "Closure"):
            return Consumer("derived", "sequence in iteration order is returned", par, chain)
        if k == "Call":
            f = strip(par["f"])
            d = fn["crate"].dfn(f.get("def")) if f.get("k") == "Path" else None
            if d and d["name"] in ("Ok", "Some", "from", "from_vec", "new") :
                cur = par
                continue
            return Consumer("order", "sequence in hash order is passed to `%s`" % (d["name"] if d else "?"), par, chain)
        if k in ("Tup", "Struct", "Array"):
            return Consumer("derived", "sequence in iteration order is stored in the result", par, chain)
        return Consumer("unclassified", "sequence flows into `%s`" % k, par, chain)


def _fold_integer_commutative(fn, call):
    """`fold(0usize, |acc, x| acc + f(x))` (also `*`, `|`, `&`, `^`, max, min) over integers / booleans: exact arithmetic
    with a commutative, associative step gives the same result in every iteration order"""
    c = fn["crate"]
    if call.get("name") not in ("fold", "reduce") or not call.get("args"):
        return False
    t = c.ty(call.get("t")) or ""
    if call["name"] == "reduce":
        t = t.replace("std::option::Option<", "").replace("core::option::Option<", "").rstrip(">")
    if not (INT_RE.match(t) or t == "bool"):
        return False
    clo = strip(call["args"][-1])
    if clo.get("k") != "Closure" or len(clo["params"]) != 2 or clo["params"][0].get("k") != "Bind":
        return False
    acc = clo["params"][0]["local"]
    body = strip(clo["body"])
    while body.get("k") == "Block" and not body["stmts"] and body.get("e") is not None:
        body = strip(body["e"])

    def mentions(e):
        return any(z.get("k") == "Path" and z.get("local") == acc for z in walk(e))
    if body.get("k") == "Binary" and body["op"] in ("+", "*", "|", "&", "^", "||", "&&"):
        l, r_ = peel_refs(body["l"]), peel_refs(body["r"])
        if l.get("local") == acc and l.get("k") == "Path" and not mentions(body["r"]):
            return True
        if r_.get("local") == acc and r_.get("k") == "Path" and not mentions(body["l"]):
            return True
    if body.get("k") == "MethodCall" and body["name"] in ("max", "min") and len(body["args"]) == 1:
        a, b = peel_refs(body["recv"]), peel_refs(body["args"][0])
        if (a.get("local") == acc and not mentions(body["args"][0])) or (b.get("local") == acc and not mentions(body["recv"])):
            return True
    if body.get("k") == "Call" and len(body.get("args") or []) == 2 and strip(body["f"]).get("k") == "Path" and (c.dfn(strip(body["f"]).get("def")) or {}).get("name") in ("max", "min"):
        a, b = peel_refs(body["args"][0]), peel_refs(body["args"][1])
        if (a.get("local") == acc and not mentions(body["args"][1])) or (b.get("local") == acc and not mentions(body["args"][0])):
            return True
    return False


def _fold_total_selection(fn, call):
    """`fold(seed, |inc, cand| match cmp(&inc, &cand) { .. => inc, .. => cand })` / `reduce(|a, b| ..)`: the result is the
    extremum under `cmp`; when `cmp` is total on the entries (falls back on the unique key) it does not depend on the order
    in which the entries arrive.  Returns a description of the comparator, or None."""
    c = fn["crate"]
    if call.get("name") not in ("fold", "reduce") or not call.get("args"):
        return None
    clo = strip(call["args"][-1])
    if clo.get("k") != "Closure" or len(clo["params"]) != 2:
        return None
    pids = []
    for p in clo["params"]:
        b = list(pat_bindings(p))
        if p.get("k") != "Bind" or len(b) != 1:
            return None
        pids.append(b[0]["local"])

    def tail(e):
        e = strip(e)
        while e.get("k") == "Block" and not e["stmts"] and e.get("e") is not None:
            e = strip(e["e"])
        return e
    body = tail(clo["body"])
    if body.get("k") == "Match" and body.get("src", "Normal") == "Normal":
        results, scrut = [a["body"] for a in body["arms"]], body["scrut"]
    elif body.get("k") == "If" and body.get("else") is not None:
        results, scrut = [body["then"], body["else"]], body["c"]
    else:
        return None
    got = set()
    for r_ in results:
        r_ = peel_refs(tail(r_))
        if r_.get("k") != "Path" or r_.get("local") not in pids:
            return None
        got.add(r_["local"])
    if got != set(pids):
        return None
    for y in walk(scrut):
        if y.get("k") == "Call" and strip(y["f"]).get("k") == "Path" and "local" in strip(y["f"]) and len(y["args"]) == 2 \
                and sorted(str(peel_refs(a).get("local")) for a in y["args"]) == sorted(str(x) for x in pids):
            lid = strip(y["f"])["local"]
            for z in walk(fn["body"]):
                if z.get("k") == "LetStmt" and z["pat"].get("k") == "Bind" and z["pat"]["local"] == lid and z.get("init") is not None and strip(z["init"]).get("k") == "Closure":
                    if extremum_is_total({"name": "max_by", "args": [strip(z["init"])]}, c):
                        return "the total comparator `%s`" % z["pat"]["name"]
            return None
    if extremum_is_total({"name": "max_by", "args": [{"k": "Closure", "params": clo["params"], "body": scrut}]}, c):
        return "a total inline comparison"
    return None


def _seeds_total_fold(fn, nxt, pm):
    """`let first = it.next().unwrap(); it.fold(first, <total selection>)`"""
    cur = nxt
    while True:
        par = pm.get(id(cur))
        if par is None:
            return None
        if par.get("k") == "MethodCall" and par["recv"] is cur and par["name"] in ("unwrap", "expect", "cloned", "copied"):
            cur = par
            continue
        if par.get("k") in ("Ref",):
            cur = par
            continue
        break
    if par.get("k") != "LetStmt" or par["pat"].get("k") != "Bind":
        return None
    lid = par["pat"]["local"]
    uses = [y for y in walk(fn["body"]) if y.get("k") == "Path" and y.get("local") == lid]
    if not uses:
        return None
    how = None
    for u in uses:
        v, p = u, pm.get(id(u))
        while p is not None and p.get("k") in ("Ref",):
            v, p = p, pm.get(id(p))
        if p is None or p.get("k") != "MethodCall" or p["name"] != "fold" or not p["args"] or p["args"][0] is not v:
            return None
        how = _fold_total_selection(fn, p)
        if not how:
            return None
    return how


def _seeds_total_incumbent(fn, nxt, pm):
    """`let mut best = it.next().unwrap(); for c in it { if prefers(best, c) .. { best = c } }`: which element comes first
    does not matter when every replacement of `best` is governed by a predicate that decides every pair (value, then key)"""
    cur = nxt
    while True:
        par = pm.get(id(cur))
        if par is None:
            return None
        if par.get("k") == "MethodCall" and par["recv"] is cur and par["name"] in ("unwrap", "expect", "cloned", "copied"):
            cur = par
            continue
        if par.get("k") in ("Ref",):
            cur = par
            continue
        break
    if par.get("k") != "LetStmt":
        return None
    if par["pat"].get("k") != "Bind":
        # `let (mut best_key, mut best_w) = it.next().unwrap();`: every component is an incumbent
        lids = set(b["local"] for b in pat_bindings(par["pat"]))
        assigns = [y for y in walk(fn["body"]) if y.get("k") == "Assign" and peel_refs(y["l"]).get("k") == "Path" and peel_refs(y["l"]).get("local") in lids]
        if not lids or not assigns:
            return None
        for a in assigns:
            loop, q = None, pm.get(id(a))
            while q is not None:
                if q.get("k") == "Loop":
                    loop = q
                    break
                q = pm.get(id(q))
            if loop is None:
                return None
            inner = strip(loop["body"]["e"] if loop["body"].get("e") else (loop["body"]["stmts"][0] if loop["body"]["stmts"] else {}))
            ids = set()
            if inner and inner.get("k") == "Match":
                for arm in inner["arms"]:
                    if arm["pat"]["k"] in ("TupleStruct", "Struct"):
                        ids |= set(b["local"] for b in pat_bindings(arm["pat"]))
            if not _inline_key_tiebreak(fn, a, loop["body"], ids):
                return None
        return "inline:value-then-key"
    lid = par["pat"]["local"]
    assigns = [y for y in walk(fn["body"]) if y.get("k") == "Assign" and peel_refs(y["l"]).get("k") == "Path" and peel_refs(y["l"]).get("local") == lid]
    if not assigns:
        return None
    name = None
    for a in assigns:
        loop = None
        q = pm.get(id(a))
        while q is not None:
            if q.get("k") == "Loop":
                loop = q
                break
            q = pm.get(id(q))
        if loop is None:
            return None
        nm = _total_predicate_near(fn, a, loop["body"])
        if not nm:
            return None
        name = nm
    return name


def follow_binding(fn, let, pm, chain):
    """let <pat> = <sequence in hash order>; accepted iff the first use of the binding is a total sort,
    or every use is itself order-insensitive."""
    binds = list(pat_bindings(let["pat"]))
    if len(binds) != 1:
        return Consumer("unclassified", "bound by a compound pattern", let, chain)
    lid = binds[0]["local"]
    blk = pm.get(id(let))
    if blk is None or blk.get("k") != "Block":
        return Consumer("unclassified", "binding outside a block", let, chain)
    after = False
    verdicts = []
    selected = None
    for s in blk["stmts"] + ([blk["e"]] if blk.get("e") else []):
        if s is let:
            after = True
            continue
        if not after:
            continue
        for u in [n for n in walk(s) if n.get("k") == "Path" and n.get("local") == lid]:
            p = pm.get(id(u))
            v = u
            while p is not None and p.get("k") in ("Ref",):
                v, p = p, pm.get(id(p))
            if p is not None and p.get("k") == "MethodCall" and p["recv"] is v and p["name"] in SORTS:
                if not verdicts:
                    if sort_is_total(p):
                        return Consumer("ok", "sorted (`%s`, total on the unique key) before any other use" % p["name"], p, chain)
                    return Consumer("unclassified", "`%s` with a key that may tie: ties keep hash order" % p["name"], p, chain)
                continue
            # `v.select_nth_unstable(k - 1); v.truncate(k);` under a total order: the *set* of the k best is the same for
            # every arrival order (their order is not) - fine as long as whatever follows is order-insensitive
            if p is not None and p.get("k") == "MethodCall" and p["recv"] is v and p["name"] in ("select_nth_unstable", "select_nth_unstable_by", "select_nth_unstable_by_key") and not verdicts and p["args"]:
                total = p["name"] == "select_nth_unstable" or sort_is_total({"name": "sort_unstable_by" if p["name"].endswith("_by") else "sort_unstable_by_key", "args": p["args"][1:]})
                if total:
                    from .facts import Render as _R
                    selected = _R(fn["crate"]).e(peel_refs(p["args"][0])).replace(" ", "").strip("()")
                    continue
                return Consumer("unclassified", "`%s` with a key that may tie" % p["name"], p, chain)
            if p is not None and p.get("k") == "MethodCall" and p["recv"] is v and p["name"] == "truncate" and selected is not None and p["args"]:
                from .facts import Render as _R
                cut = _R(fn["crate"]).e(peel_refs(p["args"][0])).replace(" ", "").strip("()")
                # select_nth_unstable(k - 1) puts the k smallest first (the pivot included); select_nth_unstable(k) puts the k
                # smallest before the pivot: in both cases truncate(k) keeps exactly the k smallest as a set
                if selected == cut or selected in (cut + "-1", "(%s-1)" % cut) or cut in (selected + "+1", "(%s+1)" % selected):
                    continue
                return Consumer("order", "truncated at `%s` after a selection at `%s`: the kept prefix is not the selected set" % (cut, selected), p, chain)
            verdicts.append(follow_collection(fn, u, pm, chain + "->" + binds[0]["name"]))
    if not verdicts:
        return Consumer("ok", "binding never used", let, chain)
    for want in ("order", "unclassified", "derived", "undecided"):
        for v in verdicts:
            if v.verdict == want:
                return v
    return Consumer("ok", "every use of `%s` is order-insensitive: %s" % (binds[0]["name"], "; ".join(sorted(set(v.how for v in verdicts)))[:160]), let, chain)


def classify_for(fn, loop, matchnode, chain):
    """for-loop over an unordered source: inspect the loop body's effects."""
    body = None
    inner = None
    if loop.get("k") == "Loop":
        b = loop["body"]
        inner = strip(b["e"] if b.get("e") else (b["stmts"][0] if b["stmts"] else None))
    if inner and inner.get("k") == "Match":
        for a in inner["arms"]:
            if a["pat"]["k"] in ("TupleStruct", "Struct") and (a["pat"].get("pats") or a["pat"].get("fields")):
                body = a["body"]
                pat = a["pat"]["pats"][0] if a["pat"].get("pats") else a["pat"]["fields"][0]["pat"]
    if body is None:
        return Consumer("unclassified", "for-loop shape not recognised", matchnode, chain)
    return classify_effects(fn, body, [b["local"] for b in pat_bindings(pat)], matchnode, chain)


def classify_body(fn, closure, node, chain):
    closure = strip(closure)
    if closure.get("k") != "Closure":
        return Consumer("unclassified", "for_each with a non-closure", node, chain)
    ids = [b["local"] for p in closure["params"] for b in pat_bindings(p)]
    return classify_effects(fn, closure["body"], ids, node, chain)


def root_local(n):
    n = strip(n)
    while True:
        k = n.get("k")
        if k == "Path":
            return n if "local" in n else None
        if k in ("Field", "Index", "Ref", "Cast"):
            n = strip(n["e"])
        elif k == "Unary" and n["op"] == "*":
            n = strip(n["e"])
        elif k == "MethodCall" and n["name"] in ("unwrap", "expect", "get_mut", "entry", "or_insert", "or_insert_with", "or_default", "as_mut", "borrow_mut", "row_mut", "column_mut", "index_axis_mut", "slice_mut", "get", "iter_mut"):
            n = strip(n["recv"])
        else:
            return None


def predicate_consults_keys(g):
    """g(a, b) -> bool decides between two (key, value) entries and, on some path, compares the keys (first components)
    of the two entries with each other: together with a comparison of the values this leaves no two different entries
    undecided, whatever order they are met in."""
    ps = [p for p in g["params"]]
    if len(ps) != 2:
        return False
    ids = []
    firsts = {}
    for i, p in enumerate(ps):
        bs = list(pat_bindings(p))
        if p.get("k") == "Bind" and len(bs) == 1:
            ids.append(bs[0]["local"])
        elif p.get("k") == "Tuple" and p["pats"]:
            ids.append(None)
            for b in pat_bindings(p["pats"][0]):
                firsts[b["local"]] = i
        else:
            return False

    def first_of(n):
        n = peel_refs(n)
        if n.get("k") == "Field" and n["name"] == "0":
            b = peel_refs(n["e"])
            if b.get("k") == "Path" and b.get("local") in ids:
                return ids.index(b["local"])
        if n.get("k") == "Path" and n.get("local") in firsts:
            return firsts[n["local"]]
        return None
    for n in walk(g["body"]):
        if n.get("k") == "MethodCall" and n["name"] in ("abs", "round", "floor", "ceil", "trunc"):
            return False
    for n in walk(g["body"]):
        a = b = None
        if n.get("k") == "Binary" and n["op"] in ("<", ">", "<=", ">="):
            a, b = first_of(n["l"]), first_of(n["r"])
        elif n.get("k") == "MethodCall" and n["name"] in ("cmp", "lt", "gt", "le", "ge") and len(n["args"]) == 1:
            a, b = first_of(n["recv"]), first_of(n["args"][0])
        if a is not None and b is not None and a != b:
            return True
    return False


def _total_predicate_near(fn, assign, body):
    """the assignment to an outer local is governed by a call of a workspace predicate that consults the keys: in its own
    right-hand side, or in an `if` condition / match guard of the loop body that contains it"""
    c = fn["crate"]
    cands = [assign["r"]]
    for n in walk(body):
        if n.get("k") == "If" and any(x is assign for x in walk(n)):
            cands.append(n["c"])
        if n.get("k") == "Match" and any(x is assign for x in walk(n)):
            for a in n["arms"]:
                if a.get("guard") is not None:
                    cands.append(a["guard"])
    closures = {}
    for y in walk(fn["body"]):
        if y.get("k") == "LetStmt" and y.get("init") is not None and y["pat"].get("k") == "Bind" and strip(y["init"]).get("k") == "Closure":
            closures[y["pat"]["local"]] = (y["pat"]["name"], strip(y["init"]))
    for e in cands:
        for y in walk(e):
            if y.get("k") == "Call" and len(y["args"]) == 2:
                f = strip(y["f"])
                if f.get("k") == "Path" and f.get("local") in closures:
                    # a predicate written as a local closure: `let keeps_place = |a: (&L, &f32), b: (&L, &f32)| ..`
                    nm_, clo_ = closures[f["local"]]
                    if predicate_consults_keys(clo_):
                        return nm_
                    continue
                d = c.dfn(f.get("def")) if f.get("k") == "Path" else None
                g = FN_INDEX.get((d.get("krate"), d.get("raw"))) if d else None
                if g is not None and predicate_consults_keys(g):
                    return g["d"]["name"]
    return None


def _inline_key_tiebreak(fn, assign, body, loop_ids):
    """`if w > best_w || (w == best_w && key < best_key) { best_key = key; best_w = w }` written out in the loop body
    (possibly through a flag local or a `match` on partial_cmp): the replacement of the incumbent is governed by
    comparisons of *two* different loop bindings (value and key) with the outer locals that are assigned from exactly
    those bindings under the same test.  Whether the predicate decides every pair consistently is not evaluated here:
    the caller reports the site as undecided instead of order-sensitive."""
    ifs = [n for n in walk(body) if n.get("k") == "If" and any(x is assign for x in walk(n["then"]))]
    if not ifs:
        return False
    iff = ifs[-1]
    incumbent = {}        # outer local -> loop binding it is assigned from under this test
    for y in walk(iff["then"]):
        if y.get("k") == "Assign":
            l, r_ = peel_refs(y["l"]), peel_refs(y["r"])
            if l.get("k") == "Path" and "local" in l and r_.get("k") == "Path" and r_.get("local") in loop_ids:
                incumbent[l["local"]] = r_["local"]
    if len(set(incumbent.values())) < 2:
        return False
    lets = {}
    for y in walk(body):
        if y.get("k") == "LetStmt" and y.get("init") is not None and y["pat"].get("k") == "Bind":
            lets[y["pat"]["local"]] = y["init"]
    exprs, seen = [iff["c"]], set()
    compared = set()
    while exprs:
        e = exprs.pop()
        for y in walk(e):
            if y.get("k") == "Path" and y.get("local") in lets and y["local"] not in seen:
                seen.add(y["local"])
                exprs.append(lets[y["local"]])
            sides = None
            if y.get("k") == "Binary" and y["op"] in ("<", ">", "<=", ">=", "==", "!="):
                sides = (y["l"], y["r"])
            elif y.get("k") == "MethodCall" and y["name"] in ("cmp", "partial_cmp", "lt", "gt", "le", "ge", "total_cmp") and len(y["args"]) == 1:
                sides = (y["recv"], y["args"][0])
            if sides is None:
                continue
            a, b = root_local(sides[0]), root_local(sides[1])
            if a is None or b is None:
                continue
            for x_, y_ in ((a, b), (b, a)):
                if x_["local"] in loop_ids and incumbent.get(y_["local"]) == x_["local"]:
                    compared.add(x_["local"])
    return len(compared) >= 2


def _inserted_at_search_position(call, vec_local, body):
    """`let p = match v.binary_search(&x) { Ok(p) | Err(p) => p }; .. v.insert(p, x)`: the element goes where the order on
    whole elements puts it (elements that compare equal are equal values), so the sequence is sorted after every step and
    a cut at its end (`pop`, `truncate`) removes the same elements whatever the order of arrival"""
    pos, elem = peel_refs(call["args"][0]), peel_refs(call["args"][1])
    if pos.get("k") != "Path" or "local" not in pos:
        return False
    for y in walk(body):
        if y.get("k") == "LetStmt" and y.get("init") is not None and y["pat"].get("k") == "Bind" and y["pat"]["local"] == pos["local"]:
            for z in walk(y["init"]):
                if z.get("k") == "MethodCall" and z["name"] in ("binary_search", "partition_point") and root_local(z["recv"]) is not None and root_local(z["recv"])["local"] == vec_local:
                    if z["name"] == "partition_point":
                        return False        # a predicate of its own: not read here
                    arg = peel_refs(z["args"][0]) if z["args"] else {}
                    if elem.get("k") == "Path" and arg.get("k") == "Path" and arg.get("local") == elem.get("local"):
                        return True
    return False


def _sorted_right_after(fn, local, loop_body):
    """the first use of `local` after the loop is a sort that is total on the entries (unique key as tie-break)"""
    end = max([y.get("ln") or 0 for y in walk(loop_body)] or [0])
    inside = set(id(y) for y in walk(loop_body))
    first = None
    for y in walk(fn["body"]):
        if y.get("k") == "MethodCall" and id(y) not in inside and (y.get("ln") or 0) >= end:
            r0 = peel_refs(y["recv"])
            if r0.get("k") == "Path" and r0.get("local") == local:
                if first is None or (y.get("ln") or 0) < (first.get("ln") or 0):
                    first = y
    # any other mention of the local between the loop and that sort (an argument, an index) is a use too
    if first is None or first["name"] not in SORTS or not sort_is_total(first):
        return False
    for y in walk(fn["body"]):
        if y.get("k") == "Path" and y.get("local") == local and id(y) not in inside and end <= (y.get("ln") or 0) < (first.get("ln") or 0):
            return False
    return True


def classify_effects(fn, body, loop_ids, node, chain):
    """Order-insensitive bodies only: per-entry updates, keyed inserts into other maps/sets, integer
    accumulation. Anything else that writes state outside the iteration is order-sensitive."""
    c = fn["crate"]
    r = Render(c)
    declared = set(loop_ids)
    pm_body = parent_map(body)
    inner_lets = set()
    for n in walk(body):
        if n.get("k") == "LetStmt":
            for b in pat_bindings(n["pat"]):
                inner_lets.add(b["local"])

    def lends_outer_state(cl):
        """the closure is handed to a call whose receiver chain borrows a local from outside the loop mutably
        (`Zip::from(&mut best).and(&mut *y).for_each(|b, t, ..| ..)`, `best.iter_mut().zip(..).for_each(..)`): its
        parameters are then windows into that outer state, not per-iteration temporaries"""
        call = pm_body.get(id(cl))
        while call is not None and call.get("k") not in ("MethodCall", "Call"):
            call = pm_body.get(id(call))
        if call is None:
            return False
        parts = [call["recv"]] + [a for a in call["args"] if a is not cl] if call.get("k") == "MethodCall" else [a for a in call["args"] if a is not cl]
        for part in parts:
            for y in walk(part):
                tgt = None
                if y.get("k") == "Ref" and y.get("mut"):
                    tgt = y["e"]
                elif y.get("k") == "MethodCall" and (y["name"].endswith("_mut") or y["name"] in ("drain",)):
                    tgt = y["recv"]
                if tgt is None:
                    continue
                rl = root_local(tgt)
                if rl is None:
                    b = peel_refs(tgt)
                    while b.get("k") in ("Unary", "Field", "Index", "MethodCall"):
                        b = peel_refs(b.get("e") or b.get("recv"))
                    rl = b if b.get("k") == "Path" and "local" in b else None
                if rl is not None and rl["local"] not in set(loop_ids) | inner_lets:
                    return True
        return False
    for n in walk(body):
        if n.get("k") == "LetStmt":
            for b in pat_bindings(n["pat"]):
                declared.add(b["local"])
        if n.get("k") in ("Closure",):
            if lends_outer_state(n):
                continue
            for p in n["params"]:
                for b in pat_bindings(p):
                    declared.add(b["local"])
        if n.get("k") == "Match":
            for a in n["arms"]:
                for b in pat_bindings(a["pat"]):
                    declared.add(b["local"])
        if n.get("k") == "Let":
            for b in pat_bindings(n["pat"]):
                declared.add(b["local"])
    problems = []
    inline_selection = []
    for n in walk(body):
        k = n.get("k")
        if k in ("Assign", "AssignOp"):
            rl = root_local(n["l"])
            if rl is not None and rl["local"] in declared:
                continue  # writes to the entry itself or to a per-iteration temporary
            lt = c.ty(n["l"].get("t")) or ""
            if k == "AssignOp" and n["op"] in ("+", "-", "|", "&", "^", "*") and INT_RE.match(lt):
                continue  # integer accumulation commutes
            # keyed write: target is map.entry(key)/get_mut(key)/index by a key derived from the loop variable
            if keyed_target(n["l"], declared):
                continue
            if k == "Assign" and _total_predicate_near(fn, n, body):
                continue  # an incumbent replaced under a predicate that decides every pair of entries (value, then key)
            if k == "Assign" and _inline_key_tiebreak(fn, n, body, set(loop_ids)):
                inline_selection.append(n)
                continue  # .. or under comparisons of value and key written out in place: not evaluated (undecided)
            problems.append("write to outer state `%s` (%s)" % (r.e(n["l"])[:60], "float accumulation" if k == "AssignOp" else "assignment"))
        elif k == "MethodCall":
            name = n["name"]
            rl = root_local(n["recv"])
            outer = rl is not None and rl["local"] not in declared
            rt = c.ty(n["recv"].get("t")) or ""
            rat = c.ty(n["recv"].get("at")) if "at" in n["recv"] else rt
            if not outer:
                continue
            if name in ("push", "push_back", "push_front", "push_str", "append", "insert") and not (is_hash_ty(rt) or is_hash_ty(rat) or "BTree" in rt):
                if name == "insert" and not re.search(r"Vec<|VecDeque<|String", rt):
                    continue
                if name in ("push", "push_back") and rl is not None and _sorted_right_after(fn, rl["local"], body):
                    continue  # collected in hash order, then sorted totally before anything else looks at it
                if name == "insert" and rl is not None and len(n["args"]) == 2 and _inserted_at_search_position(n, rl["local"], body):
                    continue  # kept sorted on the whole element: the content after the loop is a function of the set of entries
                problems.append("`%s.%s(..)` appends to a sequence in iteration order" % (r.e(n["recv"])[:40], name))
            elif name in ("assign", "fill", "copy_from_slice", "swap", "add_assign", "sub_assign", "scaled_add", "mul_assign", "div_assign") and (rat or "").startswith("&mut"):
                if keyed_target(n["recv"], declared):
                    continue
                problems.append("`%s.%s(..)` mutates outer state" % (r.e(n["recv"])[:40], name))
        elif k in ("Ret", "Break"):
            if n.get("e") is not None or k == "Ret":
                problems.append("early exit `%s` depends on which entry is visited first" % k.lower())
    if problems:
        return Consumer("order", "loop body is order-sensitive: " + "; ".join(sorted(set(problems))[:3]), node, chain)
    if inline_selection:
        return Consumer("undecided", "the loop keeps an incumbent that gives way under comparisons of both the value and the key of the entry, written out in the loop body: that they decide every pair the same way round was not evaluated", node, chain)
    return Consumer("ok", "loop body only makes per-entry / keyed / integer-commutative updates", node, chain)


def keyed_target(n, declared):
    """True when the written place is selected by a key derived from the loop variables
    (map.entry(k), map.get_mut(&k), arr[idx(k)], m.row_mut(i))."""
    n = strip(n)
    while True:
        k = n.get("k")
        if k == "Index":
            if uses_local(n["i"], declared):
                return True
            n = strip(n["e"])
        elif k in ("Field", "Ref", "Cast"):
            n = strip(n["e"])
        elif k == "Unary" and n["op"] == "*":
            n = strip(n["e"])
        elif k == "MethodCall":
            if n["name"] in ("entry", "get_mut", "row_mut", "column_mut", "index_axis_mut", "get", "slice_mut") and any(uses_local(a, declared) for a in n["args"]):
                return True
            n = strip(n["recv"])
        else:
            return False


def uses_local(n, ids):
    for x in walk(n):
        if x.get("k") == "Path" and x.get("local") in ids:
            return True
    return False
