"""Precision of values in code that is generic over the float type.

linfa's algorithms are generic over `F: Float`; a user who works in f64 is promised f64 results.  Two shapes in the code
take that away without changing any type the user sees:

* narrowed-value-stored: a value of the generic float type (or f64) is converted to f32 (`to_f32()`, `as f32`) and the
  result is kept in a struct / enum field.  Whatever is later computed from the field - a ball radius used for pruning,
  a presorted feature value used for thresholds - has single precision, while the data it is compared with has not.
* f32-arithmetic-widened: arithmetic carried out in f32 on values that were converted to f32 for the purpose
  (`1. / n as f32`) is widened back into the generic type (`F::cast(..)`): the result carries f32 rounding (relative
  error 6e-8) inside an f64 computation.

Stored f32 *data* (sample weights, impurity scores the crate defines as f32) widened without arithmetic is not flagged,
nor is a narrowing whose result is only returned, printed or compared."""
import re
from .facts import walk, strip, peel_refs, pat_bindings, Render, fn_key, fn_loc
from .core import RuleResult

GENERIC = re.compile(r"^&?(mut )?[A-Z][A-Za-z0-9]{0,2}$")


def is_wide(ty):
    ty = (ty or "").strip()
    return ty in ("f64", "&f64") or bool(GENERIC.match(ty))


def narrowings(fn):
    """nodes that convert a generic-float / f64 value to f32"""
    c = fn["crate"]
    out = []
    for n in walk(fn["body"]):
        k = n.get("k")
        if k == "MethodCall" and n["name"] == "to_f32":
            if is_wide(c.ty(peel_refs(n["recv"]).get("t"))) or is_wide(c.ty(n["recv"].get("t"))):
                out.append(n)
        elif k == "Call" and n["args"]:
            f = strip(n["f"])
            d = c.dfn(f.get("def")) if f.get("k") == "Path" else None
            if d and d["name"] == "to_f32" and is_wide(c.ty(peel_refs(n["args"][0]).get("t"))):
                out.append(n)
            elif d and d["name"] in ("from", "cast") and "f32" in (c.ty(n.get("t")) or "") and is_wide(c.ty(peel_refs(n["args"][0]).get("t"))) and "NumCast" in (d.get("path") or "") + (d.get("trait") or ""):
                out.append(n)
        elif k == "Cast" and c.ty(n.get("t")) == "f32" and c.ty(peel_refs(n["e"]).get("t")) in ("f64",):
            out.append(n)
    return out


def stored_narrowings(fn):
    """[(narrowing node, field name, literal node)]: narrowed values that end up in a struct / variant field"""
    c = fn["crate"]
    nar = narrowings(fn)
    if not nar:
        return []
    ids = set(id(x) for x in nar)
    tainted = {}            # local -> narrowing node
    changed = True
    lets = [y for y in walk(fn["body"]) if y.get("k") == "LetStmt" and y.get("init") is not None]
    rounds = 0
    while changed and rounds < 6:
        changed = False
        rounds += 1
        for y in lets:
            src = None
            for z in walk(y["init"]):
                if id(z) in ids:
                    src = z
                elif z.get("k") == "Path" and z.get("local") in tainted:
                    src = tainted[z["local"]]
            if src is not None:
                for b in pat_bindings(y["pat"]):
                    if b["local"] not in tainted:
                        tainted[b["local"]] = src
                        changed = True

    def source(e):
        for z in walk(e):
            if id(z) in ids:
                return z
            if z.get("k") == "Path" and z.get("local") in tainted:
                return tainted[z["local"]]
        return None
    out = []
    for n in walk(fn["body"]):
        if n.get("k") == "Struct" and n.get("fields") and "Error" not in ((c.dfn(n.get("def")) or {}).get("path") or ""):
            for f_ in n["fields"]:
                s_ = source(f_["e"])
                if s_ is not None and "f32" in (c.ty(peel_refs(f_["e"]).get("t")) or "f32"):
                    out.append((s_, f_["name"], n))
        elif n.get("k") == "Call":
            f = strip(n["f"])
            d = c.dfn(f.get("def")) if f.get("k") == "Path" else None
            if d and str(d.get("kind", "")).startswith("Ctor") and d.get("name") not in ("Some", "Ok", "Err") and "Error" not in (d.get("path") or ""):   # error payloads are reports, not state
                for i_, a in enumerate(n["args"]):
                    s_ = source(a)
                    if s_ is not None:
                        out.append((s_, "%s.%d" % (d.get("name"), i_), n))
    return out


ARITH_CALLS = {"sqrt", "powi", "powf", "exp", "ln", "recip", "mul_add", "hypot"}


def widened_f32_arithmetic(fn):
    """[(cast node, reason)]: `F::cast(e)` / `NumCast::from(e)` into a generic float where `e` is f32 arithmetic over values
    converted to f32 for it"""
    c = fn["crate"]
    out = []
    inits = {}
    for y in walk(fn["body"]):
        if y.get("k") == "LetStmt" and y.get("init") is not None and y["pat"].get("k") == "Bind":
            inits[y["pat"]["local"]] = y["init"]
    assigned = {}
    for y in walk(fn["body"]):
        if y.get("k") in ("Assign", "AssignOp"):
            l = peel_refs(y["l"])
            if l.get("k") == "Path" and "local" in l:
                assigned.setdefault(l["local"], []).append(y)

    def lossy(e, depth=0):
        """f32 arithmetic that involves a conversion to f32"""
        has_arith = False
        has_conv = False
        for z in walk(e):
            k = z.get("k")
            if k == "Binary" and z["op"] in ("+", "-", "*", "/") and c.ty(z.get("t")) == "f32":
                has_arith = True
            if k == "MethodCall" and z["name"] in ARITH_CALLS and c.ty(z.get("t")) == "f32":
                has_arith = True
            if k == "Cast" and c.ty(z.get("t")) == "f32" and c.ty(peel_refs(z["e"]).get("t")) != "f32":
                has_conv = True
            if k == "MethodCall" and z["name"] == "to_f32":
                has_conv = True
            if k == "Path" and z.get("local") in inits and depth < 3 and c.ty(z.get("t")) == "f32":
                a2, c2 = lossy(inits[z["local"]], depth + 1)
                has_arith = has_arith or a2
                has_conv = has_conv or c2
                for asg in assigned.get(z["local"], []):
                    if asg.get("k") == "AssignOp" or any(w.get("k") == "Binary" and c.ty(w.get("t")) == "f32" for w in walk(asg["r"])):
                        has_arith = True
        return has_arith, has_conv
    for n in walk(fn["body"]):
        if n.get("k") != "Call" or not n["args"]:
            continue
        f = strip(n["f"])
        d = c.dfn(f.get("def")) if f.get("k") == "Path" else None
        if not d or d["name"] not in ("cast", "from"):
            continue
        a = peel_refs(n["args"][0])
        if c.ty(a.get("t")) != "f32":
            continue
        ot = c.ty(n.get("t")) or ""
        inner = re.sub(r"^(std|core)::option::Option<(.*)>$", r"\2", ot)
        if not GENERIC.match(inner):
            continue
        ar, cv = lossy(a)
        if ar and cv:
            out.append((n, "f32 arithmetic over values converted to f32"))
    return out


def f32_sorted_from_wide(fn):
    return []


def make_rule(rid, scope, floor, where):
    def rule(ctx):
        res = RuleResult(rid, "in %s no generic-float / f64 value is narrowed to f32 and stored, and no f32 arithmetic over converted values is widened back into the generic float" % where)
        F = ctx.facts()
        n = 0
        for fn in F.all_fns():
            if fn.get("exp") or not scope(fn):
                continue
            n += 1
            key = fn_key(fn)
            c = fn["crate"]
            r = Render(c)
            bad = False
            seen = set()
            for src, fld, lit in stored_narrowings(fn):
                k2 = "%s : narrowed-value-stored:%s" % (key, fld)
                if k2 in seen:
                    continue
                seen.add(k2)
                bad = True
                res.instance(k2)
                res.violate(k2, "`%s` converts a generic-float value to f32 and the result is kept in field `%s`: everything computed from the field has single precision while the data it is compared with has the caller's precision (for f64 data neighbouring values collapse, bounds are rounded)" % (r.e(src)[:60], fld), fn_loc(fn, src.get("ln")))
            for node, why in widened_f32_arithmetic(fn):
                k2 = "%s : f32-arithmetic-widened" % key
                if k2 in seen:
                    continue
                seen.add(k2)
                bad = True
                res.instance(k2)
                res.violate(k2, "`%s` widens %s into the generic float type: for f64 the value carries f32 rounding (relative error about 6e-8)" % (r.e(node)[:70], why), fn_loc(fn, node.get("ln")))
            if not bad:
                res.instance(key)
                res.ok()
        return res.finish(floor)
    rule.__name__ = "rule_precision"
    return rule
