"""C18 — PCA: input guards dominate the decomposition; the variance divisor derives from the training sample count."""
from .core import RuleResult
from .facts import fn_key, fn_loc, walk, strip, peel_refs, Render
from .sym import Tracer, Term, Cmp, k, as_term, walk_terms

LEVEL = ("Static analysis of linfa-reduction's PCA: (guard) the empty-dataset test and the embedding-size tests (size outside "
         "1..p) return their errors before the first reduction or decomposition of the records; (n) the divisor that turns "
         "squared singular values into explained variances is data-dependent on the training sample count recorded at fit "
         "time (sigma^2/(n-1)), not on the number of components. Necessary conditions of 'an empty dataset or an embedding "
         "size outside 1..p is an error' and 'reported explained variances are singular value squared over n-1'; spectral "
         "optimality and orthonormality are not decided.")
ASSUME = ["rustc resolution/typeck; HIR faithfully dumped", "feature=blas branch is not compiled offline and is not analysed"]

SAMPLE_WORDS = ("call:nsamples(", "call:nrows(", "call:len_of(")


def pca_fit(res, F):
    fns = [f for f in F.find_fns(name="fit", krate="linfa_reduction", trait="Fit") if (f["d"].get("self_adt") or "").endswith("PcaParams")]
    if not fns:
        res.missing_anchor("<PcaParams as Fit>::fit")
    return fns


def rule_guard(ctx):
    res = RuleResult("R-C18-guard", "empty-dataset and embedding-size tests return errors before the records are reduced or decomposed")
    F = ctx.facts()
    for fn in pca_fit(res, F):
        key = fn_key(fn)
        tr = Tracer(fn).run()
        work = [e for e in tr.events if e.kind == "call" and e.name in ("mean_axis", "decompose", "new_with_rng", "new", "sub", "svd", "dot") and e.closure_depth == 0 and (e.recv is None or "param:dataset" in k(e.recv) or e.name in ("decompose",))]
        work = [e for e in work if e.name != "new" or "TruncatedSvd" in (e.d or {}).get("path", "")]
        if not work:
            res.missing_anchor("decomposition calls in PcaParams::fit")
            continue
        first = min(e.order for e in work)
        rets = [e for e in tr.events if e.kind == "ret" and e.order < first and as_term(e.val) is not None and as_term(e.val).is_call("Err")]

        def guarded_by(pred):
            for e in rets:
                for g in e.guards:
                    for t in walk_terms(g[3]):
                        if isinstance(t, Cmp):
                            v = pred(t, g[0])
                            if v:
                                return v
            return None
        checks = [
            ("empty dataset", lambda t, s: s == "+" and t.cop == "==" and any("call:nsamples(" in a or "call:nrows(" in a for a in t.poly.atoms()) and t.poly.t.get((), 0) == 0),
            ("embedding_size == 0", lambda t, s: s in ("+",) and t.cop == "==" and any("embedding_size" in a for a in t.poly.atoms()) and len(t.poly.atoms()) == 1 and t.poly.t.get((), 0) == 0),
            ("embedding_size > nfeatures", lambda t, s: t.asserts_less(lambda a: "call:nfeatures(" in a or "call:ncols(" in a, lambda b: "embedding_size" in b) == "strict"),
        ]
        for name, pred in checks:
            res.instance("%s : %s -> Err before decomposition" % (key, name))
            if guarded_by(pred):
                res.ok()
                res.sample({"fn": key, "guard": name})
            else:
                res.violate("%s : guard-missing:%s" % (key, name), "no `%s -> return Err(..)` test dominates the decomposition" % name, fn_loc(fn))
    return res.finish(3)


def rule_n(ctx):
    res = RuleResult("R-C18-n", "the divisor of explained_variance[_ratio] derives from the training sample count recorded at fit time")
    F = ctx.facts()
    fits = pca_fit(res, F)
    # fields of Pca set from the sample count in fit
    count_fields = set()
    for fn in fits:
        c = fn["crate"]
        tr = Tracer(fn).run()
        for e in tr.events:
            if e.kind == "struct" and e.adt.endswith("Pca"):
                for fname, v in e.fields.items():
                    kv = k(v)
                    if any(w in kv for w in SAMPLE_WORDS) and "param:dataset" in kv and "call:mean_axis" not in kv:
                        count_fields.add(fname)
    res.info.append("Pca fields recording the training sample count: %s" % (sorted(count_fields) or "none"))
    fns = [f for f in F.all_fns() if f["d"]["krate"] == "linfa_reduction" and (f["d"].get("self_adt") or "").endswith("Pca") and f["d"]["name"].startswith("explained_variance")]
    if len(fns) < 2:
        res.missing_anchor("Pca::explained_variance / explained_variance_ratio")
    for fn in fns:
        c = fn["crate"]
        r = Render(c)
        key = fn_key(fn)
        divs = []
        for n in walk(fn["body"]):
            if n.get("k") == "Binary" and n["op"] == "/":
                num = strip(n["l"])
                if num.get("k") == "Binary" and num["op"] == "*":   # x * x / D
                    divs.append(n)
        if not divs and fn["d"]["name"].endswith("_ratio"):
            # scale-free form: squared singular values normalised by their own sum
            tr = Tracer(fn).run()
            rv = as_term(tr.result)
            inst = "%s : sigma^2 / sum(sigma^2)" % key
            res.instance(inst)
            if rv is not None and rv.op == "bin:/" and as_term(rv.args[1]) is not None and as_term(rv.args[1]).is_call("sum") and k(as_term(rv.args[1]).args[0]) == k(rv.args[0]):
                res.ok()
                res.sample({"site": inst, "form": "normalised by its own sum (any common divisor cancels)"})
            else:
                res.violate("%s : ratio-form" % key, "ratio is neither sigma^2/(n-1) normalised nor sigma^2 normalised by its own sum: %s" % k(rv)[:100], fn_loc(fn))
            continue
        if not divs:
            res.violate("%s : no-variance-division" % key, "no `sigma^2 / divisor` expression found (fail closed)", fn_loc(fn))
            continue
        for n in divs:
            d = n["r"]
            fields = set()
            lens = set()
            for x in walk(d):
                if x.get("k") == "Field" and peel_refs(x["e"]).get("name") == "self":
                    fields.add(x["name"])
                if x.get("k") == "MethodCall" and x["name"] in ("len", "nrows", "ncols", "len_of", "dim"):
                    b = peel_refs(x["recv"])
                    if b.get("k") == "Field":
                        lens.add(b["name"])
            inst = "%s : sigma^2 / (%s)" % (key, r.e(d)[:60])
            res.instance(inst)
            if fields & count_fields and not (lens & (fields - count_fields)):
                res.ok()
                res.sample({"site": inst, "sample_count_field": sorted(fields & count_fields)})
            else:
                res.violate("%s : variance-divisor" % key,
                            "explained variance divides sigma^2 by `%s`, which depends on %s and on no recorded training sample count: the property requires sigma^2/(n-1)" % (
                                r.e(d)[:60], ("the length of `%s` (the number of components)" % ",".join(sorted(lens))) if lens else "fields %s" % sorted(fields)), fn_loc(fn, n["ln"]))
    return res.finish(2)


def rules(tier):
    return [rule_guard, rule_n]
