"""C18 — PCA: input guards dominate the decomposition; the variance divisor derives from the training sample count."""
from . import layout
from . import c01
from . import inplace
from .core import RuleResult
from .facts import fn_file, fn_key, fn_loc, walk, strip, peel_refs, Render, pat_bindings
from .sym import Tracer, Term, Cmp, k, as_term, walk_terms

LEVEL = ("Static analysis of linfa-reduction's PCA: (guard) the empty-dataset test and the embedding-size tests (size outside "
         "1..p) return their errors before the first reduction or decomposition of the records; (n) the divisor that turns "
         "squared singular values into explained variances is data-dependent on the training sample count recorded at fit "
         "time (sigma^2/(n-1)), not on the number of components; (project) predict is (x - mean).components^T and inverse_transform composed with it "
         "normalises (non-commutative normal form over dot/+/-/t) to x.E^T.E - m.E^T.E + m, the projection about the mean. Necessary conditions of 'an empty dataset or an embedding "
         "size outside 1..p is an error' and 'reported explained variances are singular value squared over n-1'; spectral "
         "optimality and orthonormality are not decided.")
ASSUME = ["rustc resolution/typeck; HIR faithfully dumped", "feature=blas branch is not compiled offline and is not analysed"]

SAMPLE_WORDS = ("call:nsamples(", "call:nrows(", "call:len_of(")


def pca_fit(res, F):
    fns = [f for f in F.find_fns(name="fit", krate="linfa_reduction", trait="Fit") if (f["d"].get("self_adt") or "").endswith("PcaParams")]
    if not fns:
        res.missing_anchor("<PcaParams as Fit>::fit")
    return fns


def rule_guard(ctx):
    from .sym import rejecting_exits, sufficient_cmps, int_test
    res = RuleResult("R-C18-guard", "empty-dataset and embedding-size tests return errors before the records are reduced or decomposed")
    F = ctx.facts()
    for fn in pca_fit(res, F):
        key = fn_key(fn)
        tr = Tracer(fn, inline=ctx.inliner()).run()
        work = [e for e in tr.events if e.kind == "call" and e.name in ("mean_axis", "decompose", "new_with_rng", "new", "sub", "svd", "dot") and e.closure_depth == 0 and (e.recv is None or "param:dataset" in k(e.recv) or e.name in ("decompose",))]
        work = [e for e in work if e.name != "new" or "TruncatedSvd" in (e.d or {}).get("path", "")]
        if not work:
            res.missing_anchor("decomposition calls in PcaParams::fit")
            continue
        first = min(e.order for e in work)
        exits = rejecting_exits(tr, first)
        is_n = lambda a: "call:nsamples(" in a or "call:nrows(" in a or "call:len_of(" in a
        is_k = lambda a: "embedding_size" in a
        is_p = lambda a: "call:nfeatures(" in a or "call:ncols(" in a
        explained = set()

        def rejects(pred):
            hit = False
            for e in exits:
                for g in e.guards[-1:]:
                    for c, holds in sufficient_cmps(g[3], g[0] == "+"):
                        if pred(c, holds):
                            explained.add(id(e))
                            hit = True
            return hit
        checks = [
            ("empty dataset", lambda c, h: int_test(c, h, is_n) == {0}),
            ("embedding_size == 0", lambda c, h: int_test(c, h, is_k) == {0}),
            ("embedding_size > nfeatures", lambda c, h: (c.relation(is_p, is_k) in ("<",) and h) or (c.relation(is_p, is_k) in (">=",) and not h)),
        ]
        results = [(name, rejects(pred)) for name, pred in checks]
        unexplained = [e for e in exits if id(e) not in explained]
        for name, ok in results:
            res.instance("%s : %s -> Err before decomposition" % (key, name))
            if ok:
                res.ok()
                res.sample({"fn": key, "guard": name})
            elif unexplained:
                res.undecided("%s : guard-unclassified:%s" % (key, name), "no `%s -> Err` test recognised before the decomposition, but %d rejecting exit(s) with conditions this rule does not understand precede it (e.g. `%s`)" % (name, len(unexplained), unexplained[0].guards[-1][1][:80]), fn_loc(fn, unexplained[0].node.get("ln")))
            else:
                res.violate("%s : guard-missing:%s" % (key, name), "no `%s -> return Err(..)` test dominates the decomposition" % name, fn_loc(fn))
    return res.finish(3)


def rule_n(ctx):
    res = RuleResult("R-C18-n", "the divisor of explained_variance[_ratio] derives from the training sample count recorded at fit time")
    F = ctx.facts()
    fits = pca_fit(res, F)
    # fields of Pca set from the sample count in fit
    count_fields = set()
    for fn in fits:
        c = fn["crate"]
        tr = Tracer(fn).run()
        for e in tr.events:
            if e.kind == "struct" and e.adt.endswith("Pca"):
                for fname, v in e.fields.items():
                    kv = k(v)
                    if any(w in kv for w in SAMPLE_WORDS) and "param:dataset" in kv and "call:mean_axis" not in kv:
                        count_fields.add(fname)
    res.info.append("Pca fields recording the training sample count: %s" % (sorted(count_fields) or "none"))
    fns = [f for f in F.all_fns() if f["d"]["krate"] == "linfa_reduction" and (f["d"].get("self_adt") or "").endswith("Pca") and f["d"]["name"].startswith("explained_variance")]
    if len(fns) < 2:
        res.missing_anchor("Pca::explained_variance / explained_variance_ratio")
    bad_divisor_fns = {}
    for fn in sorted(fns, key=lambda f: f["d"]["name"].endswith("_ratio")):
        c = fn["crate"]
        r = Render(c)
        key = fn_key(fn)
        divs = []
        for n in walk(fn["body"]):
            if n.get("k") == "Binary" and n["op"] == "/":
                num = strip(n["l"])
                if num.get("k") == "Binary" and num["op"] == "*":   # x * x / D
                    divs.append(n)
        if not divs and fn["d"]["name"].endswith("_ratio"):
            # scale-free form: squared singular values normalised by their own sum
            tr = Tracer(fn).run()
            rv = as_term(tr.result)
            inst = "%s : sigma^2 / sum(sigma^2)" % key
            res.instance(inst)
            inherited = [nm for nm in bad_divisor_fns if rv is not None and ("call:%s(" % nm) in k(rv)]
            if inherited:
                res.violate("%s : variance-divisor-inherited" % key, "the ratio is computed from `%s()`, whose divisor (%s) vanishes for a single component: the ratio is then inf/inf = NaN instead of 1" % (inherited[0], bad_divisor_fns[inherited[0]]), fn_loc(fn))
            elif rv is not None and rv.op == "bin:/" and as_term(rv.args[1]) is not None and as_term(rv.args[1]).is_call("sum") and k(as_term(rv.args[1]).args[0]) == k(rv.args[0]):
                res.ok()
                res.sample({"site": inst, "form": "normalised by its own sum (any common divisor cancels)"})
            else:
                res.undecided("%s : ratio-form" % key, "ratio is neither sigma^2/(n-1) normalised nor sigma^2 normalised by its own sum: %s" % k(rv)[:100], fn_loc(fn))
            continue
        if not divs:
            res.undecided("%s : no-variance-division" % key, "no `sigma^2 / divisor` expression found (fail closed)", fn_loc(fn))
            continue
        for n in divs:
            d = n["r"]
            fields = set()
            lens = set()
            for x in walk(d):
                if x.get("k") == "Field" and peel_refs(x["e"]).get("name") == "self":
                    fields.add(x["name"])
                if x.get("k") == "MethodCall" and x["name"] in ("len", "nrows", "ncols", "len_of", "dim"):
                    b = peel_refs(x["recv"])
                    if b.get("k") == "Field":
                        lens.add(b["name"])
            inst = "%s : sigma^2 / (%s)" % (key, r.e(d)[:60])
            res.instance(inst)
            if fields & count_fields and not (lens & (fields - count_fields)):
                res.ok()
                res.sample({"site": inst, "sample_count_field": sorted(fields & count_fields)})
            else:
                bad_divisor_fns[fn["d"]["name"]] = r.e(d)[:40]
                res.violate("%s : variance-divisor" % key,
                            "explained variance divides sigma^2 by `%s`, which depends on %s and on no recorded training sample count: the property requires sigma^2/(n-1)" % (
                                r.e(d)[:60], ("the length of `%s` (the number of components)" % ",".join(sorted(lens))) if lens else "fields %s" % sorted(fields)), fn_loc(fn, n["ln"]))
    return res.finish(2)


def rule_whitenscale(ctx):
    """Whitening rescales the components by sqrt(n - 1) / sigma, where sigma are the singular values of the centred record
    matrix: sigma^2 / (n - 1) is the variance along a component for the n *rows* that went into the decomposition.  Mean
    and decomposition are unweighted, so the n of the scale is the row count as well - a scale computed from the sample
    weights belongs to another covariance than the one that was decomposed."""
    res = RuleResult("R-C18-whitenscale", "the whitening scale of Pca::fit is computed from the row count of the decomposed matrix, not from the sample weights")
    F = ctx.facts()
    for fn in pca_fit(res, F):
        c = fn["crate"]
        r = Render(c)
        key = fn_key(fn)
        res.instance(key)
        inits = {}
        for y in walk(fn["body"]):
            if y.get("k") == "LetStmt" and y.get("init") is not None and y["pat"].get("k") == "Bind":
                inits[y["pat"]["local"]] = y["init"]
        wh = next((y for y in walk(fn["body"]) if y.get("k") == "If" and any(z.get("k") == "Field" and z["name"] == "apply_whitening" for z in walk(y["c"]))), None)
        if wh is None:
            res.undecided("%s : whitening-branch" % key, "no `if self.apply_whitening` (fail closed)", fn_loc(fn))
            continue
        # no model leaves the fit before the whitening branch: a special case that returns early (a single feature, say)
        # silently ignores `whiten(true)`
        early = None
        for y in walk(fn["body"]):
            if y.get("k") == "Ret" and y.get("e") is not None and (y.get("ln") or 0) < (wh.get("ln") or 0) and any(z.get("k") == "Struct" for z in walk(y["e"])):
                early = y
        if early is not None:
            # a special case that looks at the whitening switch itself (scales its own components, or is only taken without
            # whitening) does not ignore the request
            from .layout import with_parents as _wp
            for y, anc in _wp(fn["body"]):
                if y is early:
                    guards = [a for a in anc if a.get("k") == "If"]
                    if any(z.get("k") == "Field" and z["name"] == "apply_whitening" for g_ in guards for z in walk(g_)):
                        early = None
        if early is not None:
            res.violate("%s : model-returned-before-whitening" % key, "`%s` builds and returns the model before the `if self.apply_whitening` block: on that path a whitening request is ignored and the projected training data does not have unit variance" % r.e(early)[:50], fn_loc(fn, early.get("ln")))
            continue
        seen, calls, stack = set(), [], [wh["then"]]
        while stack:
            e = stack.pop()
            for y in walk(e):
                if y.get("k") == "MethodCall":
                    calls.append(y)
                if y.get("k") == "Path" and y.get("local") in inits and y["local"] not in seen:
                    seen.add(y["local"])
                    stack.append(inits[y["local"]])
        names = [y["name"] for y in calls]
        w = next((y for y in calls if y["name"] in ("weights", "weight_for", "weight_iter")), None)
        if w is not None:
            res.violate("%s : whitening-scale-from-weights" % key, "the whitening scale reads `%s`: mean and singular values are those of the unweighted rows, so sqrt(sum(w) - 1) / sigma does not give unit variance (and is NaN for sum(w) < 1) as soon as the weights do not sum to the row count" % r.e(w)[:40], fn_loc(fn, w.get("ln")))
        elif any(nm in ("nsamples", "nrows", "len_of") for nm in names):
            res.ok()
        else:
            res.undecided("%s : scale-source" % key, "the whitening branch reads neither the row count nor the weights (fail closed)", fn_loc(fn, wh.get("ln")))
    return res.finish(1)


def rule_ratiosquares(ctx):
    """explained_variance_ratio normalises *variances*: squared singular values.  The singular values themselves, normalised,
    are also positive, sorted and sum to one - and equal to the right answer exactly when all singular values are equal."""
    res = RuleResult("R-C18-ratiosquares", "the numerator of explained_variance_ratio is a squared singular value")
    F = ctx.facts()
    fns = [f for f in F.all_fns() if f["d"]["krate"] == "linfa_reduction" and (f["d"].get("self_adt") or "").endswith("Pca") and f["d"]["name"] == "explained_variance_ratio"]
    if not fns:
        res.missing_anchor("Pca::explained_variance_ratio")
    for fn in fns:
        c = fn["crate"]
        r = Render(c)
        key = fn_key(fn)
        res.instance(key)
        inits = {}
        for y in walk(fn["body"]):
            if y.get("k") == "LetStmt" and y.get("init") is not None and y["pat"].get("k") == "Bind":
                inits[y["pat"]["local"]] = y["init"]
        tail = fn["body"]
        while strip(tail).get("k") == "Block" and strip(tail).get("e") is not None:
            tail = strip(tail)["e"]
        tail = peel_refs(tail)
        if tail.get("k") != "Binary" or tail["op"] != "/":
            res.undecided("%s : form" % key, "the result is not a quotient (fail closed): `%s`" % r.e(tail)[:40], fn_loc(fn))
            continue

        def squared(e, depth=0):
            for y in walk(e):
                if y.get("k") == "Binary" and y["op"] == "*":
                    a, b = peel_refs(y["l"]), peel_refs(y["r"])
                    if r.e(a) == r.e(b):
                        return True
                if y.get("k") == "MethodCall" and y["name"] in ("powi", "powf", "pow") and y["args"] and str(peel_refs(y["args"][0]).get("v", "")).replace("_", "").replace("i32", "").replace("f64", "") in ("2", "2.0", "2."):
                    return True
                if y.get("k") == "MethodCall" and y["name"] in ("explained_variance", "squared_singular_values"):
                    return True
                if y.get("k") == "Path" and y.get("local") in inits and depth < 4 and squared(inits[y["local"]], depth + 1):
                    return True
            return False

        def mentions_sigma(e, depth=0):
            for y in walk(e):
                if (y.get("k") == "Field" and y["name"] == "sigma") or (y.get("k") == "MethodCall" and y["name"] == "singular_values"):
                    return True
                if y.get("k") == "Path" and y.get("local") in inits and depth < 4 and mentions_sigma(inits[y["local"]], depth + 1):
                    return True
            return False
        if squared(tail["l"]):
            res.ok()
        elif mentions_sigma(tail["l"]):
            res.violate("%s : ratio-of-unsquared-singular-values" % key, "`%s`: the singular values are normalised without being squared - a ratio of standard deviations, not of variances; it differs from the explained variance ratio as soon as the singular values differ" % r.e(tail)[:50], fn_loc(fn, tail.get("ln")))
        else:
            res.undecided("%s : numerator" % key, "`%s` (fail closed)" % r.e(tail["l"])[:40], fn_loc(fn, tail.get("ln")))
    return res.finish(1)


def rule_centreonce(ctx):
    """predict / predict_inplace subtract the stored mean before projecting.  A caller inside the type that has subtracted
    the mean itself and then delegates to them centres twice: scores shifted by -mean . components^T."""
    res = RuleResult("R-C18-centreonce", "no method of Pca subtracts the mean from data it then hands to predict / predict_inplace / transform (which centre themselves)")
    F = ctx.facts()
    fns = [f for f in F.all_fns() if f["d"]["krate"] == "linfa_reduction" and (f["d"].get("self_adt") or "").endswith("Pca") and not f.get("exp") and f["d"]["name"] in ("transform", "predict", "predict_inplace", "inverse_transform")]
    if len(fns) < 2:
        res.missing_anchor("predict_inplace / transform of Pca (found %d)" % len(fns))
    for fn in fns:
        c = fn["crate"]
        r = Render(c)
        key = fn_key(fn) + " [" + (fn["inputs"][1][:30] if len(fn["inputs"]) > 1 else "") + "]"
        res.instance(key)

        def mean_of_self(e):
            return any(z.get("k") == "Field" and z["name"] == "mean" and peel_refs(z["e"]).get("name") == "self" for z in walk(e))
        centred = {}
        for y in walk(fn["body"]):
            if y.get("k") == "AssignOp" and y["op"] == "-" and mean_of_self(y["r"]):
                b = peel_refs(y["l"])
                if b.get("k") == "Path" and "local" in b:
                    centred[b["local"]] = y
            if y.get("k") == "MethodCall" and y["name"] in ("sub_assign", "zip_mut_with", "scaled_add") and any(mean_of_self(a) for a in y["args"]):
                b = peel_refs(y["recv"])
                if b.get("k") == "Path" and "local" in b:
                    centred[b["local"]] = y
            if y.get("k") == "LetStmt" and y.get("init") is not None and y["pat"].get("k") == "Bind":
                i0 = peel_refs(y["init"])
                if i0.get("k") == "Binary" and i0["op"] == "-" and mean_of_self(i0["r"]):
                    centred[y["pat"]["local"]] = y
        bad = None
        for y in walk(fn["body"]):
            if y.get("k") == "MethodCall" and y["name"] in ("predict", "predict_inplace", "transform") and peel_refs(y["recv"]).get("name") == "self":
                for a in y["args"]:
                    for z in walk(a):
                        if z.get("k") == "Path" and z.get("local") in centred:
                            bad = (y, centred[z["local"]])
        if bad:
            res.violate("%s : centred-twice" % key, "`%s` subtracts the stored mean, then `%s` is called on the result and subtracts it again: every score is shifted by -mean . components^T" % (r.e(bad[1])[:40], r.e(bad[0])[:40]), fn_loc(fn, bad[0].get("ln")))
        else:
            res.ok()
    return res.finish(2)


def rule_project(ctx):
    """'Transform followed by inverse transform is the orthogonal projection onto the component subspace about the mean':
    with E the stored components and m the stored mean, inverse_transform(predict(x)) must be the affine map
    x.E^T.E - m.E^T.E + m. Both bodies are brought into the non-commutative normal form of rules/linalg.py and composed."""
    from .linalg import Eval, NF, Unclassified, canon
    from fractions import Fraction
    res = RuleResult("R-C18-project", "inverse_transform o predict is, as an algebraic expression, the projection about the mean: x.E^T.E - m.E^T.E + m")
    F = ctx.facts()
    preds = [f for f in F.find_fns(name="predict_inplace", krate="linfa_reduction", trait="PredictInplace") if (f["d"].get("self_adt") or "").endswith("Pca")]
    invs = [f for f in F.find_fns(name="inverse_transform", krate="linfa_reduction") if (f["d"].get("self_adt") or "").endswith("Pca")]
    if not preds:
        res.missing_anchor("<Pca as PredictInplace>::predict_inplace")
    if not invs:
        res.missing_anchor("Pca::inverse_transform")
    if not preds or not invs:
        return res.finish(2)
    pf, vf = preds[0], invs[0]
    try:
        pe = Eval(pf)
        pe.run()
        outs = list(pe.out.items())
        if len(outs) != 1:
            raise Unclassified("predict_inplace does not assign its output parameter exactly once")
        pnf = outs[0][1]
        ve = Eval(vf)
        vnf = ve.run()
        if vnf is None:
            raise Unclassified("inverse_transform has no value")
    except Unclassified as e:
        res.instance("Pca predict / inverse_transform : normal form")
        res.undecided("linfa_reduction::Pca : projection-unclassified", "cannot bring predict_inplace / inverse_transform into the dot/+/-/t normal form (fail closed): %s" % e.msg, fn_loc(pf if 'vnf' not in dir() else vf, e.ln))
        return res.finish(2)
    vectors = pe.vectors | ve.vectors
    renorm = lambda nf: NF(dict((canon(ch, vectors), v) for ch, v in nf.t.items())) if len(set(canon(ch, vectors) for ch in nf.t)) == len(nf.t) else nf
    pnf, vnf = renorm(pnf), renorm(vnf)
    xname = [b for b in (p_["name"] for p_ in pf["params"] if p_.get("k") == "Bind") if b != "self"][0]
    zname = [b for b in (p_["name"] for p_ in vf["params"] if p_.get("k") == "Bind") if b != "self"][0]
    fields = set(n for ch in list(pnf.t) + list(vnf.t) for n, f in ch if n.startswith("self."))
    mats = sorted(f for f in fields if f not in vectors)
    vecs = sorted(f for f in fields if f in vectors)
    res.instance("%s : *targets = %s" % (fn_key(pf), pnf.show()))
    res.instance("%s : returns %s" % (fn_key(vf), vnf.show()))
    if len(mats) != 1 or len(vecs) != 1:
        res.undecided("linfa_reduction::Pca : projection-fields", "expected exactly one matrix field (components) and one vector field (mean) in predict/inverse_transform, found %s / %s" % (mats, vecs), fn_loc(pf))
        res.undecided("linfa_reduction::Pca : projection-fields#2", "see above", fn_loc(vf))
        return res.finish(2)
    E, m = mats[0], vecs[0]
    one = Fraction(1)
    want_pred = NF({((xname, False), (E, True)): one, ((m, False), (E, True)): -one})
    if pnf == want_pred:
        res.ok()
    else:
        res.violate("%s : not-centred-projection" % fn_key(pf), "predict computes `%s`, not `(x - mean) . components^T` = `%s`" % (pnf.show(), want_pred.show()), fn_loc(pf))
    comp = vnf.subst(zname, pnf, vectors)
    want = NF({((xname, False), (E, True), (E, False)): one, ((m, False), (E, True), (E, False)): -one, ((m, False),): one})
    res.sample({"predict": pnf.show(), "inverse_transform": vnf.show(), "composition": comp.show(), "required": want.show()})
    if comp == want:
        res.ok()
    else:
        res.violate("%s : not-projection-about-mean" % fn_key(vf), "inverse_transform(predict(x)) is `%s`; the projection onto the component subspace about the mean is `%s`" % (comp.show(), want.show()), fn_loc(vf))
    return res.finish(2)


rule_memorder = layout.make_rule("R-C18-memorder", "raw memory-order buffers (as_slice_memory_order, into_raw_vec, as_ptr) of record matrices are used by position only behind an is_standard_layout() test", lambda f: (f["d"]["krate"] == "linfa_reduction" and "pca" in fn_file(f)) or (f["d"]["krate"] == "linfa" and fn_file(f).endswith("lapack_bounds.rs")), "linfa-reduction pca and the linfa::dataset lapack adapters it calls")

def rule_ratio_paths(ctx):
    """explained_variance_ratio is sigma^2 / sum(sigma^2) on every path: a path that returns a constant array (zeros under
    an absolute-epsilon test of the sum, say) reports ratios that are not proportional to the explained variances and do
    not sum to one - and squared singular values of data in a small unit are far below any absolute epsilon."""
    from .c12 import value_paths, ingredients
    res = RuleResult("R-C18-ratiopaths", "every value path of Pca::explained_variance_ratio is computed from the singular values")
    F = ctx.facts()
    fns = [f for f in F.all_fns() if f["d"]["krate"] == "linfa_reduction" and f["d"]["name"] == "explained_variance_ratio" and (f["d"].get("self_adt") or "").endswith("Pca")]
    if not fns:
        res.missing_anchor("Pca::explained_variance_ratio")
    for fn in fns:
        key = fn_key(fn)
        paths = value_paths(fn)
        res.instance("%s : %d value paths" % (key, len(paths)))
        verdict = None
        for e, guards in paths:
            ing = ingredients(fn, e)
            if "self.sigma" in ing or any(x.startswith("?") for x in ing):
                continue
            # a value obtained from another method of the model (`self.squared_singular_values()`) is not a constant
            helpers = [x[5:] for x in ing if x.startswith("call:")]
            via = False
            for h in helpers:
                for g in F.all_fns():
                    if g["d"]["krate"] == "linfa_reduction" and g["d"]["name"] == h and (g["d"].get("self_adt") or "").endswith("Pca") and g is not fn:
                        if any(y.get("k") == "Field" and y["name"] == "sigma" for y in walk(g["body"])):
                            via = True
            if via:
                continue
            exact = False
            for cnd, pol in guards[-1:]:
                c0 = strip(cnd)
                if c0.get("k") == "Binary" and c0["op"] == "==":
                    for side in (c0["l"], c0["r"]):
                        t = peel_refs(side)
                        if t.get("k") == "Lit" and t.get("v", "").strip("0._f3264") == "":
                            exact = True
            verdict = ("undecided" if exact else "violation", e)
            if not exact:
                break
        if verdict is None:
            res.ok()
        elif verdict[0] == "violation":
            res.violate("%s : constant-ratio-path" % key, "a value path of explained_variance_ratio (`%s`) is not computed from the singular values: the reported ratios are then not proportional to the explained variances (and do not sum to one)" % Render(fn["crate"]).e(verdict[1])[:50], fn_loc(fn, verdict[1].get("ln")))
        else:
            res.undecided("%s : constant-path-under-zero-test" % key, "a constant path guarded by an exact-zero test of the sum", fn_loc(fn, verdict[1].get("ln")))
    return res.finish(1)


def rule_overwrite(ctx):
    """Pca::predict_inplace overwrites the caller's buffer: the projection does not depend on what the buffer held"""
    res = RuleResult("R-C18-overwrite", "Pca::predict_inplace writes the projection into the target without reading or accumulating into its previous content")
    F = ctx.facts()
    ck = inplace.Checker(F)
    fns = [f for f in F.all_fns() if f["d"]["krate"] == "linfa_reduction" and f["d"]["name"] == "predict_inplace" and (f["d"].get("self_adt") or "").endswith("Pca")]
    if not fns:
        res.missing_anchor("Pca::predict_inplace")
    for fn in fns:
        key = fn_key(fn)
        ps = fn["params"]
        if len(ps) < 3 or ps[2].get("k") != "Bind":
            res.instance(key)
            res.undecided("%s : target-parameter" % key, "third parameter of predict_inplace is not a plain binding", fn_loc(fn))
            continue
        vs = ck.check(fn, ps[2]["local"])
        res.instance("%s : %d uses of the target classified (%s)" % (key, len(vs), ", ".join(sorted(set(v.kind for v in vs)))))
        bad = [v for v in vs if v.verdict != "ok"]
        if not vs:
            res.undecided("%s : no-write" % key, "no write to the target recognised", fn_loc(fn))
        elif not bad:
            res.ok()
        for v in bad:
            if v.verdict == "violation":
                res.violate("%s : %s" % (key, v.kind), v.msg, fn_loc(fn, v.ln))
            else:
                res.undecided("%s : %s" % (key, v.kind), v.msg, fn_loc(fn, v.ln))
    return res.finish(1)


def rule_samesigma(ctx):
    """With whitening the embedding is divided by the singular values, and the model stores singular values next to it:
    explained variances, ratios and the whitened covariance are statements about one and the same spectrum.  If the value
    stored in the `sigma` field is not the one the embedding was divided by (rescaled, re-floored or recomputed in between),
    the whitened projection has the covariance (stored / used)^2 instead of the identity."""
    res = RuleResult("R-C18-samesigma", "the singular values that scale the whitened embedding in PcaParams::fit are the ones stored in the model")
    F = ctx.facts()
    n = 0
    for fn in F.all_fns():
        d = fn["d"]
        if d["krate"] != "linfa_reduction" or d["name"] != "fit" or "pca" not in fn_file(fn) or fn.get("exp"):
            continue
        c = fn["crate"]
        lit = next((y for y in walk(fn["body"]) if y.get("k") == "Struct" and (c.dfn(y.get("def")) or {}).get("path", "").endswith("Pca")), None)
        if lit is None:
            continue
        n += 1
        key = fn_key(fn)
        res.instance("%s : sigma stored / sigma dividing the embedding" % key)
        stored = next((peel_refs(f_["e"]) for f_ in lit.get("fields") or [] if f_["name"] == "sigma"), None)
        used = set()
        for y in walk(fn["body"]):
            # `v_t *= cov_scale / *sigma` over `zip(sigma.iter())`, or a division by the spectrum array
            if y.get("k") == "MethodCall" and y["name"] == "zip":
                for a in y["args"]:
                    a0 = peel_refs(a)
                    while a0.get("k") == "MethodCall" and a0["name"] in ("iter", "into_iter", "view", "iter_mut"):
                        a0 = peel_refs(a0["recv"])
                    if a0.get("k") == "Path" and "local" in a0 and "Dim<[usize; 1]>" in (c.ty(a0.get("at", a0.get("t"))) or ""):
                        used.add(a0["local"])
        if stored is None or stored.get("k") != "Path" or "local" not in stored or not used:
            res.undecided("%s : sigma-sites" % key, "the stored `sigma` or the spectrum that divides the embedding was not found as a plain local (fail closed)", fn_loc(fn))
        elif stored["local"] in used:
            res.ok()
        else:
            res.violate("%s : whitening-uses-another-sigma-than-stored" % key, "the embedding is divided by one binding of the singular values and the model stores another (`%s`, rebound in between): with whitening the projected data has the covariance (stored / used)^2, not the identity, and the explained variances describe another spectrum than the one that scaled the components" % stored.get("name"), fn_loc(fn, lit.get("ln")))
    if n < 1:
        res.missing_anchor("PcaParams::fit building a Pca")
    return res.finish(1)


def rule_siblingfields(ctx):
    """`Pca::transform` (a dataset in, a dataset out) and `Pca::predict_inplace` are two calling forms of one map.  Whatever
    part of the fitted model the one reads - the mean, the axes, a whitening scale - the other has to read too (directly or
    through the functions it calls): a form that never reaches a field the other uses computes another map (whitening that
    reaches `predict` but not `transform`)."""
    res = RuleResult("R-C18-siblingfields", "the two calling forms of the PCA projection (predict_inplace, Transformer::transform) reach reads of the same fields of the model")
    F = ctx.facts()
    fns = [f for f in F.all_fns() if f["d"]["krate"] == "linfa_reduction" and "pca" in fn_file(f) and not f.get("exp") and (f["d"].get("self_adt") or "").endswith("Pca")]
    by_def = {f["def"]: f for f in fns}

    def direct(f):
        sl = next((b["local"] for p_ in f["params"] for b in pat_bindings(p_) if b["name"] == "self"), None)
        return set(x["name"] for x in walk(f["body"]) if x.get("k") == "Field" and sl is not None and peel_refs(x["e"]).get("local") == sl)

    def reach(f):
        seen, todo, reads = set(), [f], set()
        while todo:
            g = todo.pop()
            if id(g) in seen:
                continue
            seen.add(id(g))
            reads |= direct(g)
            for x in walk(g["body"]):
                di = None
                if x.get("k") == "MethodCall":
                    di = [x.get("inst"), x.get("def")]
                elif x.get("k") == "Call" and strip(x["f"]).get("k") == "Path":
                    di = [strip(x["f"]).get("inst"), strip(x["f"]).get("def")]
                for d_ in di or []:
                    if d_ in by_def:
                        todo.append(by_def[d_])
                # a trait method called on self (`self.predict_inplace(..)`, `self.predict(..)`): every impl on Pca of that name
                if x.get("k") == "MethodCall" and peel_refs(x["recv"]).get("name") == "self":
                    todo.extend(h for h in fns if h["d"]["name"] == x["name"] or (x["name"] == "predict" and h["d"]["name"] == "predict_inplace"))
        return reads
    pred = [f for f in fns if f["d"]["name"] == "predict_inplace"]
    trans = [f for f in fns if f["d"]["name"] == "transform" and (f["d"].get("trait") or "").endswith("Transformer")]
    if not pred or not trans:
        res.missing_anchor("Pca::predict_inplace and <Pca as Transformer>::transform (found %d / %d)" % (len(pred), len(trans)))
        return res.finish(1)
    want = set()
    for f in pred:
        want |= reach(f)
    for f in trans:
        key = fn_key(f)
        res.instance(key)
        got = reach(f)
        missing = sorted(want - got)
        if missing:
            res.violate("%s : ignores:%s" % (key, ",".join(missing)), "`transform` never reaches a read of the model's `%s`, which `predict_inplace` uses: the two forms of the projection are different maps" % ", ".join(missing), fn_loc(f))
        else:
            res.ok()
    return res.finish(1)


def rule_stale(ctx):
    """no field of a fitted model is computed from a local that is stored in another field and mutated in between (rules/stale.py)"""
    from . import stale
    res = RuleResult("R-C18-stale", "fields of the fitted model that are computed from another stored field are computed from its final value (no mutation between the computation and the construction)")
    F = ctx.facts()
    fns = [f for f in F.all_fns() if f["d"]["krate"] == "linfa_reduction" and "pca" in fn_file(f)]
    lits = 0
    for fn in fns:
        lits += sum(1 for x in walk(fn["body"]) if x.get("k") == "Struct" and x.get("fields"))
        for s_ in stale.findings(fn):
            key = fn_key(fn)
            res.instance("%s : field %s derived from %s" % (key, s_["field"], s_["source"]))
            res.violate("%s : stale-field:%s" % (key, s_["field"]), "field `%s` is computed from `%s`, which is stored as field `%s` and is mutated (line %s) after that computation and before the model is built: the two fields describe different states" % (s_["field"], s_["source"], s_["source_field"], s_["mutation_ln"]), fn_loc(fn, s_["mutation_ln"]))
    res.instance("%d functions of linfa-reduction pca scanned, %d struct literals" % (len(fns), lits))
    if fns and lits:
        res.ok()
    else:
        res.missing_anchor("model constructions in linfa-reduction pca")
    return res.finish(1)


def rule_rowlocal(ctx):
    """'projects every record onto the components about the *training* mean': Pca::predict_inplace touches the batch only
    through row-local operations (rules/c03.py BatchAxis) - a statistic of the batch itself (its column mean, say) in the
    centring makes the projection of a record depend on the other records it is predicted with, and coincides with the
    stored mean only on the training data."""
    from . import c03
    res = RuleResult("R-C18-rowlocal", "Pca::predict_inplace uses the batch only row by row: no reduction along the batch axis enters the projection")
    F = ctx.facts()
    c03.build_index(F)
    n = 0
    for fn in c03.predictors(F):
        d = fn["d"]
        if d["name"] != "predict_inplace" or len(fn["params"]) < 3 or d["krate"] != "linfa_reduction" or not (d.get("self_adt") or "").endswith("Pca"):
            continue
        if fn["params"][1].get("k") != "Bind" or fn["params"][2].get("k") != "Bind":
            continue
        n += 1
        key = c03.inst_key(fn)
        res.instance(key)
        before = len(res.violations)
        ba = c03.BatchAxis(F, res, key)
        ba.run(fn, {fn["params"][1]["local"]: 0}, [fn["params"][2]["local"]])
        if len(res.violations) == before:
            res.ok()
    seen, uniq = set(), []
    for v in res.violations:
        if v.key not in seen:
            seen.add(v.key)
            uniq.append(v)
    res.violations = uniq
    if n < 1:
        res.missing_anchor("<Pca as PredictInplace>::predict_inplace")
    return res.finish(1)


def rules(tier):
    from . import carry, c04
    from . import precision
    from . import intnarrow, sizeroute, c16
    return [sizeroute.make_rule("R-C18-sizeroute", lambda f: f["d"]["krate"] == "linfa_reduction", "linfa-reduction"),
            intnarrow.make_rule("R-C18-narrow", lambda f: f["d"]["krate"] == "linfa_reduction" and "pca" in fn_file(f), "linfa-reduction pca"),
            rule_ratiosquares, rule_siblingfields, rule_samesigma, c16.make_absfloor_rule("R-C18-absfloor", lambda f: f["d"]["krate"] == "linfa_reduction" and f["d"]["name"] == "fit" and "pca" in fn_file(f) and not f.get("exp"), "PcaParams::fit"), rule_whitenscale, rule_centreonce, rule_guard, rule_n, rule_project, rule_memorder, rule_overwrite, rule_stale, rule_ratio_paths, c01.rule_width,
            carry.make_clone_rule("R-C18-clone", {"linfa_reduction"}, 4), carry.make_setter_rule("R-C18-override", {"linfa_reduction"}, 2), rule_rowlocal,
            precision.make_rule("R-C18-precision", lambda f: f["d"]["krate"] == "linfa_reduction" and "pca" in fn_file(f), 9, "linfa-reduction pca"),
            carry.make_accessor_rule("R-C18-accessor", {"linfa_reduction"}, 4), carry.make_ctor_rule("R-C18-ctor", {"linfa_reduction"}, 2)]
