"""C07 — nearest-neighbour indices: unit discipline, sibling argument checks, agreement at the radius."""
import re

from . import layout
from .core import RuleResult
from .facts import fn_file, fn_key, fn_loc, walk, strip, peel_refs, pat_bindings, Render
from .sym import Tracer, Term, Cmp, k, as_term, walk_terms
from .units import Units

LEVEL = ("Static analysis of linfa-nn (and of the `within`/`nearest` routines of the kdtree crate at the version locked by "
         "Cargo.lock, extracted with the same compiler driver): (unit) distances and reduced distances are never mixed in a "
         "comparison, min/max, sum or conversion - tags come from the Distance trait's own methods and flow through locals, "
         "heaps, struct fields and calls; (sib) the three index kinds perform the same build checks (leaf size, dimension) and "
         "reject queries of the wrong dimension; (edge) the relation that admits a point at distance exactly `range` is the "
         "same in all three kinds; (degree) a homogeneity-degree analysis of the four provided metrics: `distance` has degree 1 in "
         "the coordinate differences on every branch, and rdistance / rdist_to_dist / dist_to_rdist agree on one reduced degree. "
         "Necessary conditions of 'pruning bounds use the right metric conversion', 'malformed "
         "builds/queries are errors' and 'the kinds agree on points exactly on the radius'. Geometric sufficiency of the "
         "pruning bounds and k-NN tie handling are not decided.")
ASSUME = ["rustc resolution/typeck; HIR faithfully dumped", "Distance::{distance, rdistance, dist_to_rdist, rdist_to_dist} are implemented consistently by each metric",
          "kdtree's nearest_step is the only place where `within` admits points (read from the locked version's typed HIR)"]


def nn_fns(F):
    return [f for f in F.all_fns() if f["d"]["krate"] == "linfa_nn"]


def rule_unit(ctx):
    res = RuleResult("R-C07-unit", "dist and rdist values are never mixed (comparisons, min/max, sums, conversions, heap keys, call arguments)")
    F = ctx.facts()
    fns = nn_fns(F)
    seeds = {}
    for f in fns:
        if f["d"]["name"] == "within_range":
            for i, p in enumerate(f["params"]):
                if p.get("k") == "Bind" and p["name"] == "range":
                    seeds[((f["d"]["krate"], f["d"].get("raw")), i)] = "dist"
    U = Units(fns, {(raw, i): t for (raw, i), t in seeds.items()}).run()
    for i in range(U.sites):
        pass
    tagged = sorted("%s -> %s" % (fn_key(U.by_raw[r]), t) for r, t in U.ret.items())
    for t in tagged:
        res.instance("return unit: " + t)
    for (raw, i), t in sorted(U.param.items(), key=lambda x: (fn_key(U.by_raw[x[0][0]]), x[0][1])):
        f = U.by_raw[raw]
        pn = f["params"][i].get("name", "#%d" % i) if i < len(f["params"]) else "#%d" % i
        res.instance("parameter unit: %s(%s) -> %s" % (fn_key(f), pn, t))
    for name, t in sorted(U.field.items()):
        res.instance("field unit: %s -> %s" % (name, t))
    res.obligations += U.sites
    res.discharged += U.sites - len(U.viol)
    res.info.append("%d unit-sensitive sites (comparisons, min/max, sums, conversions, calls) checked" % U.sites)
    res.sample({"returns": tagged[:6], "fields": U.field})
    for key, (fn, msg, ln) in sorted(U.viol.items()):
        res.violations.append(__import__("rules.core", fromlist=["Violation"]).Violation("R-C07-unit", key, msg, fn_loc(fn, ln)))
    return res.finish(8)


def build_checks(F, fn, depth=0, seen=None):
    """(error variant, canonical guard) pairs returned on the way from a builder entry."""
    seen = seen if seen is not None else set()
    if id(fn) in seen or depth > 3:
        return set()
    seen.add(id(fn))
    out = set()
    tr = Tracer(fn).run()
    # Err values in tail position of if/else chains are the function's value, not `ret` events: look at guards of struct-free Err calls
    for e in tr.events:
        if e.kind == "call" and e.name == "Err" and e.args:
            v = as_term(e.args[0])
            if v is not None and v.op.startswith("def:"):
                variant = v.op.split("::")[-1]
                conds = []
                for g in e.guards:
                    if g[0] == "+":
                        conds.append(re.sub(r"param:\w+", "P", re.sub(r"call:(ncols|len|nrows)\((.*?)\)", r"\1", g[1])))
                out.add((variant, conds[-1] if conds else ""))
    c = fn["crate"]
    for n in walk(fn["body"]):
        d = None
        if n.get("k") == "Call":
            f = strip(n["f"])
            d = c.dfn(f.get("def")) if f.get("k") == "Path" else None
        elif n.get("k") == "MethodCall":
            d = c.dfn(n.get("def"))
        if d and d["krate"] == "linfa_nn":
            for g in F.find_fns(name=d["name"], krate="linfa_nn"):
                if g["d"].get("raw") == d.get("raw"):
                    out |= build_checks(F, g, depth + 1, seen)
    return out


def rule_sib(ctx):
    res = RuleResult("R-C07-sib", "the three index kinds perform the same build checks and reject wrong-dimension queries")
    F = ctx.facts()
    builders = [f for f in F.find_fns(name="from_batch_with_leaf_size", krate="linfa_nn") if (f["d"].get("self_adt") or "").split("::")[-1] in ("LinearSearch", "KdTree", "BallTree")]
    if len(builders) != 3:
        res.missing_anchor("from_batch_with_leaf_size of LinearSearch/KdTree/BallTree (found %d)" % len(builders))
    sets = {}
    for fn in builders:
        kind = fn["d"]["self_adt"].split("::")[-1]
        cs = build_checks(F, fn)
        sets[kind] = set(v for v, _ in cs)
        res.instance("%s build checks: %s" % (kind, sorted(cs)))
        for want in ("EmptyLeaf", "ZeroDimension"):
            if want in sets[kind]:
                res.ok()
            else:
                res.violate("%s : build-check-missing:%s" % (kind, want), "%s::from_batch_with_leaf_size no longer returns BuildError::%s (the sibling index kinds do)" % (kind, want), fn_loc(fn))
    # queries
    for kind, adt in (("LinearSearch", "LinearSearchIndex"), ("BallTree", "BallTreeIndex")):
        for q in ("k_nearest", "within_range"):
            fns = [f for f in F.find_fns(name=q, krate="linfa_nn") if (f["d"].get("self_adt") or "").endswith(adt)]
            if not fns:
                res.missing_anchor("%s::%s" % (adt, q))
                continue
            cs = build_checks(F, fns[0])
            res.instance("%s::%s dimension check: %s" % (adt, q, sorted(cs)))
            if any(v == "WrongDimension" and ("!=" in g or "==" in g) for v, g in cs):
                res.ok()
            else:
                res.violate("%s::%s : dimension-check-missing" % (adt, q), "%s::%s does not return NnError::WrongDimension for a query of the wrong length" % (adt, q), fn_loc(fns[0]))
            # ... and no answer is produced before that test (an early `return Ok(..)` for k = 0 / an empty index would
            # answer a malformed query that the sibling kinds reject)
            tr = Tracer(fns[0], inline=ctx.inliner()).run()
            err_events = [e for e in tr.events if e.kind == "call" and e.name == "Err" and e.args and as_term(e.args[0]) is not None and as_term(e.args[0]).op.endswith("WrongDimension")]
            errs = [e.order for e in err_events]
            # the test runs once per query, not once per stored row: inside the loop over the rows it is never reached
            # for an empty index, which then answers a malformed query with Ok(empty) while the sibling kinds reject it
            res.instance("%s::%s : dimension check outside the loop over the stored points" % (adt, q))
            if err_events and all(e.loops for e in err_events):
                res.violate("%s::%s : dimension-check-per-row" % (adt, q), "%s::%s tests the query's dimension only inside the loop over the stored points: an index without points never reaches the test and answers a malformed query with Ok, where the sibling index kinds return WrongDimension" % (adt, q), fn_loc(fns[0], err_events[0].node["ln"]))
            else:
                res.ok()
            res.instance("%s::%s : no answer before the dimension check" % (adt, q))
            early = [e for e in tr.events if errs and e.order < min(errs) and ((e.kind == "ret" and as_term(e.val) is not None and as_term(e.val).is_call("Ok")) or (e.kind == "call" and e.name == "Ok"))]
            if early:
                res.violate("%s::%s : answer-before-dimension-check" % (adt, q), "%s::%s returns an Ok answer before the query's dimension is checked: a malformed query is answered on that path" % (adt, q), fn_loc(fns[0], early[0].node["ln"]))
            else:
                res.ok()
    # k-d tree: `?` on the kdtree result + the dependency checks the point first
    for q, dep in (("k_nearest", "nearest"), ("within_range", "within")):
        fns = [f for f in F.find_fns(name=q, krate="linfa_nn") if (f["d"].get("self_adt") or "").endswith("KdTreeIndex")]
        if not fns:
            res.missing_anchor("KdTreeIndex::%s" % q)
            continue
        tr = Tracer(fns[0]).run()
        res.instance("KdTreeIndex::%s propagates kdtree::%s errors" % (q, dep))
        if any(e.kind == "try" and as_term(e.val) is not None and as_term(e.val).is_call(dep) for e in tr.events):
            res.ok()
        else:
            res.violate("KdTreeIndex::%s : kdtree-error-dropped" % q, "the Result of kdtree::%s is not propagated with `?`" % dep, fn_loc(fns[0]))
    D = ctx.facts("dep-kdtree")
    if D is None:
        res.undecided("kdtree : dependency-facts", "cannot extract facts of the locked kdtree dependency")
    else:
        for dep in ("nearest", "within"):
            fns = [f for f in D.all_fns() if f["d"]["name"] == dep and (f["d"].get("self_adt") or "").endswith("KdTree")]
            res.instance("kdtree::KdTree::%s checks the query point first" % dep)
            if not fns:
                res.missing_anchor("kdtree::KdTree::%s" % dep)
                continue
            tr = Tracer(fns[0]).run()
            calls = [e for e in tr.events if e.kind == "call" and e.name not in ("branch", "from_residual")]
            propagated = any(e.kind == "try" and as_term(e.val) is not None and as_term(e.val).is_call("check_point") for e in tr.events) or \
                any(e.kind == "ret" and any("call:check_point" in g[1] and g[1].startswith("let Err") for g in e.guards) for e in tr.events)
            if calls and calls[0].name == "check_point" and propagated:
                res.ok()
            else:
                res.violate("kdtree::%s : no-point-check" % dep, "the locked kdtree version does not validate the query point first", fn_loc(fns[0]))
    return res.finish(15)


CANON = {"<": "<", "<=": "<=", ">": "<", ">=": "<="}


def admit_relation(c, cond_nodes, dist_pred, bound_pred):
    """Relation `d OP bound` under which a point is admitted, from candidate comparison nodes."""
    r = Render(c)
    for n in cond_nodes:
        if n.get("k") != "Binary" or n["op"] not in CANON:
            continue
        l, rr = r.e(n["l"]), r.e(n["r"])
        if dist_pred(l) and bound_pred(rr) and n["op"] in ("<", "<="):
            return n["op"], n
        if dist_pred(rr) and bound_pred(l) and n["op"] in (">", ">="):
            return CANON[n["op"]], n
    return None, None


def rule_edge(ctx):
    res = RuleResult("R-C07-edge", "all three index kinds admit a point at distance exactly `range` under the same relation")
    F = ctx.facts()
    rel = {}
    locs = {}
    # linear: predicate of the filter in within_range
    fns = [f for f in F.find_fns(name="within_range", krate="linfa_nn") if (f["d"].get("self_adt") or "").endswith("LinearSearchIndex")]
    if not fns:
        res.missing_anchor("LinearSearchIndex::within_range")
    for fn in fns:
        c = fn["crate"]
        conds = []
        for n in walk(fn["body"]):
            if n.get("k") == "MethodCall" and n["name"] == "filter" and n["args"]:
                conds += [x for x in walk(n["args"][0]) if x.get("k") == "Binary"]
        op, node = admit_relation(c, conds, lambda s: "rdistance(" in s, lambda s: "range" in s)
        rel["LinearSearch"] = op
        locs["LinearSearch"] = fn_loc(fn, node["ln"]) if node else fn_loc(fn)
        if op is None:
            # the scan admits by the *plain* distance against the plain radius while the trees admit by the reduced
            # distance against the reduced radius: equal as real numbers, but sqrt / square round differently, so points
            # exactly on the radius are treated differently by the kinds (L2 on lattice data)
            r_ = Render(c)
            for x in conds:
                if x.get("op") in ("<", "<=", ">", ">="):
                    l_, rr_ = r_.e(x["l"]), r_.e(x["r"])
                    plain = [s_ for s_ in (l_, rr_) if (re.search(r"(?<![a-z_])distance\(", s_) and "rdistance(" not in s_) or "rdist_to_dist(" in s_]
                    if not plain:
                        # `let rdist = ..rdistance(..); self.1.rdist_to_dist(rdist) < range` inside the filter closure
                        for side in (x["l"], x["r"]):
                            if any(z.get("k") == "MethodCall" and z["name"] == "rdist_to_dist" for z in walk(side)):
                                plain = [r_.e(side)]
                    if plain and ("range" in l_ or "range" in rr_):
                        res.instance("LinearSearch : unit of the admission test")
                        res.violate("LinearSearch : admission-in-plain-distance", "the linear scan admits a point by `%s`, a comparison of plain distances, while the tree indices compare reduced distances with the reduced radius: the two predicates round differently, so the kinds disagree on points exactly on the radius" % r_.e(x)[:60], fn_loc(fn, x.get("ln")))
    # ball tree: guard of the push into the result heap, against the radius parameter
    # (anchored in the public within_range: the helper it hands the radius to is followed, whatever it is called)
    wr = [f for f in F.find_fns(name="within_range", krate="linfa_nn") if (f["d"].get("self_adt") or "").endswith("BallTreeIndex")]
    if not wr:
        res.missing_anchor("BallTreeIndex::within_range")
    fns = []
    for w in wr:
        c = w["crate"]
        wparams = [b for p_ in w["params"] for b in pat_bindings(p_)]
        rng = next((b for b in wparams if b["name"] == "range"), wparams[-1] if wparams else None)
        derived = {rng["local"]} if rng else set()
        for y in walk(w["body"]):
            if y.get("k") == "LetStmt" and y.get("init") is not None and y["pat"].get("k") == "Bind" and any(z.get("k") == "Path" and z.get("local") in derived for z in walk(y["init"])):
                derived.add(y["pat"]["local"])
        for y in walk(w["body"]):
            if y.get("k") == "MethodCall" and peel_refs(y["recv"]).get("name") == "self":
                g = next((h for h in c.fns if h["def"] in (y.get("inst"), y.get("def"))), None)
                if g is None:
                    continue
                for pos, a in enumerate(y["args"]):
                    if any(z.get("k") == "Path" and z.get("local") in derived for z in walk(a)):
                        gp = [b for p_ in g["params"][1:] for b in pat_bindings(p_)]
                        if pos < len(gp):
                            fns.append((g, gp[pos]["name"]))
    if wr and not fns:
        fns = [(w, "range") for w in wr]
    for fn, radius_name in fns:
        c = fn["crate"]
        conds = []
        for n in walk(fn["body"]):
            if n.get("k") == "If" and any(x.get("k") == "MethodCall" and x["name"] == "push" for x in walk(n["then"])):
                conds += [x for x in walk(n["c"]) if x.get("k") == "Binary"]
        op, node = admit_relation(c, conds, lambda s: s.strip("*&() ") == "dist", lambda s, rn=radius_name: rn in s)
        rel["BallTree"] = op
        locs["BallTree"] = fn_loc(fn, node["ln"]) if node else fn_loc(fn)
    # k-d tree: the locked dependency's admission test, intersected with linfa's own post-filter
    D = ctx.facts("dep-kdtree")
    kd_dep = None
    if D is not None:
        for fn in [f for f in D.all_fns() if f["d"]["name"] == "nearest_step"]:
            c = fn["crate"]
            conds = []
            for n in walk(fn["body"]):
                if n.get("k") == "If" and any(x.get("k") == "MethodCall" and x["name"] == "push" and peel_refs(x["recv"]).get("name") == "evaluated" for x in walk(n["then"])):
                    conds += [x for x in walk(strip(n["c"])) if x.get("k") == "Binary"][:1]
            op, node = admit_relation(c, conds, lambda s: "element" in s, lambda s: "max_dist" in s)
            kd_dep = op
            res.info.append("kdtree (locked version) nearest_step admits `element %s max_dist` at %s" % (op, fn_loc(fn, node["ln"]) if node else "?"))
    fns = [f for f in F.find_fns(name="within_range", krate="linfa_nn") if (f["d"].get("self_adt") or "").endswith("KdTreeIndex")]
    if not fns:
        res.missing_anchor("KdTreeIndex::within_range")
    for fn in fns:
        c = fn["crate"]
        conds = []
        for n in walk(fn["body"]):
            if n.get("k") == "MethodCall" and n["name"] == "filter" and n["args"]:
                clo = strip(n["args"][0])
                if clo.get("k") == "Closure":
                    conds += [x for x in walk(clo["body"]) if x.get("k") == "Binary"]
        post, node = admit_relation(c, conds, lambda s: "dist" in s, lambda s: "range" in s)
        # the post-filter compares the reported reduced distance with the reduced radius as they are: a slack added to one
        # side (`dist + epsilon < range`) is an absolute quantity on a squared scale - below radius^2 = epsilon every point,
        # the query point included, is cut off, and the k-d tree alone answers differently from the other kinds
        for x in conds:
            if x.get("op") in ("<", "<=", ">", ">="):
                for side in (x["l"], x["r"]):
                    s0 = peel_refs(side)
                    while s0.get("k") in ("Paren", "DropTemps") or (s0.get("k") == "Unary" and s0["op"] == "*"):
                        s0 = peel_refs(s0["e"])
                    if s0.get("k") == "Binary" and s0["op"] in ("+", "-"):
                        res.instance("KdTree : post-filter operands")
                        res.violate("KdTree : admission-with-slack", "the k-d tree's post-filter admits by `%s`: an additive slack on the reduced distance / radius is absolute, so for radii near its size the sphere is cut off altogether (or widened), and this kind alone disagrees with the others" % Render(c).e(x)[:60], fn_loc(fn, x.get("ln")))
        eff = kd_dep
        if post == "<" or kd_dep == "<":
            eff = "<" if kd_dep is not None else None
        rel["KdTree"] = eff
        locs["KdTree"] = fn_loc(fn, node["ln"]) if node else fn_loc(fn)
        res.info.append("KdTreeIndex::within_range post-filter: %s; effective relation: d %s range" % (("dist %s range" % post) if post else "none", eff))
    for kind in ("LinearSearch", "BallTree", "KdTree"):
        res.instance("%s admits a point iff rdist %s rdist(range)" % (kind, rel.get(kind)))
        if rel.get(kind) is None:
            res.undecided("%s : admission-test-not-found" % kind, "cannot find the comparison that admits a point into the range-query result (fail closed)", locs.get(kind))
    vals = set(v for v in rel.values() if v)
    if len(rel) == 3 and all(rel.values()):
        if len(vals) == 1:
            res.ok()
            res.sample({"relation": "d %s range" % list(vals)[0], "kinds": sorted(rel)})
        else:
            odd = [kk for kk, v in rel.items() if list(rel.values()).count(v) == 1]
            res.violate("linfa_nn : radius-strictness:%s" % ",".join("%s%s" % (kk, rel[kk]) for kk in sorted(rel)),
                        "index kinds disagree on points exactly on the radius: %s (a point at distance == range is returned by some kinds and not by others, which also makes DBSCAN/OPTICS depend on the index)" % rel,
                        locs.get(odd[0]) if odd else None)
    return res.finish(3)


# ---------------------------------------------------------------------------------------------------------
# R-C07-degree: homogeneity degree of the provided metrics (dimensional analysis of the Distance impls).
# A metric induced by a norm satisfies d(t*a, t*b) = |t| * d(a, b): `distance` is homogeneous of degree 1 in the
# coordinate differences; `rdistance` may have another degree r, and then rdist_to_dist must map degree r to 1 and
# dist_to_rdist degree 1 to r. Degrees are c * p^e with p the exponent stored in LpDist (so |x|^p has degree p and
# (.)^(1/p) brings it back to 1).
from fractions import Fraction

ANY = ("any",)          # additive zero / accumulator start: homogeneous of every degree
DEG0 = (Fraction(0), 0)
DEG1 = (Fraction(1), 0)
STATS_DEG = {"l1_dist": Fraction(1), "l2_dist": Fraction(1), "linf_dist": Fraction(1), "sq_l2_dist": Fraction(2)}
SAME_DEG = {"unwrap", "expect", "clone", "abs", "to_owned", "view", "iter", "into_iter", "sum", "reborrow", "copied", "cloned",
            "max_value", "into_inner", "unwrap_or", "to_vec", "mean"}


KNOWN_RDEG = {}     # metric type name -> degree of its rdistance (filled by rule_degree, first pass)


class DegError(Exception):
    def __init__(self, kind, msg, ln=None):
        Exception.__init__(self, msg)
        self.kind, self.msg, self.ln = kind, msg, ln


def deg_show(d):
    if d == ANY:
        return "any"
    c, e = d
    return "%s%s" % (c, "" if e == 0 else "*p^%d" % e)


class DegEval:
    def __init__(self, fn, impl_rdeg, env):
        self.fn = fn
        self.c = fn["crate"]
        self.r = Render(self.c)
        self.env = dict(env)
        self.impl_rdeg = impl_rdeg
        self.inits = {}
        self.truncated = {}
        self.self_local = None
        for p_ in fn["params"]:
            if p_.get("k") == "Bind" and p_["name"] == "self":
                self.self_local = p_["local"]

    def unify(self, a, b, n, what):
        if a == ANY:
            return b
        if b == ANY:
            return a
        if a == b:
            return a
        raise DegError("mixed-degree", "%s combines a quantity of degree %s with one of degree %s: `%s`" % (what, deg_show(a), deg_show(b), self.r.e(n)[:80]), n.get("ln"))

    def scale(self, d, m):
        """degree d raised to the power described by multiplier m = (Fraction, p-exponent)"""
        if d == ANY:
            return ANY
        c_ = d[0] * m[0]
        return (c_, d[1] + m[1] if c_ != 0 else 0)

    def exponent(self, n):
        """value of an exponent expression as (Fraction, p-exponent)"""
        n = peel_refs(n)
        k_ = n.get("k")
        if k_ == "Lit":
            try:
                return (Fraction(re.sub(r"(_?[fiu](32|64|size))$", "", n["v"]).replace("_", "")), 0)
            except (ValueError, ZeroDivisionError):
                raise DegError("unclassified", "exponent `%s` is not understood" % self.r.e(n), n.get("ln"))
        if k_ == "Field" and n["name"] == "0" and peel_refs(n["e"]).get("local") == self.self_local:
            return (Fraction(1), 1)
        if k_ == "Path" and n.get("local") in self.truncated:
            raise DegError("truncated-exponent", "the exponent `%s` is a truncated copy (%s) of the metric's exponent: for a fractional exponent the reduced distance is computed with another power than the one `distance` and the conversions use" % (n.get("name"), self.truncated[n["local"]]), n.get("ln"))
        if k_ == "Path" and n.get("local") in self.inits:
            return self.exponent(self.inits[n["local"]])
        if k_ == "Call":
            d = self.c.dfn(strip(n["f"]).get("def")) if strip(n["f"]).get("k") == "Path" else None
            nm = d["name"] if d else None
            if nm == "one":
                return (Fraction(1), 0)
            if nm in ("cast", "from") and n["args"]:
                return self.exponent(n["args"][0])
        if k_ == "MethodCall" and n["name"] in ("unwrap", "recip"):
            a = self.exponent(n["recv"])
            if n["name"] == "recip":
                if a[0] == 0:
                    raise DegError("unclassified", "reciprocal of zero exponent", n.get("ln"))
                return (1 / a[0], -a[1])
            return a
        if k_ == "Binary" and n["op"] in ("/", "*"):
            a, b = self.exponent(n["l"]), self.exponent(n["r"])
            if n["op"] == "*":
                return (a[0] * b[0], a[1] + b[1])
            if b[0] == 0:
                raise DegError("unclassified", "division by a zero exponent", n.get("ln"))
            return (a[0] / b[0], a[1] - b[1])
        raise DegError("unclassified", "exponent `%s` is not understood" % self.r.e(n)[:60], n.get("ln"))

    def closure(self, clo, param_degs):
        clo = strip(clo)
        if clo.get("k") != "Closure":
            raise DegError("unclassified", "expected a closure: `%s`" % self.r.e(clo)[:60], clo.get("ln"))
        saved = dict(self.env)
        for i, p_ in enumerate(clo["params"]):
            for b in pat_bindings(p_):
                self.env[b["local"]] = param_degs[i] if i < len(param_degs) else param_degs[-1]
        out = self.deg(clo["body"])
        self.env = saved
        return out

    def deg(self, n):
        n = strip(n)
        k_ = n.get("k")
        if k_ in ("Ref", "Cast"):
            return self.deg(n["e"])
        if k_ == "Unary":
            return self.deg(n["e"])
        if k_ == "Lit":
            try:
                v = float(re.sub(r"(_?[fiu](32|64|size))$", "", n["v"]).replace("_", ""))
            except ValueError:
                v = 1.0
            return ANY if v == 0.0 else DEG0
        if k_ == "Path":
            if "local" in n:
                if n["local"] in self.env:
                    return self.env[n["local"]]
                raise DegError("unclassified", "local `%s` has no known degree" % n.get("name"), n.get("ln"))
            return DEG0
        if k_ == "Field":
            return DEG0      # a field of the metric itself (e.g. the exponent p): a constant w.r.t. the coordinates
        if k_ == "Block":
            for s_ in n["stmts"]:
                s2 = strip(s_)
                if s2.get("k") == "LetStmt" and s2.get("init") is not None:
                    d = self.deg(s2["init"])
                    for b in pat_bindings(s2["pat"]):
                        self.env[b["local"]] = d
                        self.inits[b["local"]] = s2["init"]
                elif s2.get("k") in ("Ret",):
                    raise DegError("unclassified", "early return", s2.get("ln"))
            if n.get("e") is None:
                raise DegError("unclassified", "block without a value", n.get("ln"))
            return self.deg(n["e"])
        if k_ == "If":
            a = self.deg(n["then"])
            if not n.get("else"):
                raise DegError("unclassified", "if without else as a value", n.get("ln"))
            b = self.deg(n["else"])
            return self.unify(a, b, n, "the two branches of a conditional")
        if k_ == "Match":
            sc = peel_refs(n["scrut"])
            conv = None
            t_ = sc
            while t_.get("k") == "MethodCall":
                if t_["name"] in ("to_i32", "to_i64", "to_u32", "to_usize", "to_isize", "to_u64", "round", "floor", "ceil", "trunc"):
                    conv = t_["name"]
                t_ = peel_refs(t_["recv"])
            if conv and t_.get("k") == "Field" and peel_refs(t_["e"]).get("local") == self.self_local:
                for a in n["arms"]:
                    for b in pat_bindings(a["pat"]):
                        self.truncated[b["local"]] = conv
            out = ANY
            for a in n["arms"]:
                out = self.unify(out, self.deg(a["body"]), n, "the arms of a match")
            return out
        if k_ == "Binary":
            op = n["op"]
            if op in ("+", "-"):
                return self.unify(self.deg(n["l"]), self.deg(n["r"]), n, "a sum")
            if op in ("*", "/"):
                a, b = self.deg(n["l"]), self.deg(n["r"])
                if a == ANY or b == ANY:
                    if op == "/" and b == ANY:
                        raise DegError("unclassified", "division by a zero constant", n.get("ln"))
                    return ANY
                sgn = 1 if op == "*" else -1
                if a[0] == 0:
                    return (sgn * b[0], b[1] if b[0] != 0 else 0)
                if b[0] == 0:
                    return a
                if a[1] != b[1]:
                    raise DegError("unclassified", "product of quantities with different p-dependence", n.get("ln"))
                c_ = a[0] + sgn * b[0]
                return (c_, a[1] if c_ != 0 else 0)
            raise DegError("unclassified", "operator `%s` as a value" % op, n.get("ln"))
        if k_ == "Call":
            f = strip(n["f"])
            d = self.c.dfn(f.get("def")) if f.get("k") == "Path" else None
            nm = d["name"] if d else None
            if nm == "zero":
                return ANY
            if nm in ("one", "epsilon", "max_value", "infinity"):
                return DEG0
            if nm in ("from", "cast", "Some", "Ok", "new") and n["args"]:
                return self.deg(n["args"][0])
            if d is not None and n["args"] and (nm in STATS_DEG or nm in SAME_DEG or nm in ("sqrt", "cbrt", "powi", "powf", "and", "zip", "max", "min", "add", "sub", "mul", "dot", "fold", "map", "mapv", "distance", "rdistance")):
                # universal function call syntax of a method: first argument is the receiver
                as_method = {"k": "MethodCall", "name": nm, "recv": n["args"][0], "args": n["args"][1:], "def": f.get("def"), "ln": n.get("ln"), "t": n.get("t")}
                return self.deg(as_method)
            # a helper function of the same crate: its value has the degree of its body with the arguments' degrees
            di = f.get("inst", f.get("def")) if f.get("k") == "Path" else None
            g = next((x for x in self.c.fns if x["def"] == di and x is not self.fn), None) if di is not None else None
            if g is not None and getattr(self, "depth", 0) < 3:
                env2 = {}
                ps_ = [p_ for p_ in g["params"]]
                for p_, a_ in zip(ps_, n["args"]):
                    try:
                        da = self.deg(a_)
                    except DegError:
                        da = None
                    for b in pat_bindings(p_):
                        if da is not None:
                            env2[b["local"]] = da
                sub = DegEval(g, self.impl_rdeg, env2)
                sub.depth = getattr(self, "depth", 0) + 1
                return sub.deg(g["body"])
            raise DegError("unclassified", "call of `%s` is not understood by the degree analysis" % (nm or self.r.e(f)[:40]), n.get("ln"))
        if k_ == "MethodCall":
            nm = n["name"]
            d = self.c.dfn(n.get("def"))
            tr = (d or {}).get("trait") or ""
            if nm in STATS_DEG and d is not None and d["krate"] == "ndarray_stats":
                a = self.unify(self.deg(n["recv"]), self.deg(n["args"][0]), n, "`%s`" % nm)
                return self.scale(a, (STATS_DEG[nm], 0))
            if tr.endswith("Distance") and nm == "distance":
                self.unify(self.deg(n["args"][0]), self.deg(n["args"][1]), n, "`distance`")
                return DEG1
            if tr.endswith("Distance") and nm == "rdistance":
                rv = peel_refs(n["recv"])
                if not (rv.get("k") == "Path" and rv.get("local") == self.self_local):
                    # the reduced distance of another metric (L2Dist.rdistance(a, b) inside LpDist)
                    rt = (self.c.ty(rv.get("t")) or "").split("<")[0].split("::")[-1]
                    if rt in KNOWN_RDEG and KNOWN_RDEG[rt] is not None:
                        return KNOWN_RDEG[rt]
                    if rt:
                        raise DegError("unclassified", "reduced degree of `%s` not known yet" % rt, n.get("ln"))
                return self.impl_rdeg if self.impl_rdeg is not None else DEG1
            if nm in SAME_DEG:
                return self.deg(n["recv"])
            if nm == "sqrt":
                return self.scale(self.deg(n["recv"]), (Fraction(1, 2), 0))
            if nm == "cbrt":
                return self.scale(self.deg(n["recv"]), (Fraction(1, 3), 0))
            if nm in ("powi", "powf") and n["args"]:
                return self.scale(self.deg(n["recv"]), self.exponent(n["args"][0]))
            if nm in ("and", "zip", "max", "min", "add", "sub") and n["args"]:
                return self.unify(self.deg(n["recv"]), self.deg(n["args"][0]), n, "`%s`" % nm)
            if nm in ("mul", "dot") and n["args"]:
                a, b = self.deg(n["recv"]), self.deg(n["args"][0])
                if a == ANY or b == ANY:
                    return ANY
                return (a[0] + b[0], max(a[1], b[1]))
            if nm == "fold" and len(n["args"]) == 2:
                rdeg = self.deg(n["recv"])
                init = self.deg(n["args"][0])
                body = self.closure(n["args"][1], [init, rdeg])
                return self.unify(init, body, n, "`fold`")
            if nm in ("map", "mapv", "mapv_into", "for_each") and n["args"]:
                return self.closure(n["args"][0], [self.deg(n["recv"])])
            raise DegError("unclassified", "method `%s` is not understood by the degree analysis" % nm, n.get("ln"))
        raise DegError("unclassified", "expression kind %s is not understood by the degree analysis" % k_, n.get("ln"))


def rule_degree(ctx):
    res = RuleResult("R-C07-degree", "every provided metric is homogeneous of degree 1 in the coordinate differences; rdistance and the two conversions are consistent with one reduced degree")
    F = ctx.facts()
    NAMES = ("distance", "rdistance", "rdist_to_dist", "dist_to_rdist")
    impls, defaults = {}, {}
    for f in nn_fns(F):
        d = f["d"]
        if d["name"] not in NAMES:
            continue
        if d.get("pk") == "impl" and (d.get("trait") or "").endswith("Distance"):
            impls.setdefault((d.get("self_adt") or d.get("self_ty") or "?").split("::")[-1], {})[d["name"]] = f
        elif d.get("pk") != "impl" and d["path"].endswith("Distance::" + d["name"]):
            defaults[d["name"]] = f
    if len(impls) < 4:
        res.missing_anchor("the four provided metrics L1Dist, L2Dist, LInfDist, LpDist (found %s)" % sorted(impls))
    if len(defaults) < 3:
        res.missing_anchor("the provided methods of trait Distance (found %s)" % sorted(defaults))

    def params_of(f, names_deg):
        env = {}
        for p_ in f["params"]:
            if p_.get("k") == "Bind" and p_["name"] != "self":
                env[p_["local"]] = names_deg
        return env

    def check(label, f, env, want, rdeg):
        key = "%s::%s" % (label, f["d"]["name"])
        res.instance("%s : degree" % key)
        try:
            got = DegEval(f, rdeg, env).deg(f["body"])
        except DegError as e:
            res.violate("%s : %s" % (key, e.kind), e.msg, fn_loc(f, e.ln), undecided=(e.kind == "unclassified"))
            return None
        if want is not None and got != want and got != ANY:
            res.violate("%s : wrong-degree" % key,
                        "`%s` has homogeneity degree %s where %s is required: scaling all coordinates by t does not scale the result as the other methods of this metric assume (e.g. a squared distance returned as a distance)" % (f["d"]["name"], deg_show(got), deg_show(want)), fn_loc(f))
            return got
        res.ok()
        res.sample({"method": key, "degree": deg_show(got)})
        return got

    # first pass: reduced degree of every metric that does not refer to another one
    KNOWN_RDEG.clear()
    for name, ms in sorted(impls.items()):
        if "rdistance" not in ms:
            KNOWN_RDEG[name] = DEG1
        else:
            try:
                KNOWN_RDEG[name] = DegEval(ms["rdistance"], None, params_of(ms["rdistance"], DEG1)).deg(ms["rdistance"]["body"])
            except DegError:
                KNOWN_RDEG[name] = None
    for name, ms in sorted(impls.items()):
        if "distance" not in ms:
            res.missing_anchor("%s::distance" % name)
            continue
        check(name, ms["distance"], params_of(ms["distance"], DEG1), DEG1, None)
        rdeg = DEG1
        if "rdistance" in ms:
            got = check(name, ms["rdistance"], params_of(ms["rdistance"], DEG1), None, None)
            rdeg = got if got not in (None, ANY) else None
        for conv, src, dst in (("rdist_to_dist", rdeg, DEG1), ("dist_to_rdist", DEG1, rdeg)):
            if conv in ms:
                if src is None or dst is None:
                    continue
                check(name, ms[conv], params_of(ms[conv], src), dst, rdeg)
            elif rdeg is not None and rdeg != DEG1:
                res.instance("%s::%s : inherited identity" % (name, conv))
                res.violate("%s::%s : identity-conversion" % (name, conv), "%s overrides rdistance with degree %s but inherits the identity `%s`" % (name, deg_show(rdeg), conv), fn_loc(ms["rdistance"]))
    # provided methods of the trait: rdistance = distance, conversions are the identity
    for nm, f in sorted(defaults.items()):
        check("Distance(default)", f, params_of(f, DEG1), DEG1, DEG1)
    return res.finish(10)


def rule_direct(ctx):
    """'the three index kinds return the same neighbours': they compare reduced distances computed by the metric's own
    rdistance.  A scan that takes its distances from an expanded square |x|^2 - 2 x.q + |q|^2 instead compares numbers
    that have lost their significant digits far from the origin, and disagrees with the trees there."""
    from . import cancel
    res = RuleResult("R-C07-direct", "no distance in linfa-nn is computed through the expanded square |a|^2 + |b|^2 - 2<a,b>")
    F = ctx.facts()
    fns = nn_fns(F)
    n = 0
    for fn in fns:
        for node, what in cancel.sites(fn):
            n += 1
            key = fn_key(fn)
            res.instance("%s : expanded square" % key)
            res.violate("%s : distance-by-expansion" % key, "`%s` is a %s: for points far from the origin the subtraction cancels and the value is not the (reduced) distance any more, so this code path disagrees with the ones that use the metric's own rdistance" % (Render(fn["crate"]).e(node)[:70], what), fn_loc(fn, node.get("ln")))
    res.instance("%d functions of linfa-nn scanned, %d expanded squares" % (len(fns), n))
    if fns:
        res.ok()
    else:
        res.missing_anchor("functions of linfa-nn")
    return res.finish(1)


def rule_cover(ctx):
    """The ball of a tree node must contain every point stored below it: its radius is the largest distance from the
    centre over *all* points of both halves.  A radius computed over a shortened sequence (skip / take / step_by / filter)
    can leave a point outside its ball, and the sphere bound then prunes a true neighbour."""
    res = RuleResult("R-C07-cover", "the bounding radius of a ball-tree node is computed over every point of the node (no skip / take / filter in the scanned sequence)")
    F = ctx.facts()
    n_sites = 0
    for fn in nn_fns(F):
        c = fn["crate"]
        inits = {}
        for n in walk(fn["body"]):
            if n.get("k") == "LetStmt" and n.get("init") is not None and n["pat"].get("k") == "Bind":
                inits[n["pat"]["local"]] = n["init"]
        for n in walk(fn["body"]):
            if n.get("k") != "Call" or not n["args"]:
                continue
            f = strip(n["f"])
            d = c.dfn(f.get("def")) if f.get("k") == "Path" else None
            if not d or d["name"] != "calc_radius":
                continue
            n_sites += 1
            key = fn_key(fn)
            res.instance("%s : calc_radius #%d" % (key, n_sites))
            seen = []
            stack = [n["args"][0]]
            hops = 0
            while stack and hops < 40:
                e = strip(stack.pop())
                hops += 1
                if not isinstance(e, dict):
                    continue
                if e.get("k") == "MethodCall":
                    seen.append(e["name"])
                    stack.append(e["recv"])
                    if e["name"] in ("chain", "zip"):
                        stack.extend(e["args"])
                elif e.get("k") in ("Ref",) or (e.get("k") == "Unary"):
                    stack.append(e["e"])
                elif e.get("k") == "Path" and e.get("local") in inits:
                    stack.append(inits[e["local"]])
            bad = [x for x in seen if x in ("skip", "take", "step_by", "filter", "filter_map", "skip_while", "take_while", "nth", "last", "first")]
            if bad:
                res.violate("%s : radius-over-partial-sequence:%s" % (key, bad[0]), "the radius of the node is computed over a sequence shortened by `%s`: a point left out of the scan can lie outside the ball, and the bound `distance to centre - radius` then prunes it although it is within range" % bad[0], fn_loc(fn, n["ln"]))
            else:
                res.ok()
    if n_sites == 0:
        res.missing_anchor("calc_radius call sites in linfa-nn")
    return res.finish(1)


def rule_conserve(ctx):
    """Every point handed to the ball-tree builder ends up in exactly one leaf.  After the points were cut into two parts
    (`partition`), a node that is built from one part only - a leaf whose `points` mentions one of them, a branch that
    does not hand each of them to a recursive build - loses the points of the other part: they are in no leaf, and no
    query can return them."""
    res = RuleResult("R-C07-conserve", "in the ball-tree builder every part of a partition of the points reaches a node: a leaf holds all parts, a branch hands each part to a recursive build")
    F = ctx.facts()
    n = 0
    for fn in nn_fns(F):
        c = fn["crate"]
        parts = None
        part_ln = None
        for y in walk(fn["body"]):
            if y.get("k") == "LetStmt" and y.get("init") is not None and y["pat"].get("k") == "Tuple":
                i0 = peel_refs(y["init"])
                if i0.get("k") == "Call" and (c.dfn(strip(i0["f"]).get("def")) or {}).get("name") == "partition":
                    parts = [b for b in pat_bindings(y["pat"]) if "Vec<" in (c.ty(b.get("t")) or "")]
                    part_ln = y.get("ln") or 0
        if not parts or len(parts) < 2:
            continue
        n += 1
        key = fn_key(fn)
        names = {b["local"]: b["name"] for b in parts}
        res.instance("%s : parts %s" % (key, ", ".join(sorted(names.values()))))
        bad = None
        recursed = set()
        for y in walk(fn["body"]):
            if y.get("k") == "Call" and (c.dfn(strip(y["f"]).get("inst", strip(y["f"]).get("def"))) or {}).get("name") == fn["d"]["name"]:
                for a in y["args"]:
                    for z in walk(a):
                        if z.get("k") == "Path" and z.get("local") in names:
                            recursed.add(z["local"])
        for y in walk(fn["body"]):
            if y.get("k") != "Struct" or (y.get("ln") or 0) < part_ln:
                continue
            vn = (c.dfn(y.get("def")) or {}).get("name")
            if vn == "Leaf":
                fld = next((f_["e"] for f_ in y.get("fields") or [] if f_["name"] == "points"), None)
                used = set(z["local"] for z in walk(fld) if z.get("k") == "Path" and z.get("local") in names) if fld is not None else set()
                if used and used != set(names):
                    # a leaf from one part under a test that the other part is empty loses nothing
                    from .layout import with_parents as _wp
                    emptied = set()
                    for n_, anc_ in _wp(fn["body"]):
                        if n_ is y:
                            for a_ in anc_:
                                if a_.get("k") == "If":
                                    for z in walk(a_["c"]):
                                        if z.get("k") == "MethodCall" and z["name"] == "is_empty" and peel_refs(z["recv"]).get("local") in names:
                                            emptied.add(peel_refs(z["recv"])["local"])
                    if set(names) - used <= emptied:
                        continue
                    missing = sorted(names[l] for l in set(names) - used)
                    bad = (y, "a leaf built after the partition holds `%s` only: the points of `%s` are in no leaf" % (", ".join(sorted(names[l] for l in used)), ", ".join(missing)))
            elif vn == "Branch":
                if recursed != set(names):
                    missing = sorted(names[l] for l in set(names) - recursed)
                    bad = (y, "a branch is built although `%s` is not handed to a recursive build" % ", ".join(missing))
        if bad is None:
            res.ok()
        else:
            res.violate("%s : points-dropped" % key, bad[1] + ": no query can return them", fn_loc(fn, bad[0].get("ln")))
    if n < 1:
        res.missing_anchor("a builder in linfa-nn that partitions its points")
    return res.finish(1)


def rule_staletop(ctx):
    """The pruning tests of a k-nearest search compare with the *current* worst candidate (`out.peek()`).  A copy of that value
    taken before a loop that pushes into / pops from the same heap is the worst candidate of an earlier state: once the heap
    changed, points are rejected (or kept) against a bound that no longer holds."""
    from .layout import with_parents
    res = RuleResult("R-C07-staletop", "no value read off the top of a heap (peek / last / first) before a loop is used inside that loop after the loop pushed to or popped from the same heap")
    F = ctx.facts()
    n = 0
    for fn in nn_fns(F):
        c = fn["crate"]
        key = fn_key(fn)
        tops = []
        for y, anc in with_parents(fn["body"]):
            if y.get("k") == "LetStmt" and y.get("init") is not None and y["pat"].get("k") == "Bind":
                src = None
                for z in walk(y["init"]):
                    if z.get("k") == "MethodCall" and z["name"] in ("peek", "last", "first") and not z["args"]:
                        r0 = peel_refs(z["recv"])
                        if r0.get("k") == "Path" and "local" in r0:
                            src = r0
                if src is not None:
                    tops.append((y, src, anc))
        if not any(z.get("k") == "MethodCall" and z["name"] in ("peek", "peek_mut") for z in walk(fn["body"])):
            continue
        n += 1
        res.instance("%s : %d copies of a heap top" % (key, len(tops)))
        bad = None
        for y, src, anc in tops:
            v = y["pat"]["local"]
            for lp, lanc in with_parents(fn["body"]):
                if lp.get("k") != "Loop" or any(a is lp for a in anc):
                    continue          # the copy is taken inside this loop: refreshed every iteration
                if (lp.get("ln") or 0) < (y.get("ln") or 0):
                    continue
                uses = any(z.get("k") == "Path" and z.get("local") == v for z in walk(lp))
                muts = [z for z in walk(lp) if z.get("k") == "MethodCall" and z["name"] in ("push", "pop", "peek_mut", "clear", "insert", "remove", "append", "extend") and peel_refs(z["recv"]).get("local") == src["local"]]
                if uses and muts:
                    bad = (y, src, muts[0])
        if bad is None:
            res.ok()
        else:
            res.violate("%s : stale-heap-top:%s" % (key, bad[0]["pat"].get("name")), "`%s` is read off the top of `%s` before a loop that calls `%s.%s(..)` (line %s) and is used inside that loop: after the first change of the heap it is no longer its top" % (bad[0]["pat"].get("name"), bad[1].get("name"), bad[1].get("name"), bad[2]["name"], bad[2].get("ln")), fn_loc(fn, bad[0].get("ln")))
    if n < 1:
        res.missing_anchor("functions of linfa-nn that look at the top of a heap")
    return res.finish(1)


rule_memorder = layout.make_rule("R-C07-memorder", "raw memory-order buffers (as_slice_memory_order, into_raw_vec, as_ptr) of stored point batches are used by position only behind an is_standard_layout() test", lambda f: f["d"]["krate"] == "linfa_nn", "linfa-nn")

def rule_noint(ctx):
    """'answers ... for every query': a query goes through `&self`, so without interior mutability in the index types one
    query cannot change the answer to the next (a scratch buffer behind a Mutex / RefCell that is not reset on an error
    path does exactly that)."""
    from .c03 import INTERIOR
    res = RuleResult("R-C07-noint", "the nearest-neighbour index types (implementors of NearestNeighbourIndex) contain no interior mutability: queries through &self are independent of one another")
    F = ctx.facts()
    adts = {}
    for c in F.crates.values():
        for a in c.adts:
            adts[(c.name, a["path"])] = a
            adts.setdefault(("*", a["path"].split("::")[-1]), a)
    idx = set()
    for fn in F.all_fns():
        d = fn["d"]
        if d["krate"] == "linfa_nn" and (d.get("trait") or "").endswith("NearestNeighbourIndex") and d.get("self_adt"):
            idx.add((d["krate"], d["self_adt"]))
    for (crate, path) in sorted(idx):
        a = adts.get((crate, path))
        inst = "%s::%s" % (crate, path.split("::")[-1])
        res.instance(inst)
        if a is None:
            res.undecided("%s : adt-not-found" % inst, "index type not found among the crate's ADTs (fail closed)")
            continue
        bad = []
        seen = set()

        def scan(adt, depth=0):
            if id(adt) in seen or depth > 4:
                return
            seen.add(id(adt))
            for v in adt["variants"]:
                for f in v["fields"]:
                    t = f["ty"]
                    for marker in INTERIOR:
                        if marker in t:
                            bad.append("%s.%s: %s" % (adt["path"].split("::")[-1], f["name"], t[:60]))
                    for m_ in re.finditer(r"([\w:]+)<|([\w:]+)", t):
                        nm = (m_.group(1) or m_.group(2)).split("::")[-1]
                        sub = adts.get(("*", nm))
                        if sub is not None and sub is not adt:
                            scan(sub, depth + 1)
        scan(a)
        if bad:
            res.violate("%s : interior-mutability" % inst, "the index type reaches interior mutability (%s): a query through &self can leave state behind that changes the answer to later queries" % "; ".join(bad[:3]))
        else:
            res.ok()
    if len(idx) < 3:
        res.missing_anchor("implementors of NearestNeighbourIndex in linfa-nn (found %d)" % len(idx))
    return res.finish(3)


def rule_dispatch(ctx):
    """CommonNearestNeighbour selects an index kind by name; every arm of its dispatcher builds the kind it is named
    after.  (All kinds answer alike on ordinary data - that is the property - so a copy-pasted arm only shows where the
    kinds legitimately differ: layout requirements, cost.)"""
    res = RuleResult("R-C07-dispatch", "every arm of CommonNearestNeighbour's dispatcher builds the index kind of its own variant")
    F = ctx.facts()
    fns = [f for f in F.find_fns(name="from_batch_with_leaf_size", krate="linfa_nn") if (f["d"].get("self_adt") or "").endswith("CommonNearestNeighbour")]
    if not fns:
        res.missing_anchor("<CommonNearestNeighbour as NearestNeighbour>::from_batch_with_leaf_size")
    # `from_batch` is a provided method of the trait (it calls from_batch_with_leaf_size); an impl that writes its own is a
    # second dispatcher
    extra = [f for f in F.find_fns(name="from_batch", krate="linfa_nn") if (f["d"].get("self_adt") or "").endswith("CommonNearestNeighbour")]
    for fn in fns + extra:
        c = fn["crate"]
        key = fn_key(fn)
        n = 0
        for y in walk(fn["body"]):
            if y.get("k") != "Match" or y.get("src", "Normal") != "Normal":
                continue
            for a in y["arms"]:
                pat = a["pat"]
                while pat.get("k") == "Ref":
                    pat = pat.get("pat")
                vname = (c.dfn(pat.get("def")) or {}).get("name") if pat.get("k") in ("Path", "TupleStruct", "Struct") else None
                if not vname:
                    continue
                built = set()
                for z in walk(a["body"]):
                    if z.get("k") == "MethodCall" and z["name"] in ("from_batch_with_leaf_size", "from_batch"):
                        t = c.ty(peel_refs(z["recv"]).get("t")) or ""
                        built.add(t.split("::")[-1].split("<")[0])
                    if z.get("k") == "Call" and strip(z["f"]).get("k") == "Path":
                        d = c.dfn(strip(z["f"]).get("def")) or {}
                        if d.get("name") == "new" and (d.get("self_adt") or "").endswith("Index"):
                            built.add(d["self_adt"].split("::")[-1].replace("Index", "").replace("Search", "Search"))
                if not built:
                    continue
                n += 1
                res.instance("%s : arm %s builds %s" % (key, vname, sorted(built)))
                if any(b == vname or b.startswith(vname) for b in built):
                    res.ok()
                else:
                    res.violate("%s : arm-builds-other-kind:%s" % (key, vname), "the `%s` arm builds a `%s` index: selecting one kind silently gives another" % (vname, sorted(built)[0]), fn_loc(fn, a["body"].get("ln")))
        if n < 3 and fn in fns:
            res.missing_anchor("arms of the CommonNearestNeighbour dispatcher (found %d)" % n)
    return res.finish(3)


def rule_convpair(ctx):
    """`rdistance`, `dist_to_rdist` and `rdist_to_dist` describe one reduced scale: the provided methods are the identity
    scale (rdistance = distance).  An impl that overrides one of them leaves that scale; it then overrides all three, or
    the ball tree's radii (rdist_to_dist of a reduced distance) and the range bounds (dist_to_rdist) are on two scales."""
    res = RuleResult("R-C07-convpair", "an impl of Distance that overrides one of rdistance / dist_to_rdist / rdist_to_dist overrides all three")
    F = ctx.facts()
    impls = {}
    for fn in F.all_fns():
        d = fn["d"]
        if d["krate"] == "linfa_nn" and (d.get("trait") or "").split("<")[0].split("::")[-1] == "Distance" and d.get("pk") != "trait" and "tests" not in d["path"]:
            impls.setdefault(d.get("self_adt") or fn["inputs"][0], []).append(fn)
    if len(impls) < 4:
        res.missing_anchor("impls of Distance in linfa-nn (found %d)" % len(impls))
    TRIO = ("rdistance", "dist_to_rdist", "rdist_to_dist")
    for adt, fns in sorted(impls.items(), key=lambda kv: str(kv[0])):
        names = {f["d"]["name"] for f in fns}
        res.instance("%s : overrides %s" % (str(adt).split("::")[-1], sorted(names & set(TRIO))))
        have = names & set(TRIO)
        if have and have != set(TRIO):
            miss = sorted(set(TRIO) - have)
            res.violate("%s : reduced-scale-half-overridden:%s" % (str(adt).split("::")[-1], ",".join(miss)), "the impl overrides %s but not %s: the missing ones fall back to the identity conversion of the trait, so reduced distances and converted bounds are on different scales (the ball tree computes its radii with rdist_to_dist)" % (sorted(have), miss), fn_loc(fns[0]))
        else:
            res.ok()
    return res.finish(4)


def rule_signedpower(ctx):
    """|a - b|^p: the absolute value comes before the power.  `(a - b).powi(p)` of the signed difference is the same for even
    p and negative for odd p and a < b - a "fast path for whole-number exponents" that drops the abs() makes L3, L5 ..
    distances NaN or wrong while every test (p = 2, p fractional) passes."""
    res = RuleResult("R-C07-signedpower", "in the Distance impls a power of a coordinate difference is taken of its absolute value (or with a literal even exponent)")
    F = ctx.facts()
    n = 0
    for fn in nn_fns(F):
        d = fn["d"]
        if (d.get("trait") or "").split("<")[0].split("::")[-1] != "Distance" or d["name"] not in ("distance", "rdistance"):
            continue
        c = fn["crate"]
        r = Render(c)
        key = fn_key(fn)
        for y in walk(fn["body"]):
            if y.get("k") != "MethodCall" or y["name"] not in ("powi", "powf", "pow"):
                continue
            base = peel_refs(y["recv"])
            while base.get("k") in ("Paren", "DropTemps"):
                base = peel_refs(base["e"])
            if base.get("k") != "Binary" or base["op"] != "-":
                continue
            n += 1
            res.instance("%s : `%s`" % (key, r.e(y)[:40]))
            ex = peel_refs(y["args"][0]) if y["args"] else {}
            vv = str(ex.get("v", ""))
            for suf in ("i32", "f32", "f64", "_"):
                vv = vv.replace(suf, "")
            even_lit = ex.get("k") == "Lit" and vv in ("2", "4", "6", "2.0", "4.0", "6.0", "2.", "4.", "6.")
            if even_lit:
                res.ok()
            else:
                res.violate("%s : power-of-signed-difference" % key, "`%s` raises the signed coordinate difference to a power that is not a literal even number: for odd exponents negative differences enter the sum negatively - the distance is wrong or NaN" % r.e(y)[:50], fn_loc(fn, y.get("ln")))
    res.instance("%d powers of raw coordinate differences in the Distance impls" % n)
    res.ok()
    return res.finish(1)


def rule_capacity(ctx):
    """'k larger than the number of points returns all points': the requested count is any usize.  Memory reserved up
    front for the answer is sized by what can be returned (the number of points), never by the requested count itself -
    `with_capacity(k)` aborts with a capacity overflow for the very requests the property speaks about."""
    res = RuleResult("R-C07-capacity", "no allocation in linfa-nn is sized by a caller-supplied count alone (a usize parameter not bounded by a `.min(..)`)")
    F = ctx.facts()
    n = 0
    for fn in nn_fns(F):
        c = fn["crate"]
        r = Render(c)
        key = fn_key(fn)
        params = {}
        for p_, ty in zip(fn["params"], fn["inputs"]):
            if ty.strip() == "usize":
                for b in pat_bindings(p_):
                    params[b["local"]] = b["name"]
        for y in walk(fn["body"]):
            args = None
            if y.get("k") == "Call" and strip(y["f"]).get("k") == "Path":
                d = c.dfn(strip(y["f"]).get("def")) or {}
                if d.get("name") in ("with_capacity", "with_capacity_in") and d.get("krate") in ("alloc", "std", "core", "hashbrown") and len(y["args"]) >= 1:
                    args = y["args"][:1]
            elif y.get("k") == "MethodCall" and y["name"] in ("reserve", "reserve_exact", "try_reserve") and (c.dfn(y.get("def")) or {}).get("krate") in ("alloc", "std", "core", "hashbrown"):
                args = y["args"][:1]
            if not args:
                continue
            n += 1
            res.instance("%s : `%s`" % (key, r.e(y)[:50]))
            a = args[0]
            uses = [z for z in walk(a) if z.get("k") == "Path" and z.get("local") in params]
            bounded = any(z.get("k") == "MethodCall" and z["name"] in ("min", "clamp") for z in walk(a))
            if uses and not bounded:
                res.violate("%s : allocation-sized-by-requested-count:%s" % (key, params[uses[0]["local"]]), "`%s` reserves memory for `%s` elements, a count the caller chooses freely: a request for more neighbours than there are points (the property's own case, up to usize::MAX) aborts instead of returning all points" % (r.e(y)[:50], params[uses[0]["local"]]), fn_loc(fn, y.get("ln")))
            else:
                res.ok()
    if n < 1:
        res.missing_anchor("up-front allocations in linfa-nn (found %d)" % n)
    return res.finish(1)


rule_address = None


def _address_rule():
    global rule_address
    if rule_address is None:
        from . import addrshortcut
        rule_address = addrshortcut.make_rule("R-C07-address", lambda f: f["d"]["krate"] == "linfa_nn", "linfa-nn (the queries of the indices)")
    return rule_address


# sites where non-emptiness follows from something this rule does not read; one line of reason each
EMPTYUNWRAP_TABLE = {
    ("partition", "right", "pop"): "the points handed to partition are non-empty (build rejects an empty batch, leaves stop the recursion) and `left` is empty in this branch, so `right` holds all of them",
}


def rule_emptyunwrap(ctx):
    """k ranges from 0: `heap.peek().unwrap()` (peek_mut / pop / first / last) panics on an empty container.  Each such
    unwrap in linfa-nn needs evidence that the container is non-empty there: an emptiness / length test on the path (the
    polarity of `if`, `&&` and `||` is followed), a range bounded by the container's own length, or a push that dominates
    it.  A length test against a *variable* (`len >= k`, the else-branch of `len < k`) is such evidence only where that
    variable is known to be positive - an earlier `k == 0` exit - otherwise the query with k = 0 panics instead of
    returning no points."""
    from .taint import parent_map
    res = RuleResult("R-C07-emptyunwrap", "every unwrap of peek / peek_mut / pop / first / last on a container in linfa-nn is reached only where the container is non-empty, also for k = 0")
    F = ctx.facts()
    n = 0
    TAKE = ("peek", "peek_mut", "pop", "first", "last", "first_mut", "last_mut", "pop_front", "pop_back", "front", "back")
    for fn in F.all_fns():
        d = fn["d"]
        if d["krate"] != "linfa_nn" or fn.get("exp") or fn.get("body") is None or "tests" in (d.get("path") or "") or "test" in fn_file(fn).split("/")[-1]:
            continue
        c = fn["crate"]
        r = Render(c)
        pm = None
        for y in walk(fn["body"]):
            if not (y.get("k") == "MethodCall" and y["name"] in ("unwrap", "expect")):
                continue
            t = peel_refs(y["recv"])
            if not (t.get("k") == "MethodCall" and t["name"] in TAKE):
                continue
            h = peel_refs(t["recv"])
            if not (h.get("k") == "Path" and "local" in h):
                continue
            if pm is None:
                pm = parent_map(fn["body"])
            H = h["local"]
            n += 1
            key = fn_key(fn)
            inst = "%s : `%s.%s().%s()`" % (key, h.get("name"), t["name"], y["name"])
            res.instance(inst)

            def is_len(e):
                e = peel_refs(e)
                return e.get("k") == "MethodCall" and e["name"] == "len" and peel_refs(e["recv"]).get("local") == H

            def lit(e):
                e = peel_refs(e)
                if e.get("k") == "Lit" and e.get("lk") == "int":
                    return int(e["v"])
                return None

            def facts_of(cond, holds):
                """-> list of ('nonempty',) / ('ge', <expr>) facts about H that follow from cond == holds"""
                cond = strip(cond)
                while cond.get("k") == "Unary" and cond.get("op") == "!":
                    cond, holds = strip(cond["e"]), not holds
                if cond.get("k") == "Binary" and cond["op"] == "&&":
                    return (facts_of(cond["l"], True) + facts_of(cond["r"], True)) if holds else []
                if cond.get("k") == "Binary" and cond["op"] == "||":
                    return (facts_of(cond["l"], False) + facts_of(cond["r"], False)) if not holds else []
                if cond.get("k") == "MethodCall" and cond["name"] == "is_empty" and peel_refs(cond["recv"]).get("local") == H:
                    return [("nonempty",)] if not holds else []
                if cond.get("k") == "Binary" and cond["op"] in ("<", "<=", ">", ">=", "==", "!="):
                    l, r_, op = cond["l"], cond["r"], cond["op"]
                    if is_len(r_) and not is_len(l):
                        l, r_ = r_, l
                        op = {"<": ">", "<=": ">=", ">": "<", ">=": "<=", "==": "==", "!=": "!="}[op]
                    if not is_len(l):
                        return []
                    if not holds:
                        op = {"<": ">=", "<=": ">", ">": "<=", ">=": "<", "==": "!=", "!=": "=="}[op]
                    v = lit(r_)
                    if v is not None:
                        if (op == ">" and v >= 0) or (op == ">=" and v >= 1) or (op == "!=" and v == 0) or (op == "==" and v >= 1):
                            return [("nonempty",)]
                        return []
                    if op in (">=", "==", ">"):
                        return [("nonempty",)] if op == ">" else [("ge", r_)]
                return []

            facts = []
            child, a = y, pm.get(id(y))
            bounded = False
            while a is not None:
                kk = a.get("k")
                if kk == "If":
                    if child is a.get("then"):
                        facts += facts_of(a["c"], True)
                    elif child is a.get("else"):
                        facts += facts_of(a["c"], False)
                elif kk == "Binary" and a["op"] in ("&&", "||") and child is a.get("r"):
                    facts += facts_of(a["l"], a["op"] == "&&")
                elif kk == "Closure":
                    call = pm.get(id(a))
                    if call is not None and call.get("k") == "MethodCall" and call["name"] in ("map", "for_each", "filter_map"):
                        rng = peel_refs(call["recv"])
                        if any(is_len(z) for z in walk(rng)) and any(z.get("k") in ("Range", "Struct") or (z.get("k") == "Call") for z in [rng]):
                            bounded = True
                elif kk == "Block":
                    # a push onto H in an earlier statement of this block, with no pop in between
                    pushed = False
                    for st in a.get("stmts", []):
                        if st is child or any(z is child for z in walk(st)):
                            break
                        for z in walk(st):
                            if z.get("k") == "MethodCall" and peel_refs(z["recv"]).get("local") == H:
                                if z["name"] in ("push", "push_back", "push_front", "insert"):
                                    pushed = True
                                elif z["name"] in ("pop", "clear", "truncate", "drain", "pop_front", "pop_back", "remove"):
                                    pushed = False
                    if pushed:
                        facts.append(("nonempty",))
                child, a = a, pm.get(id(a))
            if bounded or ("nonempty",) in facts:
                res.ok()
                continue
            ge = [f_[1] for f_ in facts if f_[0] == "ge"]
            if ge:
                # len >= K: K has to be positive here
                K = peel_refs(ge[0])
                kname = r.e(K)[:30]
                positive = False
                if K.get("k") == "Path" and "local" in K:
                    KL = K["local"]

                    def zero_test(cond, holds):
                        """cond == holds implies K != 0"""
                        cond = strip(cond)
                        while cond.get("k") == "Unary" and cond.get("op") == "!":
                            cond, holds = strip(cond["e"]), not holds
                        if cond.get("k") == "Binary" and cond["op"] == "||" and not holds:
                            return zero_test(cond["l"], False) or zero_test(cond["r"], False)
                        if cond.get("k") == "Binary" and cond["op"] == "&&" and holds:
                            return zero_test(cond["l"], True) or zero_test(cond["r"], True)
                        if cond.get("k") == "Binary" and cond["op"] in ("==", "!=", ">", "<", ">=", "<="):
                            l, r_ = peel_refs(cond["l"]), peel_refs(cond["r"])
                            op = cond["op"]
                            if r_.get("local") == KL and lit(l) is not None:
                                l, r_ = r_, l
                                op = {"<": ">", "<=": ">=", ">": "<", ">=": "<=", "==": "==", "!=": "!="}[op]
                            if l.get("local") == KL and lit(r_) is not None:
                                v = lit(r_)
                                if not holds:
                                    op = {"<": ">=", "<=": ">", ">": "<=", ">=": "<", "==": "!=", "!=": "=="}[op]
                                return (op == "!=" and v == 0) or (op == ">" and v >= 0) or (op == ">=" and v >= 1)
                        return False
                    child, a = y, pm.get(id(y))
                    while a is not None and not positive:
                        if a.get("k") == "If":
                            if child is a.get("then") and zero_test(a["c"], True):
                                positive = True
                            if child is a.get("else") and zero_test(a["c"], False):
                                positive = True
                        if a.get("k") == "Block":
                            for st in a.get("stmts", []):
                                if st is child or any(z is child for z in walk(st)):
                                    break
                                e_ = st.get("e") if st.get("k") == "Semi" else st
                                e_ = strip(e_) if isinstance(e_, dict) else {}
                                if e_.get("k") == "If" and not e_.get("else") and any(z.get("k") == "Ret" for z in walk(e_["then"])) and zero_test(e_["c"], False):
                                    positive = True
                        child, a = a, pm.get(id(a))
                if positive:
                    res.ok()
                else:
                    res.violate("%s : unwrap-on-empty-when-zero:%s.%s" % (key, h.get("name"), t["name"]), "`%s.%s().%s()` is reached where `%s.len()` is only known to be at least `%s`, and nothing on the path makes `%s` positive: with %s = 0 the container is empty and the query panics instead of returning no points" % (h.get("name"), t["name"], y["name"], h.get("name"), kname, kname, kname), fn_loc(fn, y.get("ln")))
                continue
            why = EMPTYUNWRAP_TABLE.get((d["name"], h.get("name"), t["name"]))
            if why:
                res.ok()
                res.info.append("table: %s — %s" % (inst, why))
            else:
                res.undecided("%s : nonempty-not-established:%s.%s" % (key, h.get("name"), t["name"]), "no emptiness or length test, bounded range or dominating push was found on the path to `%s.%s().%s()` (fail closed)" % (h.get("name"), t["name"], y["name"]), fn_loc(fn, y.get("ln")))
    if n < 3:
        res.missing_anchor("unwraps of peek / pop / first / last in linfa-nn (found %d)" % n)
    return res.finish(3)


def rules(tier):
    from . import precision
    return [_address_rule(), rule_unit, rule_sib, rule_edge, rule_degree, rule_memorder, rule_cover, rule_conserve, rule_staletop, rule_emptyunwrap, rule_direct,
            precision.make_rule("R-C07-precision", lambda f: f["d"]["krate"] == "linfa_nn", 30, "linfa-nn"), rule_noint, rule_dispatch, rule_capacity, rule_convpair, rule_signedpower]
