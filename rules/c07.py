"""C07 — nearest-neighbour indices: unit discipline, sibling argument checks, agreement at the radius."""
import re

from .core import RuleResult
from .facts import fn_key, fn_loc, walk, strip, peel_refs, pat_bindings, Render
from .sym import Tracer, Term, Cmp, k, as_term, walk_terms
from .units import Units

LEVEL = ("Static analysis of linfa-nn (and of the `within`/`nearest` routines of the kdtree crate at the version locked by "
         "Cargo.lock, extracted with the same compiler driver): (unit) distances and reduced distances are never mixed in a "
         "comparison, min/max, sum or conversion - tags come from the Distance trait's own methods and flow through locals, "
         "heaps, struct fields and calls; (sib) the three index kinds perform the same build checks (leaf size, dimension) and "
         "reject queries of the wrong dimension; (edge) the relation that admits a point at distance exactly `range` is the "
         "same in all three kinds. Necessary conditions of 'pruning bounds use the right metric conversion', 'malformed "
         "builds/queries are errors' and 'the kinds agree on points exactly on the radius'. Geometric sufficiency of the "
         "pruning bounds and k-NN tie handling are not decided.")
ASSUME = ["rustc resolution/typeck; HIR faithfully dumped", "Distance::{distance, rdistance, dist_to_rdist, rdist_to_dist} are implemented consistently by each metric",
          "kdtree's nearest_step is the only place where `within` admits points (read from the locked version's typed HIR)"]


def nn_fns(F):
    return [f for f in F.all_fns() if f["d"]["krate"] == "linfa_nn"]


def rule_unit(ctx):
    res = RuleResult("R-C07-unit", "dist and rdist values are never mixed (comparisons, min/max, sums, conversions, heap keys, call arguments)")
    F = ctx.facts()
    fns = nn_fns(F)
    seeds = {}
    for f in fns:
        if f["d"]["name"] == "within_range":
            for i, p in enumerate(f["params"]):
                if p.get("k") == "Bind" and p["name"] == "range":
                    seeds[((f["d"]["krate"], f["d"].get("raw")), i)] = "dist"
    U = Units(fns, {(raw, i): t for (raw, i), t in seeds.items()}).run()
    for i in range(U.sites):
        pass
    tagged = sorted("%s -> %s" % (fn_key(U.by_raw[r]), t) for r, t in U.ret.items())
    for t in tagged:
        res.instance("return unit: " + t)
    for (raw, i), t in sorted(U.param.items(), key=lambda x: (fn_key(U.by_raw[x[0][0]]), x[0][1])):
        f = U.by_raw[raw]
        pn = f["params"][i].get("name", "#%d" % i) if i < len(f["params"]) else "#%d" % i
        res.instance("parameter unit: %s(%s) -> %s" % (fn_key(f), pn, t))
    for name, t in sorted(U.field.items()):
        res.instance("field unit: %s -> %s" % (name, t))
    res.obligations += U.sites
    res.discharged += U.sites - len(U.viol)
    res.info.append("%d unit-sensitive sites (comparisons, min/max, sums, conversions, calls) checked" % U.sites)
    res.sample({"returns": tagged[:6], "fields": U.field})
    for key, (fn, msg, ln) in sorted(U.viol.items()):
        res.violations.append(__import__("rules.core", fromlist=["Violation"]).Violation("R-C07-unit", key, msg, fn_loc(fn, ln)))
    return res.finish(8)


def build_checks(F, fn, depth=0, seen=None):
    """(error variant, canonical guard) pairs returned on the way from a builder entry."""
    seen = seen if seen is not None else set()
    if id(fn) in seen or depth > 3:
        return set()
    seen.add(id(fn))
    out = set()
    tr = Tracer(fn).run()
    # Err values in tail position of if/else chains are the function's value, not `ret` events: look at guards of struct-free Err calls
    for e in tr.events:
        if e.kind == "call" and e.name == "Err" and e.args:
            v = as_term(e.args[0])
            if v is not None and v.op.startswith("def:"):
                variant = v.op.split("::")[-1]
                conds = []
                for g in e.guards:
                    if g[0] == "+":
                        conds.append(re.sub(r"param:\w+", "P", re.sub(r"call:(ncols|len|nrows)\((.*?)\)", r"\1", g[1])))
                out.add((variant, conds[-1] if conds else ""))
    c = fn["crate"]
    for n in walk(fn["body"]):
        d = None
        if n.get("k") == "Call":
            f = strip(n["f"])
            d = c.dfn(f.get("def")) if f.get("k") == "Path" else None
        elif n.get("k") == "MethodCall":
            d = c.dfn(n.get("def"))
        if d and d["krate"] == "linfa_nn":
            for g in F.find_fns(name=d["name"], krate="linfa_nn"):
                if g["d"].get("raw") == d.get("raw"):
                    out |= build_checks(F, g, depth + 1, seen)
    return out


def rule_sib(ctx):
    res = RuleResult("R-C07-sib", "the three index kinds perform the same build checks and reject wrong-dimension queries")
    F = ctx.facts()
    builders = [f for f in F.find_fns(name="from_batch_with_leaf_size", krate="linfa_nn") if (f["d"].get("self_adt") or "").split("::")[-1] in ("LinearSearch", "KdTree", "BallTree")]
    if len(builders) != 3:
        res.missing_anchor("from_batch_with_leaf_size of LinearSearch/KdTree/BallTree (found %d)" % len(builders))
    sets = {}
    for fn in builders:
        kind = fn["d"]["self_adt"].split("::")[-1]
        cs = build_checks(F, fn)
        sets[kind] = set(v for v, _ in cs)
        res.instance("%s build checks: %s" % (kind, sorted(cs)))
        for want in ("EmptyLeaf", "ZeroDimension"):
            if want in sets[kind]:
                res.ok()
            else:
                res.violate("%s : build-check-missing:%s" % (kind, want), "%s::from_batch_with_leaf_size no longer returns BuildError::%s (the sibling index kinds do)" % (kind, want), fn_loc(fn))
    # queries
    for kind, adt in (("LinearSearch", "LinearSearchIndex"), ("BallTree", "BallTreeIndex")):
        for q in ("k_nearest", "within_range"):
            fns = [f for f in F.find_fns(name=q, krate="linfa_nn") if (f["d"].get("self_adt") or "").endswith(adt)]
            if not fns:
                res.missing_anchor("%s::%s" % (adt, q))
                continue
            cs = build_checks(F, fns[0])
            res.instance("%s::%s dimension check: %s" % (adt, q, sorted(cs)))
            if any(v == "WrongDimension" and ("!=" in g or "==" in g) for v, g in cs):
                res.ok()
            else:
                res.violate("%s::%s : dimension-check-missing" % (adt, q), "%s::%s does not return NnError::WrongDimension for a query of the wrong length" % (adt, q), fn_loc(fns[0]))
    # k-d tree: `?` on the kdtree result + the dependency checks the point first
    for q, dep in (("k_nearest", "nearest"), ("within_range", "within")):
        fns = [f for f in F.find_fns(name=q, krate="linfa_nn") if (f["d"].get("self_adt") or "").endswith("KdTreeIndex")]
        if not fns:
            res.missing_anchor("KdTreeIndex::%s" % q)
            continue
        tr = Tracer(fns[0]).run()
        res.instance("KdTreeIndex::%s propagates kdtree::%s errors" % (q, dep))
        if any(e.kind == "try" and as_term(e.val) is not None and as_term(e.val).is_call(dep) for e in tr.events):
            res.ok()
        else:
            res.violate("KdTreeIndex::%s : kdtree-error-dropped" % q, "the Result of kdtree::%s is not propagated with `?`" % dep, fn_loc(fns[0]))
    D = ctx.facts("dep-kdtree")
    if D is None:
        res.violate("kdtree : dependency-facts", "cannot extract facts of the locked kdtree dependency")
    else:
        for dep in ("nearest", "within"):
            fns = [f for f in D.all_fns() if f["d"]["name"] == dep and (f["d"].get("self_adt") or "").endswith("KdTree")]
            res.instance("kdtree::KdTree::%s checks the query point first" % dep)
            if not fns:
                res.missing_anchor("kdtree::KdTree::%s" % dep)
                continue
            tr = Tracer(fns[0]).run()
            calls = [e for e in tr.events if e.kind == "call" and e.name not in ("branch", "from_residual")]
            propagated = any(e.kind == "try" and as_term(e.val) is not None and as_term(e.val).is_call("check_point") for e in tr.events) or \
                any(e.kind == "ret" and any("call:check_point" in g[1] and g[1].startswith("let Err") for g in e.guards) for e in tr.events)
            if calls and calls[0].name == "check_point" and propagated:
                res.ok()
            else:
                res.violate("kdtree::%s : no-point-check" % dep, "the locked kdtree version does not validate the query point first", fn_loc(fns[0]))
    return res.finish(11)


CANON = {"<": "<", "<=": "<=", ">": "<", ">=": "<="}


def admit_relation(c, cond_nodes, dist_pred, bound_pred):
    """Relation `d OP bound` under which a point is admitted, from candidate comparison nodes."""
    r = Render(c)
    for n in cond_nodes:
        if n.get("k") != "Binary" or n["op"] not in CANON:
            continue
        l, rr = r.e(n["l"]), r.e(n["r"])
        if dist_pred(l) and bound_pred(rr) and n["op"] in ("<", "<="):
            return n["op"], n
        if dist_pred(rr) and bound_pred(l) and n["op"] in (">", ">="):
            return CANON[n["op"]], n
    return None, None


def rule_edge(ctx):
    res = RuleResult("R-C07-edge", "all three index kinds admit a point at distance exactly `range` under the same relation")
    F = ctx.facts()
    rel = {}
    locs = {}
    # linear: predicate of the filter in within_range
    fns = [f for f in F.find_fns(name="within_range", krate="linfa_nn") if (f["d"].get("self_adt") or "").endswith("LinearSearchIndex")]
    if not fns:
        res.missing_anchor("LinearSearchIndex::within_range")
    for fn in fns:
        c = fn["crate"]
        conds = []
        for n in walk(fn["body"]):
            if n.get("k") == "MethodCall" and n["name"] == "filter" and n["args"]:
                conds += [x for x in walk(n["args"][0]) if x.get("k") == "Binary"]
        op, node = admit_relation(c, conds, lambda s: "rdistance(" in s, lambda s: "range" in s)
        rel["LinearSearch"] = op
        locs["LinearSearch"] = fn_loc(fn, node["ln"]) if node else fn_loc(fn)
    # ball tree: guard of the push into the result heap, against the radius parameter
    fns = [f for f in F.find_fns(name="nn_helper", krate="linfa_nn")]
    if not fns:
        res.missing_anchor("BallTreeIndex::nn_helper")
    for fn in fns:
        c = fn["crate"]
        conds = []
        for n in walk(fn["body"]):
            if n.get("k") == "If" and any(x.get("k") == "MethodCall" and x["name"] == "push" and peel_refs(x["recv"]).get("name") == "out" for x in walk(n["then"])):
                conds += [x for x in walk(n["c"]) if x.get("k") == "Binary"]
        op, node = admit_relation(c, conds, lambda s: s.strip("*&() ") == "dist", lambda s: "max_radius" in s)
        rel["BallTree"] = op
        locs["BallTree"] = fn_loc(fn, node["ln"]) if node else fn_loc(fn)
    # k-d tree: the locked dependency's admission test, intersected with linfa's own post-filter
    D = ctx.facts("dep-kdtree")
    kd_dep = None
    if D is not None:
        for fn in [f for f in D.all_fns() if f["d"]["name"] == "nearest_step"]:
            c = fn["crate"]
            conds = []
            for n in walk(fn["body"]):
                if n.get("k") == "If" and any(x.get("k") == "MethodCall" and x["name"] == "push" and peel_refs(x["recv"]).get("name") == "evaluated" for x in walk(n["then"])):
                    conds += [x for x in walk(strip(n["c"])) if x.get("k") == "Binary"][:1]
            op, node = admit_relation(c, conds, lambda s: "element" in s, lambda s: "max_dist" in s)
            kd_dep = op
            res.info.append("kdtree (locked version) nearest_step admits `element %s max_dist` at %s" % (op, fn_loc(fn, node["ln"]) if node else "?"))
    fns = [f for f in F.find_fns(name="within_range", krate="linfa_nn") if (f["d"].get("self_adt") or "").endswith("KdTreeIndex")]
    if not fns:
        res.missing_anchor("KdTreeIndex::within_range")
    for fn in fns:
        c = fn["crate"]
        conds = []
        for n in walk(fn["body"]):
            if n.get("k") == "MethodCall" and n["name"] == "filter" and n["args"]:
                clo = strip(n["args"][0])
                if clo.get("k") == "Closure":
                    conds += [x for x in walk(clo["body"]) if x.get("k") == "Binary"]
        post, node = admit_relation(c, conds, lambda s: "dist" in s, lambda s: "range" in s)
        eff = kd_dep
        if post == "<" or kd_dep == "<":
            eff = "<" if kd_dep is not None else None
        rel["KdTree"] = eff
        locs["KdTree"] = fn_loc(fn, node["ln"]) if node else fn_loc(fn)
        res.info.append("KdTreeIndex::within_range post-filter: %s; effective relation: d %s range" % (("dist %s range" % post) if post else "none", eff))
    for kind in ("LinearSearch", "BallTree", "KdTree"):
        res.instance("%s admits a point iff rdist %s rdist(range)" % (kind, rel.get(kind)))
        if rel.get(kind) is None:
            res.violate("%s : admission-test-not-found" % kind, "cannot find the comparison that admits a point into the range-query result (fail closed)", locs.get(kind))
    vals = set(v for v in rel.values() if v)
    if len(rel) == 3 and all(rel.values()):
        if len(vals) == 1:
            res.ok()
            res.sample({"relation": "d %s range" % list(vals)[0], "kinds": sorted(rel)})
        else:
            odd = [kk for kk, v in rel.items() if list(rel.values()).count(v) == 1]
            res.violate("linfa_nn : radius-strictness:%s" % ",".join("%s%s" % (kk, rel[kk]) for kk in sorted(rel)),
                        "index kinds disagree on points exactly on the radius: %s (a point at distance == range is returned by some kinds and not by others, which also makes DBSCAN/OPTICS depend on the index)" % rel,
                        locs.get(odd[0]) if odd else None)
    return res.finish(3)


def rules(tier):
    return [rule_unit, rule_sib, rule_edge]
