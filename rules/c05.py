"""C05 - evaluation metrics: the structural clauses of 'every metric equals its definition'.

The property equates returned numbers with textbook formulas over unbounded inputs; as a whole it needs the formula as
an oracle.  Decided here are the clauses that are relations *between pieces of the code* (who delegates to whom, which
axis of the confusion matrix is which, which pairs are enumerated) and one dimensional-analysis rule: a metric's formula
combines terms of equal degree in the data."""
import re
from fractions import Fraction
from .core import RuleResult
from .facts import fn_key, fn_loc, fn_file, walk, strip, peel_refs, pat_bindings, Render
from .facts import lit_float, lit_number
from .c17 import for_loops, tuple_positions

LEVEL = ("Static analysis of linfa's metrics. Decided: (delegate) every multi-target regression metric applies, column by "
         "column over both operands, the single-target metric of the same name; (degree) in the single-target regression "
         "metrics every sum or difference combines terms of the same homogeneity degree in the data (scaling predictions "
         "and truths by t scales each term alike) - tiny literal regularisers excepted (violated by explained_variance on "
         "the pinned tree: known finding); (orient) the axis of the confusion matrix that is filled from the prediction is "
         "the one precision fixes, recall fixes the other, and split_one_vs_all takes false positives from it (binary "
         "precision / recall of the pinned tree fix the wrong axes: known findings); (count) every (prediction, truth) "
         "pair adds exactly one to one cell of a classes x classes matrix, both indices looked up in the same class list; "
         "(pairs) split_one_vs_one enumerates the pairs i < j; (accuracy) accuracy is trace / total; (formula) the regression "
         "scores except the median, F-beta, the macro averages of precision / recall and the log-loss are, as rational "
         "functions of their inputs (sums expanded by linearity, |u| / ln u / clip u uninterpreted, regularisers of at "
         "most 1e-6 dropped), the textbook definitions; multi-target scores that do not delegate are read column-wise. "
         "Not decided: MCC, AUC and its ties, silhouette, Pearson as numbers; rounding.")
ASSUME = ["rustc resolution/typeck; HIR faithfully dumped", "in ToConfusionMatrix::confusion_matrix(&self, ground_truth) the receiver is the prediction (the parameter is named ground_truth)"]


def fns_named(F, name, path_part=None, trait=None, adt=None):
    out = []
    for fn in F.all_fns():
        d = fn["d"]
        if d["krate"] != "linfa" or d["name"] != name or "tests" in d["path"]:
            continue
        if path_part and path_part not in d["path"] and path_part not in (d.get("trait") or ""):
            continue
        if trait and not (d.get("trait") or "").endswith(trait):
            continue
        if adt and not (d.get("self_adt") or "").endswith(adt):
            continue
        out.append(fn)
    return out


def rule_delegate(ctx):
    res = RuleResult("R-C05-delegate", "every MultiTargetRegression metric maps the single-target metric of the same name over the columns of both operands")
    F = ctx.facts()
    n = 0
    for fn in F.all_fns():
        d = fn["d"]
        if d["krate"] != "linfa" or not (d.get("trait") or "").endswith("MultiTargetRegression") or d.get("pk") != "trait":
            continue
        n += 1
        c = fn["crate"]
        key = fn_key(fn)
        res.instance(key)
        calls = [y for y in walk(fn["body"]) if y.get("k") == "MethodCall" and (c.dfn(y.get("def")) or {}).get("trait", "").endswith("SingleTargetRegression")]
        bodies = [fn["body"]]
        from .shortcut import _fn_of_def
        for y in walk(fn["body"]):
            if y.get("k") == "Call" and strip(y["f"]).get("k") == "Path":
                g = _fn_of_def(F, c, strip(y["f"]).get("inst", strip(y["f"]).get("def")))
                if g is None:
                    g = _fn_of_def(F, c, strip(y["f"]).get("def"))
                if g is not None and g["d"]["krate"] == "linfa" and not g.get("exp") and any(strip(a).get("k") == "Closure" for a in y["args"]):
                    bodies.append(g["body"])      # `per_target_column(self, other, |a, b| a.metric(b))`
        axes = [y for b_ in bodies for y in walk(b_) if y.get("k") == "MethodCall" and y["name"] in ("axis_iter", "columns", "gencolumns", "rows", "genrows", "outer_iter")]
        ax_ok = len(axes) >= 2 and all(y["name"] in ("columns", "gencolumns") or (y["name"] == "axis_iter" and "Axis(1)" in Render(c).e(y["args"][0]).replace(" ", "")) for y in axes)
        wrong_axis = [y for y in axes if y["name"] in ("rows", "genrows", "outer_iter") or (y["name"] == "axis_iter" and "Axis(1)" not in Render(c).e(y["args"][0]).replace(" ", ""))]
        zipped = any(y.get("k") == "MethodCall" and y["name"] == "zip" for b_ in bodies for y in walk(b_))
        if not calls:
            res.undecided("%s : no-delegation" % key, "no call of a single-target metric found (fail closed)", fn_loc(fn))
        elif any(y["name"] != d["name"] for y in calls):
            other = next(y["name"] for y in calls if y["name"] != d["name"])
            res.violate("%s : delegates-to-other-metric:%s" % (key, other), "the multi-target `%s` computes the single-target `%s` per column" % (d["name"], other), fn_loc(fn, calls[0]["ln"]))
        elif not (ax_ok and zipped) and not wrong_axis:
            res.undecided("%s : column-walk" % key, "the column-by-column walk of both operands was not recognised here or in a helper (fail closed)", fn_loc(fn))
        elif not (ax_ok and zipped):
            res.violate("%s : not-column-wise" % key, "the operands are not walked column by column (axis 1 of both, zipped): the score of target j is not computed from column j of both operands", fn_loc(fn))
        else:
            res.ok()
    if n < 8:
        res.missing_anchor("the provided methods of MultiTargetRegression (found %d)" % n)
    return res.finish(8)


TINY = 1e-6


class Deg:
    """homogeneity degree of an expression in the data (prediction and truth both degree 1); None = unknown, 'any' = fits all"""

    def __init__(self, fn):
        self.fn = fn
        self.c = fn["crate"]
        self.env = {}
        self.issues = []
        for p_ in fn["params"]:
            for b in pat_bindings(p_):
                self.env[b["local"]] = Fraction(1)

    def lit(self, n):
        v = lit_float(n.get("v"))
        if v is None:
            return None
        if v == 0.0 or abs(v) <= TINY:
            return "any"
        return Fraction(0)

    def comb(self, a, b, node, what):
        if a == "any":
            return b
        if b == "any":
            return a
        if a is None or b is None:
            return None
        if a != b:
            self.issues.append((node, a, b, what))
            return None
        return a

    def deg(self, n, depth=0):
        if n is None or depth > 40:
            return None
        n = peel_refs(n)
        k_ = n.get("k")
        if k_ == "Lit":
            return self.lit(n)
        if k_ == "Path":
            if "local" in n:
                return self.env.get(n["local"])
            return None
        if k_ == "Block":
            for st in n.get("stmts") or []:
                self.stmt(st, depth + 1)
            return self.deg(n["e"], depth + 1) if n.get("e") is not None else None
        if k_ == "Unary":
            return self.deg(n["e"], depth + 1)
        if k_ == "Cast":
            return self.deg(n["e"], depth + 1)
        if k_ == "Binary":
            a, b = self.deg(n["l"], depth + 1), self.deg(n["r"], depth + 1)
            if n["op"] in ("+", "-"):
                return self.comb(a, b, n, "`%s`" % n["op"])
            if n["op"] == "*":
                if a == "any" or b == "any":
                    return "any"
                return None if a is None or b is None else a + b
            if n["op"] == "/":
                if a == "any":
                    return "any"
                return None if a is None or b is None or b == "any" else a - b
            return None
        if k_ == "Call":
            f = strip(n["f"])
            d = self.c.dfn(f.get("def")) if f.get("k") == "Path" else None
            nm = (d or {}).get("name")
            if nm in ("one", "cast", "from", "epsilon") and len(n["args"]) <= 1:
                if nm == "one":
                    return Fraction(0)
                if n["args"]:
                    a0 = peel_refs(n["args"][0])
                    if a0.get("k") == "Lit":
                        return self.lit(a0)
                    return Fraction(0) if a0.get("k") == "MethodCall" and a0["name"] in ("len", "nrows", "ncols") else self.deg(a0, depth + 1)
                return Fraction(0)
            if nm in ("zero", "neg_infinity", "infinity"):
                return "any"
            if nm in ("Ok", "Some"):
                return self.deg(n["args"][0], depth + 1) if n["args"] else None
            if nm in ("max", "min") and len(n["args"]) == 2:
                return self.comb(self.deg(n["args"][0], depth + 1), self.deg(n["args"][1], depth + 1), n, "`%s`" % nm)
            return None
        if k_ == "MethodCall":
            nm = n["name"]
            r = self.deg(n["recv"], depth + 1)
            if nm in ("as_single_targets", "view", "to_owned", "clone", "iter", "into_iter", "abs", "mean", "sum", "to_vec", "unwrap", "ok_or", "expect", "max", "min", "copied", "cloned", "into_scalar", "first", "last"):
                if nm in ("max", "min") and n["args"]:
                    return self.comb(r, self.deg(n["args"][0], depth + 1), n, "`%s`" % nm)
                return r
            if nm in ("sub", "add"):
                return self.comb(r, self.deg(n["args"][0], depth + 1), n, "`%s`" % nm)
            if nm == "mul":
                b = self.deg(n["args"][0], depth + 1)
                return None if r in (None, "any") or b in (None, "any") else r + b
            if nm == "div":
                b = self.deg(n["args"][0], depth + 1)
                return None if r in (None, "any") or b in (None, "any") else r - b
            if nm == "sqrt":
                return None if r in (None, "any") else r / 2
            if nm in ("powi", "powf") and n["args"]:
                a0 = peel_refs(n["args"][0])
                try:
                    e = Fraction(lit_number(a0.get("v")))
                except (ValueError, TypeError, ZeroDivisionError):
                    return None
                return None if r in (None, "any") else r * e
            if nm in ("mapv", "mapv_into", "map", "mapv_inplace") and n["args"]:
                clo = strip(n["args"][0])
                if clo.get("k") == "Closure" and len(clo["params"]) == 1:
                    for b in pat_bindings(clo["params"][0]):
                        self.env[b["local"]] = r
                    return self.deg(clo["body"], depth + 1)
                return None
            if nm == "fold" and len(n["args"]) == 2:
                return self.comb(self.deg(n["args"][0], depth + 1), r, n, "fold start")
            if nm in ("len", "nrows", "ncols"):
                return Fraction(0)
            return None
        if k_ == "Index":
            return self.deg(n["e"], depth + 1)
        if k_ == "If":
            a = self.deg(n["then"], depth + 1)
            b = self.deg(n.get("else"), depth + 1) if n.get("else") is not None else a
            return a if a == b else None
        if k_ == "Match" and n.get("src") == "TryDesugar":
            sc = strip(n["scrut"])
            return self.deg(sc["args"][0], depth + 1) if sc.get("k") == "Call" and sc["args"] else None
        return None

    def stmt(self, st, depth):
        if st.get("k") == "LetStmt" and st.get("init") is not None:
            v = self.deg(st["init"], depth)
            for b in pat_bindings(st["pat"]):
                self.env[b["local"]] = v
        elif st.get("k") == "Semi":
            self.deg(st["e"], depth)
        else:
            self.deg(st, depth)


def rule_degree(ctx):
    """Every regression score here is invariant or homogeneous under a common rescaling of predictions and truths: the
    absolute errors scale like the data (degree 1), the squared ones like its square, R2 / explained variance / MAPE not
    at all.  That holds only if every sum or difference inside the formula combines terms of one degree."""
    res = RuleResult("R-C05-degree", "in the single-target regression metrics every sum / difference combines terms of equal homogeneity degree in the data (tiny literal regularisers excepted)")
    F = ctx.facts()
    n = 0
    for fn in F.all_fns():
        d = fn["d"]
        if d["krate"] != "linfa" or not (d.get("trait") or "").endswith("SingleTargetRegression") or d.get("pk") != "trait":
            continue
        if "log" in d["name"]:
            continue          # a logarithmic score is not homogeneous by definition
        n += 1
        key = fn_key(fn)
        res.instance(key)
        dg = Deg(fn)
        total = dg.deg(fn["body"])
        if dg.issues:
            node, a, b, what = dg.issues[0]
            res.violate("%s : inhomogeneous-sum" % key, "`%s` combines a term of degree %s with a term of degree %s in the data through %s: rescaling predictions and truths by a common factor changes the two terms differently, so the score is not the dimensionless / homogeneous quantity its definition says" % (Render(fn["crate"]).e(node)[:70], a, b, what), fn_loc(fn, node.get("ln")))
        else:
            res.ok()
            res.sample({"metric": d["name"], "degree": str(total)})
    if n < 7:
        res.missing_anchor("the provided methods of SingleTargetRegression (found %d)" % n)
    return res.finish(7)


def _cells(fn, c):
    """literal (row, column) pairs used to index the matrix in a function"""
    out = []
    for y in walk(fn["body"]):
        if y.get("k") == "Index":
            i = peel_refs(y["i"])
            if i.get("k") == "Tup" and len(i["es"]) == 2:
                a, b = peel_refs(i["es"][0]), peel_refs(i["es"][1])
                if a.get("k") == "Lit" and b.get("k") == "Lit":
                    out.append((str(a["v"]), str(b["v"]), y))
    return out


def rule_orient(ctx):
    """Which axis of the confusion matrix is the prediction is decided where the matrix is filled.  Precision of a class is
    TP / (everything *predicted* as the class): its denominator walks the other axis with the prediction fixed; recall
    fixes the truth; split_one_vs_all takes the false positives from the prediction's line."""
    res = RuleResult("R-C05-orient", "the confusion matrix axis that is filled from the prediction is the one that precision fixes and split_one_vs_all reads false positives from; recall fixes the other")
    F = ctx.facts()
    # (a) construction: confusion_matrix[(i1, i2)] += .. with (i1, i2) from map_prediction_to_idx(prediction, truth, classes)
    rows = None
    mp = fns_named(F, "map_prediction_to_idx")
    cms = [f for f in fns_named(F, "confusion_matrix") if any(y.get("k") == "AssignOp" for y in walk(f["body"]))]
    if not mp or not cms:
        res.missing_anchor("map_prediction_to_idx / the confusion_matrix impl that fills the matrix")
        return res.finish(4)
    fn = mp[0]
    c = fn["crate"]
    ps = [b for p_ in fn["params"] for b in pat_bindings(p_)]
    tup_order = None
    for y in walk(fn["body"]):
        if y.get("k") == "MethodCall" and y["name"] == "zip":
            l = peel_refs(y["recv"])
            while l.get("k") == "MethodCall":
                l = peel_refs(l["recv"])
            rr = peel_refs(y["args"][0]) if y["args"] else {}
            while rr.get("k") == "MethodCall":
                rr = peel_refs(rr["recv"])
            if l.get("local") == ps[0]["local"] and rr.get("local") == ps[1]["local"]:
                tup_order = "param-order"
            elif l.get("local") == ps[1]["local"] and rr.get("local") == ps[0]["local"]:
                tup_order = "swapped"
    # the pair that is returned keeps the zip order? `(x from a, y from b)`
    pair_kept = None
    for y in walk(fn["body"]):
        if y.get("k") == "Closure" and len(y["params"]) == 1 and y["params"][0].get("k") == "Tuple" and len(y["params"][0]["pats"]) == 2:
            a_, b_ = [list(pat_bindings(q)) for q in y["params"][0]["pats"]]
            if not a_ or not b_:
                continue
            tups = [z for z in walk(y["body"]) if z.get("k") == "Tup" and len(z["es"]) == 2]
            if not tups:
                continue
            # x is bound by the closure chained on get(&a), y by the one on get(&b)
            def source(e):
                l = peel_refs(e)
                while l.get("k") == "Unary":
                    l = peel_refs(l["e"])
                loc = l.get("local")
                for z in walk(y["body"]):
                    if z.get("k") == "MethodCall" and z["args"] and strip(z["args"][0]).get("k") == "Closure" and any(b["local"] == loc for p_ in strip(z["args"][0])["params"] for b in pat_bindings(p_)):
                        rv = z["recv"]
                        if any(w.get("k") == "Path" and w.get("local") == a_[0]["local"] for w in walk(rv)) and not any(w.get("k") == "Path" and w.get("local") == b_[0]["local"] for w in walk(rv)):
                            return "a"
                        if any(w.get("k") == "Path" and w.get("local") == b_[0]["local"] for w in walk(rv)):
                            return "b"
                return None
            s0, s1 = source(tups[-1]["es"][0]), source(tups[-1]["es"][1])
            if (s0, s1) == ("a", "b"):
                pair_kept = True
            elif (s0, s1) == ("b", "a"):
                pair_kept = False
    cm = cms[0]
    cc = cm["crate"]
    call = next((y for y in walk(cm["body"]) if y.get("k") == "Call" and (cc.dfn(strip(y["f"]).get("def")) or {}).get("name") == "map_prediction_to_idx" and strip(y["f"]).get("k") == "Path"), None)
    first_is_self = None
    if call is not None and len(call["args"]) >= 2:
        inits = {}
        for y in walk(cm["body"]):
            if y.get("k") == "LetStmt" and y.get("init") is not None and y["pat"].get("k") == "Bind":
                inits[y["pat"]["local"]] = y["init"]

        def from_self(e):
            for z in walk(e):
                if z.get("k") == "Path" and z.get("name") == "self":
                    return True
                if z.get("k") == "Path" and z.get("local") in inits and any(w.get("k") == "Path" and w.get("name") == "self" for w in walk(inits[z["local"]])):
                    return True
            return False
        first_is_self = from_self(call["args"][0]) and not from_self(call["args"][1])
    idx_order = None
    for y in walk(cm["body"]):
        if y.get("k") == "AssignOp" and peel_refs(y["l"]).get("k") == "Index":
            i = peel_refs(peel_refs(y["l"])["i"])
            if i.get("k") == "Tup" and len(i["es"]) == 2:
                l0, l1 = peel_refs(i["es"][0]).get("local"), peel_refs(i["es"][1]).get("local")
                # the loop pattern `(i1, i2)`
                from .c17 import for_loops, tuple_positions
                for it, pat, body, node in for_loops(cm["body"]):
                    pos = tuple_positions(pat)
                    if l0 in pos and l1 in pos:
                        idx_order = (pos[l0][-1], pos[l1][-1])
    res.instance("construction: pairs in %s, pair kept %s, first argument is self %s, index order %s" % (tup_order, pair_kept, first_is_self, idx_order))
    if tup_order == "param-order" and pair_kept and first_is_self and idx_order == (0, 1):
        rows = "prediction"
    elif tup_order == "param-order" and pair_kept and first_is_self and idx_order == (1, 0):
        rows = "truth"
    if rows is None:
        res.undecided("confusion_matrix : orientation", "which axis the prediction fills was not established (fail closed)", fn_loc(cm))
        return res.finish(4)
    res.ok()
    # (b) binary precision / recall
    for name, fixed_axis in (("precision", "prediction"), ("recall", "truth")):
        for fn in fns_named(F, name, adt="ConfusionMatrix"):
            c = fn["crate"]
            key = fn_key(fn)
            res.instance("%s : binary formula" % key)
            cells = sorted(set((a, b) for a, b, _ in _cells(fn, c)))
            if ("0", "0") not in cells or len(cells) != 2:
                res.undecided("%s : cells" % key, "the binary formula does not read the cell (0, 0) and one neighbour: %s (fail closed)" % cells, fn_loc(fn))
                continue
            other = [x for x in cells if x != ("0", "0")][0]
            varies = "row" if other[0] != "0" else "column"
            # with rows = prediction: fixing the prediction means walking the columns of row 0
            want = "column" if (rows == fixed_axis) else "row"
            if varies == want:
                res.ok()
            else:
                res.violate("%s : fixes-the-other-axis" % key, "the matrix is filled with the %s along the rows, so %s of the first class is cell (0,0) over the sum along %s 0; the formula adds cell (%s, %s), i.e. walks the %ss: it computes %s" % (rows, name, "row" if want == "column" else "column", other[0], other[1], varies, "recall" if name == "precision" else "precision"), fn_loc(fn))
    # (c) split_one_vs_all: false positives from the prediction's line
    for fn in fns_named(F, "split_one_vs_all", adt="ConfusionMatrix"):
        c = fn["crate"]
        key = fn_key(fn)
        res.instance("%s : false positives" % key)
        lets = {}
        for y in walk(fn["body"]):
            if y.get("k") == "LetStmt" and y.get("init") is not None and y["pat"].get("k") == "Bind":
                lets[y["pat"]["name"]] = y["init"]
        lit = next((y for y in walk(fn["body"]) if y.get("k") == "Struct" and any(f_["name"] == "matrix" for f_ in y.get("fields") or [])), None)
        arr = None
        if lit is not None:
            me = next(f_["e"] for f_ in lit["fields"] if f_["name"] == "matrix")
            names = [z.get("name") for z in walk(me) if z.get("k") == "Path" and "local" in z]
            arr = names
        if not arr or len(arr) < 4:
            res.undecided("%s : layout" % key, "the 2x2 literal of the split was not recognised (fail closed)", fn_loc(fn))
            continue
        # position (0, 1) of the binary matrix: row = class (first), column = rest: under rows = prediction it is FP
        cell01 = arr[1]
        e = lets.get(cell01)
        line = None
        if e is not None:
            for z in walk(e):
                if z.get("k") == "MethodCall" and z["name"] in ("row", "column"):
                    line = z["name"]
        want = "row" if rows == "prediction" else "column"
        if line is None:
            res.undecided("%s : cell-source" % key, "the source of cell (0, 1) of the split was not recognised (fail closed)", fn_loc(fn))
        elif line == want:
            res.ok()
        else:
            res.violate("%s : split-transposed" % key, "cell (0, 1) of a one-vs-all split is taken from `%s(i)`: with the %s along the rows it should come from `%s(i)`" % (line, rows, want), fn_loc(fn))
    return res.finish(4)


def rule_count(ctx):
    res = RuleResult("R-C05-count", "every (prediction, truth) pair adds exactly one to one cell of a classes x classes matrix; accuracy is trace / total; split_one_vs_one enumerates the pairs i < j")
    F = ctx.facts()
    cms = [f for f in fns_named(F, "confusion_matrix") if any(y.get("k") == "AssignOp" for y in walk(f["body"]))]
    if not cms:
        res.missing_anchor("the confusion_matrix impl that fills the matrix")
    for fn in cms:
        c = fn["crate"]
        r = Render(c)
        key = fn_key(fn)
        res.instance("%s : one count per pair" % key)
        inc = [y for y in walk(fn["body"]) if y.get("k") == "AssignOp" and peel_refs(y["l"]).get("k") == "Index"]
        amt = peel_refs(inc[0]["r"]) if inc else {}
        one = amt.get("k") == "Lit" and lit_float(amt.get("v")) == 1.0
        if not inc:
            res.undecided("%s : increment" % key, "no increment of a matrix cell (fail closed)", fn_loc(fn))
        elif inc[0]["op"] != "+" or not one:
            res.violate("%s : pair-count" % key, "a (prediction, truth) pair changes its cell by `%s= %s` instead of adding one" % (inc[0]["op"], r.e(amt)[:20]), fn_loc(fn, inc[0]["ln"]))
        else:
            res.ok()
        res.instance("%s : square matrix over the class list" % key)
        z = next((y for y in walk(fn["body"]) if y.get("k") == "Call" and strip(y["f"]).get("k") == "Path" and (c.dfn(strip(y["f"]).get("def")) or {}).get("name") == "zeros" and y["args"] and peel_refs(y["args"][0]).get("k") == "Tup"), None)
        if z is None:
            res.undecided("%s : matrix-shape" % key, "allocation of the matrix not found (fail closed)", fn_loc(fn))
        else:
            es = [r.e(e) for e in peel_refs(z["args"][0])["es"]]
            inits_ = {}
            for y in walk(fn["body"]):
                if y.get("k") == "LetStmt" and y.get("init") is not None and y["pat"].get("k") == "Bind":
                    inits_[y["pat"]["local"]] = y["init"]
            rs_ = []
            for e in peel_refs(z["args"][0])["es"]:
                e0 = peel_refs(e)
                hops = 0
                while e0.get("k") == "Path" and e0.get("local") in inits_ and hops < 4:
                    e0 = peel_refs(inits_[e0["local"]])
                    hops += 1
                rs_.append(r.e(e0))
            if len(es) == 2 and (es[0] == es[1] or rs_[0] == rs_[1]):
                res.ok()        # one extent, used for both axes
            elif len(es) == 2 and all("len()" in x or "nrows" in x or "ncols" in x for x in rs_):
                res.violate("%s : matrix-not-square" % key, "the confusion matrix is allocated as (%s): not one row and one column per class" % ", ".join(es), fn_loc(fn, z["ln"]))
            else:
                res.undecided("%s : matrix-extents" % key, "the extents (%s) were not recognised (fail closed)" % ", ".join(es), fn_loc(fn, z["ln"]))
    for fn in fns_named(F, "map_prediction_to_idx"):
        c = fn["crate"]
        key = fn_key(fn)
        res.instance("%s : both indices from one class map" % key)
        gets = [y for y in walk(fn["body"]) if y.get("k") == "MethodCall" and y["name"] == "get"]
        roots = set(peel_refs(y["recv"]).get("local") for y in gets)
        if len(gets) >= 2 and len(roots) == 1 and None not in roots:
            res.ok()
        elif len(gets) >= 2:
            res.violate("%s : two-class-maps" % key, "prediction and truth are looked up in different maps: row i and column i need not be the same class", fn_loc(fn))
        else:
            res.undecided("%s : lookups" % key, "the two index lookups were not found (fail closed)", fn_loc(fn))
    for fn in fns_named(F, "accuracy", adt="ConfusionMatrix"):
        c = fn["crate"]
        key = fn_key(fn)
        res.instance("%s : trace / total" % key)
        body = strip(fn["body"])
        while body.get("k") == "Block" and body.get("e") is not None:
            body = strip(body["e"])
        if body.get("k") == "Binary" and body["op"] == "/" and any(z.get("k") == "MethodCall" and z["name"] == "diag" for z in walk(body["l"])) and not any(z.get("k") == "MethodCall" and z["name"] == "diag" for z in walk(body["r"])) and any(z.get("k") == "MethodCall" and z["name"] == "sum" for z in walk(body["r"])):
            res.ok()
        else:
            res.violate("%s : not-trace-over-total" % key, "accuracy is not `diag().sum() / sum()`: `%s`" % Render(c).e(body)[:60], fn_loc(fn))
    for fn in fns_named(F, "split_one_vs_one", adt="ConfusionMatrix"):
        from .c17 import for_loops
        c = fn["crate"]
        r = Render(c)
        key = fn_key(fn)
        res.instance("%s : pairs i < j" % key)
        loops = list(for_loops(fn["body"]))
        inner = [l for l in loops if any(l2[3] is not l[3] and any(z is l[3] for z in walk(l2[2])) for l2 in loops)]
        outer = [l for l in loops if l not in inner]
        if not inner or not outer:
            res.undecided("%s : loops" % key, "the two nested loops over the classes were not found (fail closed)", fn_loc(fn))
            continue
        oi = [b["local"] for b in pat_bindings(outer[0][1])]
        rng = r.e(inner[0][0]).replace(" ", "")
        start = peel_refs(inner[0][0])
        lo = None
        for z in walk(inner[0][0]):
            if z.get("k") == "Struct" and z.get("fields"):
                for f_ in z["fields"]:
                    if f_["name"] == "start":
                        lo = f_["e"]
        if lo is None:
            res.undecided("%s : inner-range" % key, "the inner range `%s` was not read (fail closed)" % rng[:30], fn_loc(fn))
            continue
        l0 = peel_refs(lo)
        if l0.get("k") == "Binary" and l0["op"] == "+" and peel_refs(l0["l"]).get("local") in oi and str(peel_refs(l0["r"]).get("v")) == "1":
            res.ok()
        elif l0.get("k") == "Path" and l0.get("local") in oi:
            res.violate("%s : pairs-include-diagonal" % key, "the inner loop starts at the outer index itself: the class is also paired with itself, giving n(n+1)/2 matrices (n of them degenerate) instead of the documented n(n-1)/2", fn_loc(fn, inner[0][3]["ln"]))
        elif l0.get("k") == "Lit" and str(l0.get("v")) == "0":
            res.violate("%s : pairs-both-orders" % key, "the inner loop starts at 0: every unordered pair is produced twice", fn_loc(fn, inner[0][3]["ln"]))
        else:
            res.undecided("%s : inner-start" % key, "the start `%s` of the inner loop was not classified (fail closed)" % r.e(lo)[:20], fn_loc(fn))
    return res.finish(5)


def rule_roles(ctx):
    """`prediction.confusion_matrix(ground_truth)`: the receiver is the prediction in every impl.  The impls for datasets
    and for owned arrays forward to the one that fills the matrix; a forwarding impl that hands its receiver on as the
    argument (and its argument as the receiver) builds the transposed matrix - accuracy and MCC do not notice, precision
    and recall are exchanged."""
    res = RuleResult("R-C05-roles", "every forwarding impl of ToConfusionMatrix keeps the roles: its receiver stays the receiver (the prediction), its argument stays the argument (the ground truth)")
    F = ctx.facts()
    n = 0
    for fn in F.all_fns():
        d = fn["d"]
        if d["krate"] != "linfa" or d["name"] != "confusion_matrix" or not (d.get("trait") or "").endswith("ToConfusionMatrix") or d.get("pk") == "trait":
            continue
        if any(y.get("k") == "AssignOp" for y in walk(fn["body"])):
            continue                # the impl that fills the matrix
        c = fn["crate"]
        r = Render(c)
        ps = [b for p_ in fn["params"] for b in pat_bindings(p_)]
        if len(ps) != 2:
            continue
        gt = ps[1]["local"]
        call = next((y for y in walk(fn["body"]) if y.get("k") == "MethodCall" and y["name"] == "confusion_matrix" and len(y["args"]) == 1), None)
        n += 1
        key = "%s[%s]" % (fn_key(fn), (fn["inputs"][0] if fn.get("inputs") else "")[-40:].replace(" ", ""))
        res.instance(key)
        if call is None:
            res.undecided("%s : forwarding" % key, "no inner confusion_matrix call (fail closed)", fn_loc(fn))
            continue

        def uses(e, what):
            return any(z.get("k") == "Path" and ((what == "self" and z.get("name") == "self") or (what == "gt" and z.get("local") == gt)) for z in walk(e))
        rs, rg = uses(call["recv"], "self"), uses(call["recv"], "gt")
        as_, ag = uses(call["args"][0], "self"), uses(call["args"][0], "gt")
        if rs and not rg and ag and not as_:
            res.ok()
        elif rg and not rs and as_ and not ag:
            res.violate("%s : forwarding-swaps-prediction-and-truth" % key, "the impl forwards as `%s`: its receiver (the prediction) becomes the ground truth and its argument the prediction, so this call builds the transpose of what the other impls build" % r.e(call)[:60], fn_loc(fn, call.get("ln")))
        else:
            res.undecided("%s : forwarding-roles" % key, "`%s` (fail closed)" % r.e(call)[:60], fn_loc(fn, call.get("ln")))
    if n < 3:
        res.missing_anchor("forwarding impls of ToConfusionMatrix (found %d)" % n)
    return res.finish(3)


def rule_symmetric(ctx):
    """The Matthews coefficient does not change when prediction and truth change places.  A formula over the marginal
    class counts keeps that symmetry only if row sums and column sums enter the numerator alike: a numerator built from one
    of the two marginals alone is another quantity whenever the marginals differ."""
    res = RuleResult("R-C05-symmetric", "the numerator of the MCC uses the row sums and the column sums of the matrix alike (or neither)")
    F = ctx.facts()
    fns = fns_named(F, "mcc", adt="ConfusionMatrix")
    if not fns:
        res.missing_anchor("ConfusionMatrix::mcc")
    for fn in fns:
        c = fn["crate"]
        r = Render(c)
        key = fn_key(fn)
        res.instance(key)
        inits = {}
        for y in walk(fn["body"]):
            if y.get("k") == "LetStmt" and y.get("init") is not None and y["pat"].get("k") == "Bind":
                inits[y["pat"]["local"]] = y["init"]

        def axis_kind(e):
            out = set()
            for z in walk(e):
                if z.get("k") == "MethodCall" and z["name"] == "sum_axis" and z["args"]:
                    a = r.e(z["args"][0]).replace(" ", "")
                    out.add("cols" if a.endswith("Axis(0)") else "rows" if a.endswith("Axis(1)") else "?")
                if z.get("k") == "MethodCall" and z["name"] in ("row", "column") and any(w.get("k") == "MethodCall" and w["name"] == "sum" for w in [z]):
                    pass
            return out
        marg = {l: axis_kind(e) for l, e in inits.items() if axis_kind(e)}
        tail = strip(fn["body"])
        while tail.get("k") == "Block" and tail.get("e") is not None:
            tail = strip(tail["e"])
        num = peel_refs(tail)
        while num.get("k") == "Binary" and num["op"] == "/":
            num = peel_refs(num["l"])
        nl = num.get("local") if num.get("k") == "Path" else None
        exprs = [num]
        if nl is not None:
            if nl in inits:
                exprs.append(inits[nl])
            exprs += [y["r"] for y in walk(fn["body"]) if y.get("k") in ("AssignOp", "Assign") and peel_refs(y["l"]).get("local") == nl]
        kinds = set()
        for e in exprs:
            kinds |= axis_kind(e)
            for z in walk(e):
                if z.get("k") == "Path" and z.get("local") in marg:
                    kinds |= marg[z["local"]]
        if nl is None and num.get("k") != "Binary":
            res.undecided("%s : numerator" % key, "the numerator of the final quotient was not found (fail closed)", fn_loc(fn))
        elif kinds in (set(), {"rows", "cols"}):
            res.ok()
        elif "?" in kinds:
            res.undecided("%s : marginal-axis" % key, "a marginal sum over an unrecognised axis (fail closed)", fn_loc(fn))
        else:
            res.violate("%s : numerator-uses-one-marginal:%s" % (key, sorted(kinds)[0]), "the numerator is built from the %s sums alone: exchanging prediction and truth changes it, which the Matthews coefficient must not (it needs the product of row sums and column sums)" % ("row" if "rows" in kinds else "column"), fn_loc(fn))
    return res.finish(1)


def rule_reset(ctx):
    """A per-item accumulator that is cleared at the end of each pass of a loop is cleared on *every* way to the next pass:
    a `continue` between its use and the reset carries one item's sums into the next."""
    from .layout import with_parents
    res = RuleResult("R-C05-reset", "in the metric code an accumulator that a loop body resets at its end is reset on every path to the next iteration (no `continue` skips the reset)")
    F = ctx.facts()
    n = 0
    for fn in F.all_fns():
        d = fn["d"]
        if d["krate"] != "linfa" or "tests" in d["path"] or fn.get("exp") or "metrics_" not in fn_file(fn):
            continue
        c = fn["crate"]
        r = Render(c)
        for it, pat, body, node in for_loops(fn["body"]):
            b = strip(body)
            if b.get("k") != "Block":
                continue
            stmts = list(b.get("stmts") or []) + ([b["e"]] if b.get("e") is not None else [])
            resets = [(i, strip(s_)) for i, s_ in enumerate(stmts) if strip(s_).get("k") == "MethodCall" and strip(s_)["name"] in ("reset", "clear") and not strip(s_)["args"]]
            if not resets:
                continue
            i_reset, rs = resets[-1]
            n += 1
            key = fn_key(fn)
            res.instance("%s : `%s` at the end of a loop body (line %s)" % (key, r.e(rs)[:30], rs.get("ln")))
            bad = None
            for s_ in stmts[:i_reset]:
                for y, anc in with_parents(s_):
                    if y.get("k") == "Continue" and not any(a.get("k") == "Loop" or (a.get("k") == "Match" and a.get("src") == "ForLoopDesugar") or a.get("k") == "Closure" for a in anc):
                        bad = y
            if bad is not None:
                res.violate("%s : reset-skipped-by-continue" % key, "a `continue` (line %s) leaves the loop body before `%s`: what was accumulated for this item is carried into the next one" % (bad.get("ln"), r.e(rs)[:30]), fn_loc(fn, bad.get("ln")))
            else:
                res.ok()
    if n < 1:
        res.missing_anchor("loops with a trailing reset in the metric code (found %d)" % n)
    return res.finish(1)


FULL_SORTS = {"sort", "sort_by", "sort_unstable", "sort_unstable_by", "sort_by_key", "sort_unstable_by_key", "sort_by_cached_key"}
PARTIAL_ORDERS = {"select_nth_unstable", "select_nth_unstable_by", "select_nth_unstable_by_key", "partition_point", "partition"}


def rule_median(ctx):
    """The median is the middle element (or the mean of the two middle elements) of the *sorted* errors.  A selection
    (select_nth_unstable) puts one position in place: reading another position afterwards reads an arbitrary element of
    that side of the partition."""
    res = RuleResult("R-C05-median", "median_absolute_error reads the middle position(s) of a fully sorted sequence")
    F = ctx.facts()
    fns = [f for f in F.all_fns() if f["d"]["krate"] == "linfa" and f["d"]["name"] == "median_absolute_error" and (f["d"].get("trait") or "").endswith("SingleTargetRegression")]
    if not fns:
        res.missing_anchor("SingleTargetRegression::median_absolute_error")
    for fn in fns:
        c = fn["crate"]
        r = Render(c)
        key = fn_key(fn)
        reads = [y for y in walk(fn["body"]) if y.get("k") == "Index" and peel_refs(y["e"]).get("k") == "Path" and "local" in peel_refs(y["e"])]
        res.instance("%s : %d positional reads" % (key, len(reads)))
        if not reads:
            res.undecided("%s : reads" % key, "no positional read of the error sequence (fail closed)", fn_loc(fn))
            continue
        seq = peel_refs(reads[0]["e"])["local"]
        orders = [y for y in walk(fn["body"]) if y.get("k") == "MethodCall" and peel_refs(y["recv"]).get("local") == seq and y["name"] in FULL_SORTS | PARTIAL_ORDERS]
        first_read = min(y.get("ln") or 0 for y in reads)
        full = [y for y in orders if y["name"] in FULL_SORTS and (y.get("ln") or 0) <= first_read]
        part = [y for y in orders if y["name"] in PARTIAL_ORDERS]
        if full:
            res.ok()
        elif part:
            sel = r.e(part[0]["args"][0]).replace(" ", "") if part[0]["args"] else "?"
            other = [y for y in reads if r.e(y["i"]).replace(" ", "") != sel]
            if other:
                res.violate("%s : reads-unsorted-position" % key, "the errors are only partitioned around position `%s` (%s), but position `%s` is read as well: that is an arbitrary element of its side, not the neighbouring order statistic" % (sel, part[0]["name"], r.e(other[0]["i"])[:20]), fn_loc(fn, other[0].get("ln")))
            else:
                res.ok()
        else:
            res.violate("%s : median-of-unsorted" % key, "positions of the error sequence are read without sorting it first", fn_loc(fn, reads[0].get("ln")))
    return res.finish(1)


def _carried_copy_twice(fn):
    """In a `for` loop: a variable declared outside the loop is overwritten, unconditionally and at the top level of the
    body, with (a component of) the current element, is not read earlier in the body, and is then combined by + or - with
    that same component.  Returns (binary node, variable name, element name, assignment) or None."""
    for it, pat, body, node in for_loops(fn["body"]):
        body = strip(body)
        if body.get("k") != "Block":
            continue
        item = {b["local"]: b["name"] for b in pat_bindings(pat)}
        inner = set(b["local"] for y in walk(body) if y.get("k") in ("LetStmt", "Let") for b in pat_bindings(y["pat"]))
        inner |= set(b["local"] for y in walk(body) if y.get("k") == "Match" for a in y["arms"] for b in pat_bindings(a["pat"]))
        stmts = list(body["stmts"]) + ([body["e"]] if body.get("e") is not None else [])
        alias = dict((k_, k_) for k_ in item)          # local -> item local it copies
        copies = {}                                     # outer local -> (item local, statement index, node)
        for i, st in enumerate(stmts):
            for y in ([strip(st)] + list(strip(st).get("stmts", []) if strip(st).get("k") == "Block" else [])):
                y = strip(y)
                if y.get("k") == "LetStmt" and y.get("init") is not None:
                    p_, e_ = y["pat"], peel_refs(y["init"])
                    if p_.get("k") == "Tuple" and e_.get("k") == "Tup" and len(p_["pats"]) == len(e_["es"]):
                        for q, x in zip(p_["pats"], e_["es"]):
                            x = peel_refs(x)
                            if q.get("k") == "Bind" and x.get("k") == "Path" and x.get("local") in alias:
                                alias[q["local"]] = alias[x["local"]]
                    elif p_.get("k") == "Bind" and e_.get("k") == "Path" and e_.get("local") in alias:
                        alias[p_["local"]] = alias[e_["local"]]
                if y.get("k") == "Assign":
                    l_, r_ = peel_refs(y["l"]), peel_refs(y["r"])
                    if l_.get("k") == "Path" and "local" in l_ and l_["local"] not in inner and l_["local"] not in item:
                        if r_.get("k") == "Path" and r_.get("local") in alias and l_["local"] not in copies:
                            copies[l_["local"]] = (alias[r_["local"]], i, y, l_.get("name"))
        for v, (cur, i, asg, vname) in copies.items():
            def reads(st):
                return [z for z in walk(st) if z.get("k") == "Path" and z.get("local") == v]
            before = any(reads(st) for st in stmts[:i])
            # the assignment statement itself: the right-hand sides come first
            if before:
                continue
            for st in stmts[i + 1:]:
                for y in walk(st):
                    if y.get("k") == "Binary" and y["op"] in ("+", "-"):
                        a, b = peel_refs(y["l"]), peel_refs(y["r"])
                        la, lb = a.get("local") if a.get("k") == "Path" else None, b.get("local") if b.get("k") == "Path" else None
                        if (la == v and lb is not None and alias.get(lb) == cur) or (lb == v and la is not None and alias.get(la) == cur):
                            return y, vname, item.get(cur, "?"), asg
    return None


def rule_twice(ctx):
    """`(x1 - x0) * (y0 + y1) / 2`: a sum or difference in a metric combines two *different* quantities.  The same operand on
    both sides (`y1 + y1`, `x - x`) is a slip of the pen that turns a trapezoid into a rectangle or a difference into zero."""
    res = RuleResult("R-C05-twice", "no sum or difference in the metric code has the same non-constant operand on both sides")
    F = ctx.facts()
    n = 0
    for fn in F.all_fns():
        d = fn["d"]
        if d["krate"] != "linfa" or "tests" in d["path"] or fn.get("exp") or not ("metrics_" in fn_file(fn)):
            continue
        c = fn["crate"]
        r = Render(c)
        sites = [y for y in walk(fn["body"]) if y.get("k") == "Binary" and y["op"] in ("+", "-")]
        if not sites:
            continue
        n += 1
        key = fn_key(fn)
        res.instance("%s : %d sums / differences" % (key, len(sites)))
        bad = None
        for y in sites:
            a, b = peel_refs(y["l"]), peel_refs(y["r"])
            if a.get("k") in ("Lit",) or (a.get("k") == "Call" and not a.get("args")):
                continue
            if r.e(a) == r.e(b) and any(z.get("k") == "Path" and "local" in z for z in walk(a)):
                bad = y
                break
        carried = _carried_copy_twice(fn) if bad is None else None
        if bad is None and carried is None:
            res.ok()
        elif bad is not None:
            res.violate("%s : operand-used-twice" % key, "`%s` has the same operand on both sides" % r.e(bad)[:60], fn_loc(fn, bad.get("ln")))
        else:
            y, v, cur, asg = carried
            res.violate("%s : operand-used-twice:carried-copy" % key, "`%s` combines `%s` with `%s`, but `%s` was overwritten with `%s` earlier in the same iteration (line %s) and is not read before that: both operands are the current element, the value carried over from the previous iteration is never used" % (r.e(y)[:60], v, cur, v, cur, asg.get("ln")), fn_loc(fn, y.get("ln")))
    if n < 8:
        res.missing_anchor("metric functions with sums / differences (found %d)" % n)
    return res.finish(8)


F32_CONSTS = {"EPSILON": Fraction(1, 2 ** 23), "MIN_POSITIVE": Fraction(1, 2 ** 126), "MAX": Fraction(2 ** 128), "MIN": -Fraction(2 ** 128)}
F64_CONSTS = {"EPSILON": Fraction(1, 2 ** 52), "MIN_POSITIVE": Fraction(1, 2 ** 1022), "MAX": Fraction(2 ** 1024), "MIN": -Fraction(2 ** 1024)}


def _const_float(c, e):
    """(exact value, float type) of a constant float expression, or None"""
    e = peel_refs(e)
    kk = e.get("k")
    if kk == "Lit":
        try:
            v = str(e.get("v")).replace("_", "")
            for suf in ("f32", "f64"):
                if v.endswith(suf):
                    v = v[:-3]
            return Fraction(v)
        except (ValueError, ZeroDivisionError):
            return None
    if kk == "Path" and "def" in e:
        d = c.dfn(e["def"]) or {}
        t = (c.ty(e.get("t")) or "").strip()
        table = F32_CONSTS if t == "f32" else F64_CONSTS if t == "f64" else None
        if table and d.get("name") in table:
            return table[d["name"]]
        # a named constant of this crate (`const LOG_LOSS_EPS: f32 = 1e-15;`): its initialiser
        body = c.const_body(e["def"]) if d.get("krate") == c.name else None
        if body is not None:
            return _const_float(c, body)
        return None
    if kk == "Binary" and e["op"] in ("+", "-", "*", "/"):
        a, b = _const_float(c, e["l"]), _const_float(c, e["r"])
        if a is None or b is None:
            return None
        if e["op"] == "/":
            return a / b if b != 0 else None
        return a + b if e["op"] == "+" else a - b if e["op"] == "-" else a * b
    if kk == "Unary" and e["op"] == "-":
        a = _const_float(c, e["e"])
        return -a if a is not None else None
    return None


def rule_clip(ctx):
    """Log-loss takes ln(p) and ln(1 - p); the probabilities are clipped into (0, 1) first so that both stay finite.  The
    clip bounds are constants, and the upper one is written `1 - c`: in floating point that is below one only if c is more
    than half a unit in the last place of one (f32: c > 2^-25).  A smaller c is absorbed - the bound *is* 1.0, ln(1 - p) is
    -infinity for a confident prediction and the loss is infinite or NaN for data the property covers."""
    res = RuleResult("R-C05-clip", "the clip bounds of log_loss lie strictly inside (0, 1) in the float type they are computed in")
    F = ctx.facts()
    fns = fns_named(F, "log_loss")
    if not fns:
        res.missing_anchor("log_loss")
    n = 0
    for fn in fns:
        c = fn["crate"]
        r = Render(c)
        key = fn_key(fn)
        for y in walk(fn["body"]):
            lo = hi = None
            if y.get("k") == "MethodCall" and y["name"] == "clamp" and len(y["args"]) == 2:
                lo, hi = y["args"]
                ty = (c.ty(peel_refs(y["args"][0]).get("t")) or "").strip()
            elif y.get("k") == "Call" and len(y["args"]) == 3 and (c.dfn(strip(y["f"]).get("def")) or {}).get("name") == "clamp":
                lo, hi = y["args"][1:]
                ty = (c.ty(peel_refs(y["args"][1]).get("t")) or "").strip()
            if lo is None:
                continue
            n += 1
            res.instance("%s : `%s`" % (key, r.e(y)[:60]))
            vlo, vhi = _const_float(c, lo), _const_float(c, hi)
            if vlo is None or vhi is None or ty not in ("f32", "f64"):
                res.undecided("%s : clip-bounds" % key, "`%s`: bounds not constant floats (fail closed)" % r.e(y)[:50], fn_loc(fn, y.get("ln")))
                continue
            half_ulp_below_one = Fraction(1, 2 ** 25) if ty == "f32" else Fraction(1, 2 ** 54)
            tiny = Fraction(1, 2 ** 150) if ty == "f32" else Fraction(1, 2 ** 1075)
            if vhi >= 1 - half_ulp_below_one:
                res.violate("%s : upper-clip-bound-is-one" % key, "`%s` is 1.0 in %s (the subtracted constant is at most half a unit in the last place of one and is absorbed): ln(1 - p) is -infinity for p = 1" % (r.e(hi)[:40], ty), fn_loc(fn, y.get("ln")))
            elif vlo <= tiny:
                res.violate("%s : lower-clip-bound-is-zero" % key, "`%s` is not above zero in %s: ln(p) is -infinity for p = 0" % (r.e(lo)[:40], ty), fn_loc(fn, y.get("ln")))
            elif vlo >= vhi:
                res.violate("%s : clip-bounds-crossed" % key, "`%s`: lower bound not below upper bound" % r.e(y)[:50], fn_loc(fn, y.get("ln")))
            else:
                res.ok()
    if fns and not n:
        res.missing_anchor("the clamp of the probabilities in log_loss")
    return res.finish(1)


def rule_sorted(ctx):
    """The rows and columns of a confusion matrix are the classes in the order of the class list; for two classes the list is
    then reversed 'to get the conventional layout' - which presumes it was ascending.  The list is sorted where it is used,
    or where it is made."""
    from .shortcut import _fn_of_def
    res = RuleResult("R-C05-sorted", "the class list a confusion matrix is laid out by is sorted (in confusion_matrix or in the function that returns it)")
    F = ctx.facts()
    fns = [f for f in fns_named(F, "confusion_matrix") if any(y.get("k") == "MethodCall" and y["name"] == "combined_labels" for y in walk(f["body"]))]
    if not fns:
        res.missing_anchor("confusion_matrix built from combined_labels")

    def sorted_in(fn, loc):
        return [y for y in walk(fn["body"]) if y.get("k") == "MethodCall" and y["name"].startswith("sort") and peel_refs(y["recv"]).get("local") == loc]

    def tail_local(fn):
        b = fn["body"]
        while b.get("k") == "Block" and b.get("e") is not None:
            b = strip(b["e"])
        b = peel_refs(b)
        return b.get("local") if b.get("k") == "Path" else None
    for fn in fns:
        c = fn["crate"]
        r = Render(c)
        key = fn_key(fn)
        res.instance(key)
        let = next((y for y in walk(fn["body"]) if y.get("k") == "LetStmt" and y.get("init") is not None and y["pat"].get("k") == "Bind" and any(z.get("k") == "MethodCall" and z["name"] == "combined_labels" for z in walk(y["init"]))), None)
        if let is None:
            res.undecided("%s : class-list" % key, "the class list is not bound to a local (fail closed)", fn_loc(fn))
            continue
        if sorted_in(fn, let["pat"]["local"]):
            res.ok()
            continue
        call = next(z for z in walk(let["init"]) if z.get("k") == "MethodCall" and z["name"] == "combined_labels")
        g = _fn_of_def(F, c, call.get("def"))
        if g is None:
            res.undecided("%s : class-list-source" % key, "the list is not sorted here and combined_labels does not resolve to one body (fail closed)", fn_loc(fn, let.get("ln")))
            continue
        tl = tail_local(g)
        sorts = sorted_in(g, tl) if tl is not None else []
        grows = [y for y in walk(g["body"]) if tl is not None and y.get("k") == "MethodCall" and y["name"] in ("push", "extend", "insert", "append", "extend_from_slice") and peel_refs(y["recv"]).get("local") == tl]
        last_sort = max((y.get("ln") or 0) for y in sorts) if sorts else None
        late = [y for y in grows if last_sort is None or (y.get("ln") or 0) > last_sort]
        ret_ty = g.get("output") or ""
        if "BTreeSet" in ret_ty:
            res.ok()
        elif sorts and not late:
            res.ok()
        elif late or (tl is not None and not sorts):
            why = "`%s` adds to it after the last sort" % Render(g["crate"]).e(late[0])[:40] if late else "it is never sorted"
            res.violate("%s : class-list-not-sorted" % key, "confusion_matrix does not sort its class list and %s returns one that need not be ascending (%s): the order of rows and columns then follows the order the labels were met in, and the two-class layout (`reverse`) is the conventional one only by accident" % (fn_key(g), why), fn_loc(fn, let.get("ln")))
        else:
            res.undecided("%s : class-list-order" % key, "whether the list returned by %s is ascending was not decided (fail closed)" % fn_key(g), fn_loc(fn, let.get("ln")))
    return res.finish(1)


def _eval_int(c, e, env):
    """value of an integer expression over literals and the locals in env, else None"""
    e = peel_refs(e)
    while e.get("k") in ("Paren", "DropTemps"):
        e = peel_refs(e["e"])
    if e.get("k") == "Lit":
        m_ = re.match(r"^(\d+)(?:[ui](?:size|8|16|32|64|128))?$", str(e.get("v")).replace("_", ""))
        return int(m_.group(1)) if m_ else None
    if e.get("k") == "Path" and "local" in e:
        return env.get(e["local"])
    if e.get("k") == "Cast":
        return _eval_int(c, e["e"], env)
    if e.get("k") == "Binary" and e["op"] in ("+", "-", "*", "/"):
        a, b = _eval_int(c, e["l"], env), _eval_int(c, e["r"], env)
        if a is None or b is None:
            return None
        if e["op"] == "/":
            return a // b if b else None
        return a + b if e["op"] == "+" else a - b if e["op"] == "-" else a * b
    return None


def rule_packed(ctx):
    """`get_coeffs()` documents the packed upper triangle row by row: (0,1), (0,2), .., (1,2), ..  The k-th pair visited by
    the double loop is stored at k.  A closed-form position is evaluated here for 4 and 5 features over the loop nest as
    written: it must count 0, 1, 2, .. in visiting order (the column-by-column formula j(j-1)/2 + i agrees up to 3 features)."""
    from .c17 import for_loops
    res = RuleResult("R-C05-packed", "pearson_correlation stores the k-th visited feature pair at position k of the packed triangle")
    F = ctx.facts()
    fns = [f for f in F.all_fns() if f["d"]["krate"] == "linfa" and f["d"]["name"] == "pearson_correlation" and "tests" not in f["d"]["path"] and not f["d"].get("self_adt")]
    if not fns:
        res.missing_anchor("the free function pearson_correlation")
    for fn in fns:
        c = fn["crate"]
        r = Render(c)
        key = fn_key(fn)
        res.instance(key)
        nest = None
        for it, pat, body, node in for_loops(fn["body"]):
            for it2, pat2, body2, node2 in for_loops(body):
                w = next((y for y in walk(body2) if y.get("k") == "Assign" and peel_refs(y["l"]).get("k") == "Index"), None)
                if w is not None:
                    nest = (it, pat, it2, pat2, body2, w)
        if nest is None:
            res.undecided("%s : loop-nest" % key, "no double loop writing an indexed element (fail closed)", fn_loc(fn))
            continue
        it, pat, it2, pat2, body2, w = nest
        kexpr = peel_refs(w["l"])["i"]
        k0 = peel_refs(kexpr)
        # a running counter: a local declared outside the nest and incremented by one in the inner body
        if k0.get("k") == "Path" and any(y.get("k") == "AssignOp" and y["op"] == "+" and peel_refs(y["l"]).get("local") == k0.get("local") for y in walk(body2)) and not any(y.get("k") == "LetStmt" and any(b["local"] == k0.get("local") for b in pat_bindings(y["pat"])) for y in walk(body2)):
            res.ok()
            continue
        inner_lets = {}
        for y in walk(body2):
            if y.get("k") == "LetStmt" and y.get("init") is not None and y["pat"].get("k") == "Bind":
                inner_lets[y["pat"]["local"]] = y["init"]
        if k0.get("k") == "Path" and k0.get("local") in inner_lets:
            kexpr = inner_lets[k0["local"]]

        def bounds(itx):
            itx = peel_refs(itx)
            while itx.get("k") in ("Paren", "DropTemps") or (itx.get("k") == "Call" and len(itx["args"]) == 1):
                itx = peel_refs(itx["e"] if itx.get("k") != "Call" else itx["args"][0])
            if itx.get("k") == "Struct":
                fs = {f_["name"]: f_["e"] for f_ in itx.get("fields") or []}
                if "start" in fs and "end" in fs:
                    return fs["start"], fs["end"]
            return None
        b1, b2 = bounds(it), bounds(it2)
        iv = next((b["local"] for b in pat_bindings(pat)), None)
        jv = next((b["local"] for b in pat_bindings(pat2)), None)
        nloc = None
        for y in walk(fn["body"]):
            if y.get("k") == "LetStmt" and y.get("init") is not None and y["pat"].get("k") == "Bind" and peel_refs(y["init"]).get("k") == "MethodCall" and peel_refs(y["init"])["name"] in ("ncols", "nfeatures"):
                nloc = y["pat"]["local"]
        if b1 is None or b2 is None or iv is None or jv is None or nloc is None:
            res.undecided("%s : loop-bounds" % key, "loop bounds / feature count not readable (fail closed)", fn_loc(fn))
            continue
        verdict = None
        for n in (4, 5):
            env = {nloc: n}
            lo1, hi1 = _eval_int(c, b1[0], env), _eval_int(c, b1[1], env)
            if lo1 is None or hi1 is None:
                verdict = "unknown"
                kexpr = b1[1] if hi1 is None else b1[0]
                break
            pos = 0
            for i in range(lo1, hi1):
                env[iv] = i
                lo2, hi2 = _eval_int(c, b2[0], env), _eval_int(c, b2[1], env)
                if lo2 is None or hi2 is None:
                    verdict = "unknown"
                    kexpr = b2[1] if hi2 is None else b2[0]
                    break
                for j in range(lo2, hi2):
                    env[jv] = j
                    kv = _eval_int(c, kexpr, env)
                    if kv is None:
                        verdict = "unknown"
                        break
                    if kv != pos:
                        verdict = "pair (%d, %d) of %d features is the %s visited but is stored at %d" % (i, j, n, ["first", "second", "third", "fourth", "fifth", "sixth", "seventh", "eighth", "ninth", "tenth"][pos] if pos < 10 else "%d-th" % (pos + 1), kv)
                        break
                    pos += 1
                if verdict:
                    break
            if verdict:
                break
        if verdict is None:
            res.ok()
        elif verdict == "unknown":
            res.undecided("%s : packed-index" % key, "`%s` could not be evaluated (fail closed)" % r.e(kexpr)[:40], fn_loc(fn, w.get("ln")))
        else:
            res.violate("%s : packed-index-order" % key, "`%s`: %s - the coefficients are those of other feature pairs than the row-by-row order of get_coeffs() and Display says (identical up to 3 features)" % (r.e(kexpr)[:40], verdict), fn_loc(fn, w.get("ln")))
    return res.finish(1)


def rule_f1(ctx):
    """`f1_score` is documented as the F-beta score for beta = 1: whatever kind of matrix it is called on, it is `f_score(1)`.
    A path that computes something else (a macro average over one-vs-all splits for more than two classes, say) makes the two
    entry points disagree on the inputs that take it."""
    res = RuleResult("R-C05-f1", "every path of ConfusionMatrix::f1_score returns self.f_score(1)")
    F = ctx.facts()
    fns = fns_named(F, "f1_score", adt="ConfusionMatrix")
    if not fns:
        res.missing_anchor("ConfusionMatrix::f1_score")
    for fn in fns:
        c = fn["crate"]
        r = Render(c)
        key = fn_key(fn)
        res.instance(key)

        def tails(e):
            e = strip(e)
            if e.get("k") == "Block" and e.get("e") is not None:
                return tails(e["e"])
            if e.get("k") == "If" and e.get("else") is not None:
                return tails(e["then"]) + tails(e["else"])
            if e.get("k") == "Match":
                return [t for a in e["arms"] for t in tails(a["body"])]
            return [e]
        ts = tails(fn["body"]) + [y["e"] for y in walk(fn["body"]) if y.get("k") == "Ret" and y.get("e") is not None]

        def is_f1(e):
            e = peel_refs(e)
            return e.get("k") == "MethodCall" and e["name"] == "f_score" and peel_refs(e["recv"]).get("name") == "self" and len(e["args"]) == 1 and _const_float(c, e["args"][0]) == 1
        good = [t for t in ts if is_f1(t)]
        other = [t for t in ts if not is_f1(t)]
        if good and not other:
            res.ok()
        elif good and other:
            res.violate("%s : f1-paths-disagree" % key, "one path returns `self.f_score(1.0)`, another `%s`: for the inputs that take the second path f1_score() is not the F-beta score for beta = 1" % r.e(other[0])[:60], fn_loc(fn, other[0].get("ln")))
        else:
            res.undecided("%s : f1-form" % key, "f1_score does not forward to f_score (fail closed): `%s`" % r.e(ts[0])[:50] if ts else "no value", fn_loc(fn))
    return res.finish(1)


def rule_union(ctx):
    """The class list of a confusion matrix is the union of the labels of both sides.  A merge of the two label lists that
    takes elements from one side only while a condition holds (`next_if`) has to drain what is left of that side afterwards:
    otherwise labels that sort after the last label of the other side are not in the list, and the samples carrying them are
    in no cell."""
    res = RuleResult("R-C05-union", "combined_labels leaves no label of either side behind (an iterator consumed conditionally is drained)")
    F = ctx.facts()
    fns = [f for f in F.all_fns() if f["d"]["krate"] == "linfa" and f["d"]["name"] == "combined_labels" and "tests" not in f["d"]["path"]]
    if not fns:
        res.missing_anchor("Labels::combined_labels")
    for fn in fns:
        c = fn["crate"]
        r = Render(c)
        key = fn_key(fn)
        res.instance(key)
        iters = {}
        for y in walk(fn["body"]):
            if y.get("k") == "LetStmt" and y.get("init") is not None and y["pat"].get("k") == "Bind" and any(z.get("k") == "MethodCall" and z["name"] in ("peekable", "into_iter", "iter") for z in [peel_refs(y["init"])]):
                iters[y["pat"]["local"]] = y["pat"]["name"]
        bad = None
        for loc, nm in iters.items():
            uses = [y for y in walk(fn["body"]) if y.get("k") == "MethodCall" and peel_refs(y["recv"]).get("local") == loc]
            other_uses = [y for y in walk(fn["body"]) if y.get("k") == "Path" and y.get("local") == loc]
            cond_only = [u for u in uses if u["name"] in ("next_if", "next_if_eq", "peek", "peek_mut")]
            if uses and len(cond_only) == len(uses) and len(other_uses) == len(uses) and any(u["name"].startswith("next_if") for u in uses):
                bad = (nm, uses[0])
        if bad:
            res.violate("%s : merge-drops-remainder:%s" % (key, bad[0]), "`%s` is consumed only through next_if / next_if_eq: what is left of it when the loop over the other side ends is never taken - labels that sort after the other side's last label are missing from the class list" % bad[0], fn_loc(fn, bad[1].get("ln")))
        else:
            res.ok()
    return res.finish(1)


def rule_centred(ctx):
    """Pearson correlation: the covariance is the product of the *centred* data with itself.  The moment form
    X^T X - n m m^T is equal in exact arithmetic and cancels catastrophically when |mean| is large against the spread, while
    the standard deviations in the denominator stay accurate: the coefficients leave [-1, 1]."""
    res = RuleResult("R-C05-centred", "the covariance behind pearson_correlation is a product of centred data, not a difference of raw moments")
    F = ctx.facts()
    fns = [f for f in F.all_fns() if f["d"]["krate"] == "linfa" and f["d"]["name"] == "pearson_correlation" and "tests" not in f["d"]["path"]]
    if not fns:
        res.missing_anchor("pearson_correlation")
    for fn in fns:
        c = fn["crate"]
        r = Render(c)
        key = fn_key(fn)
        res.instance(key)
        params = {b["local"] for p_ in fn["params"] for b in pat_bindings(p_)}

        def raw(e):
            e = peel_refs(e)
            while e.get("k") == "MethodCall" and e["name"] in ("t", "view", "reversed_axes", "to_owned", "clone"):
                e = peel_refs(e["recv"])
            return e.get("k") == "Path" and e.get("local") in params
        bad = None
        for y in walk(fn["body"]):
            if y.get("k") == "Binary" and y["op"] == "-":
                for z in walk(y["l"]):
                    if z.get("k") == "MethodCall" and z["name"] == "dot" and raw(z["recv"]) and z["args"] and raw(z["args"][0]):
                        if any(w.get("k") == "MethodCall" and w["name"] == "dot" for w in walk(y["r"])):
                            bad = y
        if bad is not None:
            res.violate("%s : covariance-from-raw-moments" % key, "`%s`: the product of the uncentred data minus the outer product of the means - two numbers of size n*mean^2 whose difference is the covariance; with |mean| >> spread nothing of it survives" % r.e(bad)[:70], fn_loc(fn, bad.get("ln")))
        else:
            res.ok()
    return res.finish(1)


def _formula_expected(fm, name):
    """the textbook definition of a single-target regression score in the algebra of rules/formula.py; p = the receiver's
    elements (the prediction), t = the argument's (the truth)"""
    from .calc import Rat
    p, t, n = fm.atom("p"), fm.atom("t"), fm.atom("n")
    one = Rat.const(1)
    S = fm.total
    d = p - t
    m = S(t) / n
    if name == "max_error":
        return fm.extremum("MAX", fm.fn_atom("abs", d))
    if name == "mean_absolute_error":
        return S(fm.fn_atom("abs", d)) / n
    if name == "mean_squared_error":
        return S(d * d) / n
    if name == "mean_squared_log_error":
        lp, lt = fm.fn_atom("ln", one + p), fm.fn_atom("ln", one + t)
        return S((lp - lt) * (lp - lt)) / n
    if name == "mean_absolute_percentage_error":
        return S(fm.fn_atom("abs", d / p)) / n
    if name == "r2":
        return one - S(d * d) / S((t - m) * (t - m))
    if name == "explained_variance":
        md = S(d) / n
        return one - (S(d * d) / n - md * md) / (S((t - m) * (t - m)) / n)
    return None


def rule_formula(ctx):
    """The score functions that are written as one array expression are read into a rational normal form (sums expanded by
    linearity, |u| / ln u / clip u as atoms, literal regularisers of at most 1e-6 set to zero) and compared with the textbook
    definition built in the same algebra.  Decided by cross-multiplication (and by the value of both normal forms at fixed
    rational points with uninterpreted functions), so any way of writing the same formula passes and a formula that differs
    as a function does not."""
    from .formula import Formula, V
    from .calc import Unsupported, Rat
    res = RuleResult("R-C05-formula", "max / mean absolute / mean squared / squared-log / percentage error, R2 and explained variance, F-beta, the macro averages of precision and recall and the log-loss are, as rational functions of their inputs, the textbook definitions")
    F = ctx.facts()
    n = 0

    def read(fn, env_names, setup=None, body=None):
        fm = Formula(F)
        if setup:
            setup(fm)
        env = {}
        ps = [b for p_ in fn["params"] for b in pat_bindings(p_)]
        for b, v in zip(ps, env_names):
            env[b["local"]] = v(fm)
        return fm, fm.expr(fn["crate"], body if body is not None else fn["body"], env)

    def verdict(fn, what, fm, got, want, note=""):
        key = fn_key(fn) + (":" + what if what else "")
        if fm.same(got.r, want):
            res.ok()
            res.sample({"score": key, "normal form": fm.drop_eps(got.r).key()[:160]})
        else:
            res.violate("%s : differs-from-definition:%s" % (key, fm.digest(got.r)), "the expression computed by `%s` is, as a function of its inputs, not the definition%s: computed %s, definition %s" % (fn["d"]["name"], note, fm.drop_eps(got.r).key()[:300], want.key()[:300]), fn_loc(fn))

    elem_p = lambda fm: V("elem", fm.atom("p"))      # noqa: E731
    elem_t = lambda fm: V("elem", fm.atom("t"))      # noqa: E731
    # -- single-target regression scores
    for fn in F.all_fns():
        d = fn["d"]
        if d["krate"] != "linfa" or not (d.get("trait") or "").endswith("SingleTargetRegression") or d.get("pk") != "trait":
            continue
        if d["name"] == "median_absolute_error":
            continue            # an order statistic: R-C05-median
        n += 1
        key = fn_key(fn)
        res.instance(key)
        try:
            fm, got = read(fn, [elem_p, elem_t])
            want = _formula_expected(fm, d["name"])
            if want is None:
                res.undecided("%s : no-definition" % key, "no textbook definition recorded for `%s` (fail closed)" % d["name"], fn_loc(fn))
                continue
            if got.kind != "scal" or isinstance(got.r, tuple):
                raise Unsupported("the result is not a scalar")
            verdict(fn, "", fm, got, want, " (p: receiver, t: argument)")
        except (Unsupported, TypeError, KeyError, AttributeError) as e_:
            res.undecided("%s : not-read" % key, "the expression of `%s` is outside the vocabulary of the formula reader: %s (fail closed)" % (d["name"], e_), fn_loc(fn))
    # -- multi-target regression scores that do not delegate to the single-target ones: read column-wise
    elem2_p = lambda fm: V("elem2", fm.atom("p"))      # noqa: E731
    elem2_t = lambda fm: V("elem2", fm.atom("t"))      # noqa: E731
    for fn in F.all_fns():
        d = fn["d"]
        if d["krate"] != "linfa" or not (d.get("trait") or "").endswith("MultiTargetRegression") or d.get("pk") != "trait":
            continue
        c = fn["crate"]
        if any(y.get("k") == "MethodCall" and (c.dfn(y.get("def")) or {}).get("trait", "").endswith("SingleTargetRegression") for y in walk(fn["body"])):
            continue            # delegation: R-C05-delegate
        if d["name"] == "median_absolute_error":
            continue
        key = fn_key(fn)
        res.instance(key + ":column-wise")
        try:
            fm, got = read(fn, [elem2_p, elem2_t])
            want = _formula_expected(fm, d["name"])
            if want is None or got.kind != "scal" or isinstance(got.r, tuple):
                raise Unsupported("not a per-column score")
            verdict(fn, "column-wise", fm, got, want, " of column j taken over the samples of column j (S: sum over the samples of one column, SS: over the whole matrix)")
        except (Unsupported, TypeError, KeyError, AttributeError) as e_:
            res.undecided("%s : not-read" % key, "the multi-target `%s` neither delegates to the single-target score nor is its expression inside the vocabulary of the formula reader: %s (fail closed)" % (d["name"], e_), fn_loc(fn))
    # -- F-beta, macro averages
    for fn in fns_named(F, "f_score", adt="ConfusionMatrix"):
        n += 1
        key = fn_key(fn)
        res.instance(key)
        try:
            fm, got = read(fn, [lambda fm: V("scal", fm.atom("self")), lambda fm: V("scal", fm.atom("beta"))], setup=lambda fm: fm.opaque.update(("precision", "recall")))
            P, R, b = fm.atom("call:precision"), fm.atom("call:recall"), fm.atom("beta")
            want = (Rat.const(1) + b * b) * P * R / (b * b * P + R)
            verdict(fn, "", fm, got, want, " (1 + b^2) P R / (b^2 P + R)")
        except (Unsupported, TypeError, KeyError, AttributeError) as e_:
            # precision and recall may reach the formula through a helper: read the binary case with everything inlined, down
            # to the cells of the matrix, and compare with the public precision() / recall() read the same way
            try:
                def setup_b(fm):
                    fm.method_bool["is_binary"] = True
                fm, got = read(fn, [lambda fm: V("scal", fm.atom("self")), lambda fm: V("scal", fm.atom("beta"))], setup=setup_b)
                pr = {}
                for nm_ in ("precision", "recall"):
                    g_ = next(iter(fns_named(F, nm_, adt="ConfusionMatrix")), None)
                    if g_ is None:
                        raise Unsupported("no public %s()" % nm_)
                    ps_ = [b_ for p_ in g_["params"] for b_ in pat_bindings(p_)]
                    pr[nm_] = fm.expr(g_["crate"], g_["body"], {ps_[0]["local"]: V("scal", fm.atom("self"))}).r
                b = fm.atom("beta")
                want = (Rat.const(1) + b * b) * pr["precision"] * pr["recall"] / (b * b * pr["precision"] + pr["recall"])
                verdict(fn, "binary", fm, got, want, " (1 + b^2) P R / (b^2 P + R) with P = precision(), R = recall() of the 2x2 matrix")
            except (Unsupported, TypeError, KeyError, AttributeError) as e2_:
                res.undecided("%s : not-read" % key, "f_score is outside the vocabulary of the formula reader: %s / %s (fail closed)" % (e_, e2_), fn_loc(fn))
    for nm in ("precision", "recall"):
        for fn in fns_named(F, nm, adt="ConfusionMatrix"):
            n += 1
            key = fn_key(fn)
            res.instance(key + ":macro")
            body = strip(fn["body"])
            top = strip(body.get("e")) if body.get("k") == "Block" and not body["stmts"] else body
            arm = None
            if top.get("k") == "If" and top.get("else") is not None:
                cond = peel_refs(top.get("cond") or top.get("c"))
                neg = False
                while cond.get("k") == "Unary" and cond["op"] == "!":
                    cond, neg = peel_refs(cond["e"]), not neg
                if cond.get("k") == "MethodCall" and cond["name"] == "is_binary":
                    arm = top["then"] if neg else top["else"]
            if arm is None:
                res.undecided("%s : macro-arm" % key, "the multi-class arm of `%s` (the branch for `!is_binary()`) was not recognised (fail closed)" % nm, fn_loc(fn))
                continue
            try:
                def setup(fm, nm=nm):
                    fm.opaque.update(("precision", "recall", "accuracy", "f1_score", "mcc"))
                    fm.opaque_elem["split_one_vs_all"] = "cm"
                fm, got = read(fn, [lambda fm: V("scal", fm.atom("self"))], setup=setup, body=arm)
                want = fm.total(fm.fn_atom("call:" + nm, fm.atom("cm", elem=True))) / fm.atom("n")
                verdict(fn, "macro", fm, got, want, " (the unweighted mean of the one-vs-all %ss)" % nm)
            except (Unsupported, TypeError, KeyError, AttributeError) as e_:
                res.undecided("%s : not-read" % key, "the multi-class arm of `%s` is outside the vocabulary of the formula reader: %s (fail closed)" % (nm, e_), fn_loc(fn))
    # -- log-loss (the implementation over arrays; the others forward to it)
    for fn in fns_named(F, "log_loss"):
        if not (fn["d"].get("self_adt") or fn["d"].get("self_ty") or "").endswith("ArrayBase") and "ArrayBase" not in fn_key(fn):
            continue
        n += 1
        key = fn_key(fn)
        res.instance(key)
        try:
            fm, got = read(fn, [elem_p, elem_t])
            one = Rat.const(1)
            cp = fm.fn_atom("clip", fm.atom("p"))
            y = fm.atom("t")
            want = fm.total(y * (-fm.fn_atom("ln", cp)) + (one - y) * (-fm.fn_atom("ln", one - cp))) / fm.atom("n")
            verdict(fn, "", fm, got, want, " (mean of -[y ln q + (1 - y) ln(1 - q)], q the clipped probability)")
        except (Unsupported, TypeError, KeyError, AttributeError) as e_:
            res.undecided("%s : not-read" % key, "log_loss is outside the vocabulary of the formula reader: %s (fail closed)" % e_, fn_loc(fn))
    if n < 11:
        res.missing_anchor("the score functions read by the formula rule (found %d)" % n)
    return res.finish(11)


def rules(tier):
    from . import c02
    # the class list of a confusion matrix over a dataset is the key set of its label-count cache: shared with C02
    from . import bitorder
    from . import intnarrow
    return [intnarrow.make_rule("R-C05-narrow", lambda f: f["d"]["krate"] == "linfa" and any(x in fn_file(f) for x in ("metrics_", "correlation")), "the metrics of the linfa crate"),
            rule_formula, rule_packed, rule_f1, rule_union, rule_centred, rule_clip, rule_sorted, bitorder.make_rule("R-C05-bitorder", {"linfa"}, 1, "the linfa crate (probabilities `Pr`, scores of the metrics)"), rule_delegate, rule_degree, rule_orient, rule_roles, rule_count, rule_median, rule_twice, rule_symmetric, rule_reset, c02.rule_counted, c02.rule_search]
