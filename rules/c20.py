"""C20 — determinism: no entropy source, no hash-iteration-order dependence, no schedule-dependent
reduction reaches a learned quantity or prediction (DESIGN.md section 4, C20)."""
import re

from .core import RuleResult
from .facts import fn_key, fn_loc, walk, strip, Render, peel_refs, pat_bindings
from . import taint

LEVEL = ("Static taint classification over every lib body of the workspace: every iteration over a HashMap/HashSet (and every "
         "call of a workspace function that returns a collection in hash-iteration order) is followed to its consumer and must be "
         "order-insensitive (integer count/sum, all/any, value min/max, keyed or per-entry updates, collection into another "
         "hash/b-tree container, or a total sort before any other use); no entropy source (thread_rng, from_entropy, OsRng, "
         "rng-less RandomExt::random, SystemTime/Instant) is called outside the exclusions the property names; builder "
         "constructors seed their RNG from integer literals; every rayon construct writes only through its own per-element "
         "&mut parameters. Holds for all hash seeds, thread counts and schedules at once.")
ASSUME = ["rustc resolution/typeck; HIR faithfully dumped", "third-party crates do not draw entropy unless called through the listed APIs",
          "floating-point identity across machines is not claimed"]

# Exclusions named by the property itself, frozen by symbol (one line of reason each).
ENTROPY_EXCLUDED = {
    "linfa_datasets::": "linfa-datasets generates test data; it is not an estimator",
    "linfa::correlation": "permutation p-values: explicitly unseeded facility (property text)",
    "linfa_ica::": "FastICA without a random state: explicitly outside the claim (property text)",
    "linfa_clustering::k_means::init::k_means_para": "k-means|| initialiser draws from per-thread streams (property text)",
    "linfa_clustering::k_means::init::sample_subsequent_candidates": "helper called only by k_means_para (k-means||): per-thread streams (property text)",
    "linfa_tsne::":"t-SNE is delegated to an external multi-threaded crate (property text)",
}
# hash-order sites the property tolerates, by symbol
HASH_ALLOW = {
    "linfa::<DatasetBase as SilhouetteScore>::silhouette_score": "metric, not an estimator; read: a_x is assigned under equality with the unique key, b_x is a min-of-value reduction",
    "linfa_preprocessing::CountVectorizerValidParams::hashmap_to_vocabulary": "vocabulary columns are numbered in hash order; the property compares vocabularies as word-to-column maps",
    "linfa_preprocessing::hashmap_to_vocabulary": "vocabulary columns are numbered in hash order; the property compares vocabularies as word-to-column maps",
}


def dkey(d):
    return d["krate"] + d.get("raw", d["path"])


def _fill_fn_index(F):
    if not taint.FN_INDEX:
        for f in F.all_fns():
            taint.FN_INDEX[(f["d"]["krate"], f["d"].get("raw"))] = f


def rule_hash(ctx):
    _fill_fn_index(ctx.facts())
    res = RuleResult("R-C20-hash", "every hash-container iteration (direct or through an order-returning workspace fn) has an order-insensitive consumer")
    F = ctx.facts()
    derived = {}   # dkey -> (fn, how)
    sites = []
    # pass 1: direct iterations
    for fn in F.all_fns():
        srcs = taint.hash_sources(fn)
        if not srcs:
            continue
        pm = taint.parent_map(fn["body"])
        for i, (node, how) in enumerate(srcs):
            cons = taint.classify(fn, node, pm)
            sites.append((fn, i, node, how, cons))
            if cons.verdict == "derived":
                derived[dkey(fn["d"])] = (fn, how)
    # pass 2 (to a fixpoint): calls of functions that return hash order
    seen_calls = set()
    changed = True
    rounds = 0
    while changed and rounds < 4:
        changed = False
        rounds += 1
        for fn in F.all_fns():
            c = fn["crate"]
            pm = None
            idx = 0
            for n in walk(fn["body"]):
                d = None
                if n.get("k") == "MethodCall":
                    d = c.dfn(n.get("def"))
                elif n.get("k") == "Call":
                    f = strip(n["f"])
                    d = c.dfn(f.get("def")) if f.get("k") == "Path" else None
                if d is None or dkey(d) not in derived:
                    continue
                idx += 1
                sid = (dkey(fn["d"]), idx, dkey(d))
                if sid in seen_calls:
                    continue
                seen_calls.add(sid)
                if pm is None:
                    pm = taint.parent_map(fn["body"])
                cons = taint.follow_collection(fn, n, pm, "call " + d["name"]) if not is_iter_ty(c.ty(n.get("t"))) else taint.classify(fn, n, pm)
                sites.append((fn, 100 + idx, n, "call of %s (returns hash order)" % d["name"], cons))
                if cons.verdict == "derived" and dkey(fn["d"]) not in derived:
                    derived[dkey(fn["d"])] = (fn, "via " + d["name"])
                    changed = True
    for fn, i, node, how, cons in sites:
        key = fn_key(fn)
        ordinal = sum(1 for f2, i2, _, _, _ in sites if f2 is fn and i2 < i)
        inst = "%s : #%d %s" % (key, ordinal, how)
        res.instance(inst)
        if cons.verdict == "ok":
            res.ok()
            res.sample({"site": inst, "consumer": cons.how})
        elif cons.verdict == "undecided":
            res.undecided("%s : #%d selection-written-out" % (key, ordinal), "%s: %s" % (how, cons.how), fn_loc(fn, cons.node.get("ln") if isinstance(cons.node, dict) else None))
        elif cons.verdict == "derived":
            # order escapes to the caller; accounted for at the call sites (pass 2) unless it is a public API
            if fn["vis"] == "pub" and fn["d"].get("krate") and not is_internal(fn):
                allow = allowed(fn)
                if allow:
                    res.ok()
                    res.info.append("allowed: %s — %s" % (key, allow))
                else:
                    res.violate("%s : #%d returns-hash-order" % (key, ordinal), "public function returns a collection in hash-iteration order (%s)" % how, fn_loc(fn, node.get("ln")))
            else:
                res.ok()
        else:
            allow = allowed(fn)
            if allow:
                res.ok()
                res.info.append("allowed: %s — %s" % (key, allow))
                continue
            tag = "order" if cons.verdict == "order" else "unclassified"
            res.violate("%s : #%d %s" % (key, ordinal, tag),
                        "%s: %s [%s]" % (how, cons.how, cons.detail), fn_loc(fn, cons.node.get("ln") if isinstance(cons.node, dict) else None))
    res.info.append("order-returning workspace functions: %s" % sorted(fn_key(f) for f, _ in derived.values()))
    return res.finish(20)


def is_iter_ty(t):
    return bool(t) and ("::Iter<" in t or "::IntoIter<" in t or "::Keys<" in t or "::Values<" in t or t.startswith("impl "))


# public functions that hand hash order to their caller and are not estimator outputs; every workspace
# caller is classified in turn (pass 2), so nothing is hidden by these entries
# (empty since fix 7181a8d: Labels::labels / combined_labels used to be listed here as "dataset accessors"; their hash
# order reached MultiClassModel's tie-break through one_vs_all, a genuine violation, and they now sort)
DERIVED_OK = {}


def is_internal(fn):
    return fn_key(fn) in DERIVED_OK


def allowed(fn):
    k = fn_key(fn)
    for sym, why in HASH_ALLOW.items():
        if k == sym or k.endswith("::" + sym.split("::", 1)[-1]):
            return why
    return None


ENTROPY_NAMES = {"thread_rng", "from_entropy", "from_os_rng", "from_rng_entropy"}


def rule_entropy(ctx):
    res = RuleResult("R-C20-entropy", "no entropy source is called in lib code outside the exclusions the property names")
    F = ctx.facts()
    n_calls = 0
    for fn in F.all_fns():
        c = fn["crate"]
        key = fn_key(fn)
        for n in walk(fn["body"]):
            d = None
            if n.get("k") == "MethodCall":
                d = c.dfn(n.get("def"))
                nargs = len(n["args"])
            elif n.get("k") == "Path" and "def" in n:
                d = c.dfn(n["def"])
                nargs = None
            if d is None:
                continue
            n_calls += 1
            why = None
            p = d["path"]
            if d["name"] in ENTROPY_NAMES and d["krate"] in ("rand", "rand_core", "rand_xoshiro", "ndarray_rand"):
                why = "%s (entropy-seeded generator)" % p
            elif d["krate"] == "ndarray_rand" and d["name"] == "random" and "RandomExt" in (d.get("trait") or ""):
                why = "RandomExt::random (no rng argument: draws from thread_rng)"
            elif d["krate"] == "rand" and d["name"] == "random" and d["kind"] == "Fn":
                why = "rand::random (thread_rng)"
            elif "OsRng" in p and d["kind"] in ("Struct", "Ctor"):
                why = "OsRng"
            elif d["krate"] == "std" and d["name"] == "now" and ("Instant" in p or "SystemTime" in p):
                why = "wall-clock time %s" % p
            elif d["krate"] == "std" and "RandomState" in p and d["name"] == "new":
                why = "RandomState::new used directly"
            if why is None:
                continue
            full = "%s::%s" % (fn["d"]["krate"], fn["d"]["path"])
            excl = None
            for sym, reason in ENTROPY_EXCLUDED.items():
                if full.startswith(sym) or key.startswith(sym) or sym in full:
                    excl = reason
            inst = "%s : %s" % (key, why.split(" ")[0])
            res.instance(inst)
            if excl and fn["d"]["krate"] == "linfa_ica":
                # the exclusion is "FastICA *without a random state*": the entropy source sits on the no-seed side of a test
                # of the Option itself - not under a particular seed value (a `0 => unseeded` convention makes seed 0 random)
                from .layout import with_parents as _wp
                anc = next((a for y, a in _wp(fn["body"]) if y is n), [])
                verdict = None
                for i_, a in enumerate(anc):
                    nxt = anc[i_ + 1] if i_ + 1 < len(anc) else n
                    if a.get("k") == "Match" and a.get("src", "Normal") == "Normal":
                        for arm in a["arms"]:
                            if any(z is n for z in walk(arm["body"])):
                                p_ = arm["pat"]
                                while p_.get("k") == "Ref":
                                    p_ = p_["pat"]
                                if p_.get("k") == "Lit":
                                    verdict = "literal:%s" % p_.get("v")
                                elif p_.get("k") == "Path" and (c.dfn(p_.get("def")) or {}).get("name") == "None":
                                    verdict = verdict or "none"
                    if a.get("k") == "If":
                        cnd = strip(a["c"])
                        if cnd.get("k") == "Let" and a.get("else") is not None and any(z is n for z in walk(a["else"])):
                            verdict = verdict or "none"
                        if cnd.get("k") == "Binary" and cnd["op"] in ("==", "!=") and any(peel_refs(s_).get("k") == "Lit" for s_ in (cnd["l"], cnd["r"])):
                            verdict = "literal:comparison"
                if verdict is not None and verdict.startswith("literal"):
                    res.violate("%s : entropy-for-a-seed-value" % inst, "the unseeded generator is used under a test of the seed's *value* (%s), not of its absence: a caller who asks for that seed gets a different result on every call" % verdict.split(":", 1)[1], fn_loc(fn, n.get("ln")))
                else:
                    res.ok()
                    res.info.append("excluded by the property: %s — %s" % (inst, excl))
            elif excl:
                res.ok()
                res.info.append("excluded by the property: %s — %s" % (inst, excl))
            else:
                res.violate(inst, "entropy source %s reachable in lib code" % why, fn_loc(fn, n.get("ln")))
    res.obligations += 1
    res.discharged += 1
    res.sample({"resolved callee references scanned": n_calls})
    res.info.append("scanned %d resolved callee references" % n_calls)
    return res.finish(2)


RNG_CTORS = {"seed_from_u64", "from_seed", "from_rng"}


def rule_seed(ctx):
    res = RuleResult("R-C20-seed", "every RNG constructed in lib code is seeded from an integer literal or from a caller-supplied seed/RNG")
    F = ctx.facts()
    for fn in F.all_fns():
        c = fn["crate"]
        key = fn_key(fn)
        param_ids = set()
        from .facts import pat_bindings
        for p in fn["params"]:
            for b in pat_bindings(p):
                param_ids.add(b["local"])
        idx = 0
        for n in walk(fn["body"]):
            if n.get("k") != "Call":
                continue
            f = strip(n["f"])
            d = c.dfn(f.get("def")) if f.get("k") == "Path" else None
            if d is None or d["name"] not in RNG_CTORS or "SeedableRng" not in (d.get("trait") or d["path"]):
                continue
            idx += 1
            inst = "%s : #%d %s" % (key, idx, d["name"])
            res.instance(inst)
            arg = strip(n["args"][0]) if n["args"] else None
            lits = [x for x in walk(arg)] if arg else []
            from_param = any(x.get("k") == "Path" and x.get("local") in param_ids for x in lits)
            self_field = any(x.get("k") == "Path" and x.get("name") == "self" for x in lits)
            # a named constant (`Self::DEFAULT_SEED`, a `const SEED: u64`) is a compile-time value like a literal
            is_const = lambda x: x.get("k") == "Path" and "def" in x and str((c.dfn(x["def"]) or {}).get("kind", "")).startswith(("Const", "AssocConst", "AssociatedConst", "InlineConst"))
            only_lits = arg is not None and all(x.get("k") in ("Lit", "Cast", "Array", "Repeat", "Ref", "Unary", "Binary", "Paren", "DropTemps") or is_const(x) for x in lits)
            if only_lits:
                res.ok()
                res.sample({"site": inst, "seed": Render(c).e(arg)})
            elif from_param or self_field:
                res.ok()
                res.info.append("%s: seeded from a caller-supplied value (%s)" % (inst, Render(c).e(arg)[:60]))
            else:
                excl = None
                full = "%s::%s" % (fn["d"]["krate"], fn["d"]["path"])
                for sym, reason in ENTROPY_EXCLUDED.items():
                    if full.startswith(sym) or sym in full:
                        excl = reason
                if excl:
                    res.ok()
                    res.info.append("excluded by the property: %s — %s" % (inst, excl))
                else:
                    res.violate(inst, "RNG seeded from a value that is neither a literal nor caller-supplied: %s" % Render(c).e(arg)[:80], fn_loc(fn, n.get("ln")))
    return res.finish(5)


PAR_NAMES = {"par_for_each", "par_map_collect", "par_map_assign_into", "par_iter", "par_iter_mut", "into_par_iter", "par_bridge",
             "par_chunks", "par_chunks_mut", "par_azip", "par_apply", "par_mapv_inplace", "par_map_inplace", "map_init", "join", "scope", "spawn"}
PAR_EXCLUDED = {"k_means_para": "k-means|| initialiser: excluded by the property text",
                "sample_subsequent_candidates": "candidate sampling of the k-means|| initialiser (its per-split generators are the 'per-thread streams' the property text excludes)"}


def rule_par(ctx):
    res = RuleResult("R-C20-par", "every parallel construct writes only through its own per-element &mut parameters (no shared mutable capture, no parallel float reduction)")
    F = ctx.facts()
    for fn in F.all_fns():
        c = fn["crate"]
        key = fn_key(fn)
        idx = 0
        pm = None
        for n in walk(fn["body"]):
            d = None
            if n.get("k") == "MethodCall":
                d = c.dfn(n.get("def"))
            elif n.get("k") == "Call":
                f = strip(n["f"])
                d = c.dfn(f.get("def")) if f.get("k") == "Path" else None
            if d is None:
                continue
            is_par = d["krate"] in ("rayon", "rayon_core") or (d["krate"] == "ndarray" and (d["name"].startswith("par_") or "parallel" in d["path"]))
            if not is_par:
                continue
            if d["name"] in ("map_init", "for_each_init", "map_with", "for_each_with", "fold_with", "try_for_each_init", "try_for_each_with", "flat_map_init") and n.get("k") == "MethodCall" and n["args"]:
                # per-split state: rayon calls the init closure (or clones the value) once per *split*, and where the
                # splits fall depends on the number of threads and on work stealing. State that influences the output
                # - a random generator, a counter - makes the result schedule-dependent.
                init = strip(n["args"][0])
                src = None
                for y in walk(init):
                    dd = None
                    if y.get("k") == "Call":
                        f_ = strip(y["f"])
                        dd = c.dfn(f_.get("def")) if f_.get("k") == "Path" else None
                    elif y.get("k") == "MethodCall":
                        dd = c.dfn(y.get("def"))
                    if dd and (dd["name"] in ("seed_from_u64", "from_seed", "from_rng", "thread_rng", "from_entropy", "fetch_add", "fetch_sub", "gen", "gen_range", "next_u64", "next_u32") or (dd["name"] == "clone" and re.search(r"Rng|rng|Xoshiro|StdRng|SmallRng", c.ty(y.get("t")) or ""))):
                        src = dd["name"]
                        break
                if src is None and init.get("k") != "Closure" and re.search(r"Rng|Xoshiro|StdRng|SmallRng", c.ty(init.get("t")) or ""):
                    src = "a cloned generator"
                idx += 1
                inst = "%s : #%d %s" % (key, idx, d["name"])
                res.instance(inst)
                if any(sym in key or sym in fn["d"]["path"] for sym in PAR_EXCLUDED):
                    res.ok()
                    res.info.append("excluded by the property: %s" % inst)
                elif src is not None:
                    res.violate(inst + " : generator-per-split", "`%s` creates its state (%s) once per split of the parallel range, and the splits depend on the number of threads and on work stealing: the random number an element receives - and everything computed from it - differs between runs with the same seed" % (d["name"], src), fn_loc(fn, n.get("ln")))
                else:
                    res.ok()
                continue
            if d["name"] not in PAR_NAMES and not d["name"].startswith("par_"):
                # adaptor/consumer inside a parallel chain: classified below when it is a reduction
                if d["name"] in ("sum", "reduce", "fold", "product", "reduce_with", "try_reduce", "min_by", "max_by", "min_by_key", "max_by_key", "find_any", "position_any", "for_each"):
                    t = c.ty(n.get("t")) or ""
                    idx += 1
                    inst = "%s : #%d parallel %s" % (key, idx, d["name"])
                    res.instance(inst)
                    if any(sym in key or sym in fn["d"]["path"] for sym in PAR_EXCLUDED):
                        res.ok()
                        res.info.append("excluded by the property: %s" % inst)
                    elif d["name"] in ("sum", "product") and taint.INT_RE.match(t):
                        res.ok()
                    elif d["name"] == "for_each":
                        verdict_closure(res, fn, n, inst)
                    else:
                        res.violate(inst, "parallel reduction `%s` (%s): the combination order depends on the schedule" % (d["name"], t), fn_loc(fn, n.get("ln")))
                continue
            idx += 1
            inst = "%s : #%d %s" % (key, idx, d["name"])
            res.instance(inst)
            if any(sym in key or sym in fn["d"]["path"] for sym in PAR_EXCLUDED):
                res.ok()
                res.info.append("excluded by the property: %s" % inst)
                continue
            if d["name"] in ("par_for_each", "par_azip", "par_apply", "par_mapv_inplace", "par_map_inplace", "par_map_collect", "par_map_assign_into"):
                verdict_closure(res, fn, n, inst)
            elif any(w in d["name"] for w in ("fold", "reduce", "sum", "product")):
                # ndarray's Zip::par_fold & co: the partial results are combined in schedule order
                t = c.ty(n.get("t")) or ""
                if taint.INT_RE.match(t):
                    res.ok()
                else:
                    res.violate(inst, "parallel reduction `%s` (%s): the partial results are combined in an order that depends on how the work is split and stolen" % (d["name"], t), fn_loc(fn, n.get("ln")))
            else:
                # par_iter & co: the chain's terminal is classified when reached (above); record the site
                res.ok()
    return res.finish(3)


def verdict_closure(res, fn, call, inst):
    c = fn["crate"]
    clos = [strip(a) for a in call["args"] if strip(a).get("k") == "Closure"]
    if not clos:
        res.violate(inst + " : no-closure", "parallel construct with a non-closure body cannot be classified (fail closed)", fn_loc(fn, call.get("ln")))
        return
    bad = []
    for cl in clos:
        for cap in cl.get("captures", []):
            if cap["by"] in ("Mutable", "UniqueImmutable", "MutBorrow", "UniqueImmBorrow") or "Mut" in cap["by"] or "Unique" in cap["by"]:
                bad.append(cap["name"])
            elif cap["by"] in ("value", "use"):
                # moved-in captures: fine unless they are shared-mutable handles
                pass
    if bad:
        res.violate(inst + " : mutable-capture:" + ",".join(sorted(set(bad))),
                    "parallel closure captures %s mutably: the result can depend on the schedule" % sorted(set(bad)), fn_loc(fn, call.get("ln")))
    else:
        res.ok()
        res.sample({"site": inst, "captures": [(x["name"], x["by"]) for cl in clos for x in cl.get("captures", [])]})


def _hash_ty(t):
    return bool(t) and ("HashMap<" in t or "HashSet<" in t)


def order_tainted_values(F):
    """{(value type text, component index)}: components of hash-map values that are assigned in hash-iteration order -
    `map.insert(k, (map.len(), ..))` or a running counter, inside a loop over a hash container.  Such a component is a
    different number from run to run although the map's key set is not."""
    out = {}
    for fn in F.all_fns():
        c = fn["crate"]
        for loop in walk(fn["body"]):
            if loop.get("k") != "Match" or loop.get("src") != "ForLoopDesugar":
                continue
            it = loop["scrut"]
            src_ty = " ".join((c.ty(y.get("t")) or "") for y in walk(it) if y.get("k") in ("Path", "MethodCall", "Field"))
            if not _hash_ty(src_ty):
                continue
            # locals that hold a length / counter
            counters = set()
            for y in walk(loop):
                if y.get("k") == "LetStmt" and y.get("init") is not None and y["pat"].get("k") == "Bind":
                    i0 = peel_refs(y["init"])
                    if i0.get("k") == "MethodCall" and i0["name"] == "len" and _hash_ty(c.ty(peel_refs(i0["recv"]).get("t")) or c.ty(i0["recv"].get("at")) or ""):
                        counters.add(y["pat"]["local"])
                if y.get("k") == "AssignOp" and y["op"] == "+" and peel_refs(y["l"]).get("k") == "Path" and "local" in peel_refs(y["l"]):
                    counters.add(peel_refs(y["l"])["local"])
            for y in walk(loop):
                if y.get("k") != "MethodCall" or y["name"] not in ("insert", "or_insert", "or_insert_with") or not y["args"]:
                    continue
                val = peel_refs(y["args"][-1])
                rty = c.ty(peel_refs(y["recv"]).get("t")) or ""
                if y["name"] == "insert" and "HashMap<" not in rty:
                    continue
                comps = val["es"] if val.get("k") == "Tup" else [val]
                for i_, e in enumerate(comps):
                    dep = any(z.get("k") == "Path" and z.get("local") in counters for z in walk(e)) or any(z.get("k") == "MethodCall" and z["name"] == "len" and _hash_ty(c.ty(peel_refs(z["recv"]).get("t")) or "") for z in walk(e))
                    if dep:
                        vt = c.ty(val.get("t")) or ""
                        out[(vt, i_ if val.get("k") == "Tup" else -1)] = (fn, y)
    return out


def rule_sortkey(ctx):
    """A sort over the entries of a hash map is reproducible when its key is a total order on reproducible data: the
    entry's map key is unique, so everything after it in a lexicographic key is irrelevant - but a component *before* it
    must itself be reproducible.  Value components that were numbered in hash-iteration order (provisional indices) are
    not; ranked before the map key they decide ties differently in every process."""
    res = RuleResult("R-C20-sortkey", "lexicographic sort keys over hash-map entries rank no hash-order-numbered value component before the (unique) map key")
    F = ctx.facts()
    tainted = order_tainted_values(F)
    res.info.append("value components numbered in hash-iteration order: %s" % sorted("%s#%d in %s" % (t[:40], i, fn_key(f)) for (t, i), (f, _) in tainted.items()))
    n = 0
    for fn in F.all_fns():
        c = fn["crate"]
        if fn.get("exp"):
            continue
        for y in walk(fn["body"]):
            # a closure over (key, value) entries of a hash map that builds a tuple
            if y.get("k") != "MethodCall" or y["name"] not in ("map", "sort_by_key", "sort_unstable_by_key", "sort_by_cached_key", "max_by_key", "min_by_key", "sorted_by_key"):
                continue
            if not y["args"]:
                continue
            clo = strip(y["args"][-1])
            if clo.get("k") != "Closure" or len(clo["params"]) != 1:
                continue
            recv_ty = " ".join((c.ty(z.get("t")) or "") for z in walk(y["recv"]) if z.get("k") in ("Path", "MethodCall", "Field"))
            if "HashMap<" not in recv_ty:
                continue
            pat = clo["params"][0]
            while pat.get("k") == "Ref":
                pat = pat.get("pat")
            if pat.get("k") != "Tuple" or len(pat["pats"]) != 2:
                continue
            body = strip(clo["body"])
            while body.get("k") == "Block" and not body.get("stmts") and body.get("e") is not None:
                body = strip(body["e"])
            if body.get("k") != "Tup":
                continue
            # is the tuple a sort key?  (map(..) feeding sorted / sort / collect-then-sort is decided by the consumer; the
            # by_key adaptors are sort keys by themselves)
            is_key = y["name"] != "map"
            if not is_key:
                par = [z for z in walk(fn["body"]) if z.get("k") in ("Call", "MethodCall") and any(a is y or any(w is y for w in walk(a)) for a in (z.get("args") or []) + ([z["recv"]] if z.get("k") == "MethodCall" else []))]
                for z in par:
                    nm = z["name"] if z.get("k") == "MethodCall" else (c.dfn(strip(z["f"]).get("def")) or {}).get("name") if strip(z["f"]).get("k") == "Path" else None
                    if nm in ("sorted", "sorted_unstable", "sort", "sorted_by", "min", "max", "collect_sorted"):
                        is_key = True
            if not is_key:
                continue
            n += 1
            key = fn_key(fn)
            res.instance("%s : sort key over hash-map entries" % key)
            keyb = set(b["local"] for b in pat_bindings(pat["pats"][0]))
            vpat = pat["pats"][1]
            while vpat.get("k") == "Ref":
                vpat = vpat.get("pat")
            vcomps = vpat["pats"] if vpat.get("k") == "Tuple" else [vpat]
            vty = None
            for (t, i_), _ in tainted.items():
                if t and t in recv_ty.replace(" ", "") or t in recv_ty:
                    vty = t
            tl = {}
            for i_, q in enumerate(vcomps):
                idx = i_ if vpat.get("k") == "Tuple" else -1
                if vty is not None and (vty, idx) in tainted:
                    for b in pat_bindings(q):
                        tl[b["local"]] = (b["name"], tainted[(vty, idx)][0])
            pos_key = None
            pos_t = None
            for i_, e in enumerate(body["es"]):
                locs = set(z.get("local") for z in walk(e) if z.get("k") == "Path" and "local" in z)
                if pos_key is None and locs & keyb:
                    pos_key = i_
                if pos_t is None and locs & set(tl):
                    pos_t = (i_, [tl[l] for l in locs & set(tl)][0])
            if pos_t is not None and (pos_key is None or pos_t[0] < pos_key):
                nm, src = pos_t[1]
                res.violate("%s : order-numbered-component-before-key:%s" % (key, nm), "the sort key ranks `%s` before the map key: `%s` is numbered in hash-iteration order (%s), so entries that tie on the earlier components are ordered differently from process to process, and whatever is cut or numbered after the sort differs with it" % (nm, nm, fn_key(src)), fn_loc(fn, body.get("ln")))
            else:
                res.ok()
    if n < 1:
        res.missing_anchor("the sort key of CountVectorizerValidParams::filter_vocabulary (max_features cut)")
    return res.finish(1)


def rules(tier):
    from . import carry, c09, c17
    # the k-means|| initialiser is outside the claim: no other initialiser's arm may hand over to it
    # same hyperparameters, same documents, same vocabulary - whatever the parameter set was used for before: the compiled
    # tokeniser is that of the expression configured now (shared with C17)
    return [c17.rule_regexfresh, c09.rule_initdispatch, rule_hash, rule_entropy, rule_seed, rule_par, rule_sortkey,
            carry.make_accessor_rule("R-C20-accessor", {"linfa", "linfa_bayes", "linfa_clustering", "linfa_elasticnet", "linfa_ftrl", "linfa_hierarchical", "linfa_ica", "linfa_kernel", "linfa_linear", "linfa_logistic", "linfa_nn", "linfa_pls", "linfa_preprocessing", "linfa_reduction", "linfa_svm", "linfa_trees", "linfa_tsne", "linfa_datasets"}, 80)]
