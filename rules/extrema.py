"""E-X: identity-element rule for running extrema.

A running maximum must start from the lowest value (-infinity / min_value) and a running minimum from the highest
(+infinity / max_value) - or from an element of the data. Started from a *named float constant of the wrong end or of
the wrong kind* (`infinity` for a max, `min_positive_value` - the smallest positive float, not the most negative one -
for a max, `epsilon`, ...), the start value wins against part or all of the data and the "extremum" is wrong for
inputs on the far side of it (all-negative columns, ...). Literals and data-derived starts are not judged."""
from .facts import walk, strip, peel_refs, pat_bindings, Render

LOW = {"neg_infinity", "min_value"}
HIGH = {"infinity", "max_value"}
NAMED = LOW | HIGH | {"min_positive_value", "epsilon", "nan"}


def const_kind(c, n):
    """('low'|'high'|'named:<x>'|'literal'|'data', text)"""
    n0 = peel_refs(n)
    neg = False
    while n0.get("k") == "Unary" and n0["op"] == "-":
        neg = not neg
        n0 = peel_refs(n0["e"])
    if n0.get("k") == "Lit":
        return "literal", n0.get("v")
    nm = None
    if n0.get("k") == "Call" and not n0["args"]:
        f = strip(n0["f"])
        d = c.dfn(f.get("def")) if f.get("k") == "Path" else None
        nm = d["name"] if d else None
    elif n0.get("k") == "Path" and "def" in n0:
        d = c.dfn(n0["def"])
        nm = d["name"] if d else None
        if nm not in NAMED and nm not in ("INFINITY", "NEG_INFINITY", "MAX", "MIN", "MIN_POSITIVE", "EPSILON"):
            nm = None
    if nm is None:
        return "data", None
    nm = {"INFINITY": "infinity", "NEG_INFINITY": "neg_infinity", "MAX": "max_value", "MIN": "min_value", "MIN_POSITIVE": "min_positive_value", "EPSILON": "epsilon"}.get(nm, nm)
    if nm in LOW:
        return ("high" if neg else "low"), ("-" if neg else "") + nm
    if nm in HIGH:
        return ("low" if neg else "high"), ("-" if neg else "") + nm
    if nm in NAMED:
        return "named:" + nm, ("-" if neg else "") + nm
    return "data", None


def closure_op(c, clo):
    """'max' / 'min' when the closure returns the larger / smaller of its two parameters, else None"""
    clo = strip(clo)
    if clo.get("k") == "Path" and "def" in clo:
        d = c.dfn(clo["def"])
        return d["name"] if d and d["name"] in ("max", "min") else None
    if clo.get("k") != "Closure" or len(clo["params"]) != 2:
        return None
    ps = [set(b["local"] for b in pat_bindings(p)) for p in clo["params"]]
    body = strip(clo["body"])
    while body.get("k") == "Block" and not body["stmts"] and body.get("e"):
        body = strip(body["e"])

    def which(n):
        n = peel_refs(n)
        if n.get("k") == "Path" and "local" in n:
            for i, s_ in enumerate(ps):
                if n["local"] in s_:
                    return i
        return None
    if body.get("k") == "MethodCall" and body["name"] in ("max", "min") and len(body["args"]) == 1:
        if {which(body["recv"]), which(body["args"][0])} == {0, 1}:
            return body["name"]
    if body.get("k") == "Call" and len(body["args"]) == 2:
        f = strip(body["f"])
        d = c.dfn(f.get("def")) if f.get("k") == "Path" else None
        if d and d["name"] in ("max", "min") and {which(body["args"][0]), which(body["args"][1])} == {0, 1}:
            return d["name"]
    if body.get("k") == "If" and body.get("else"):
        cond = strip(body["c"])
        if cond.get("k") == "Binary" and cond["op"] in ("<", "<=", ">", ">="):
            l, r_ = which(cond["l"]), which(cond["r"])
            t, e = which(strip(body["then"]).get("e") if strip(body["then"]).get("k") == "Block" else body["then"]), which(strip(body["else"]).get("e") if strip(body["else"]).get("k") == "Block" else body["else"])
            if None not in (l, r_, t, e) and {l, r_} == {0, 1} and {t, e} == {0, 1}:
                greater_wins = (cond["op"] in (">", ">=") and t == l) or (cond["op"] in ("<", "<=") and t == r_)
                return "max" if greater_wins else "min"
    return None


def sites(fn):
    """yields (node, op, start_kind, start_text, what) for every running extremum with a recognisable start value"""
    c = fn["crate"]
    r = Render(c)
    for n in walk(fn["body"]):
        if n.get("k") != "MethodCall":
            continue
        if n["name"] in ("fold", "fold_axis", "par_fold") and len(n["args"]) >= 2:
            init, clo = (n["args"][-2], n["args"][-1])
            op = closure_op(c, clo)
            if op:
                kind, text = const_kind(c, init)
                yield n, op, kind, text, "%s(.., %s, %s-closure)" % (n["name"], r.e(init)[:30], op)


def verdict(op, kind):
    """True ok / False violation / None not judged"""
    if kind in ("literal", "data"):
        return None
    if op == "max":
        return kind == "low"
    return kind == "high"


def incumbents(fn):
    """Running best-of-n kept in locals: `if cand < best { saved = ..; [best = cand;] }` inside a loop.
    yields dict(node, best, best_name, saved, updated, evidence) for every such test where
      * `best` is a local declared outside the enclosing loop,
      * the then-branch assigns at least one other local declared outside the loop and neither breaks nor returns,
      * `best` is an incumbent and not a fixed threshold: it was declared in the same `let` pattern as a saved local
        (`let (mut best_c, best_cost) = candidate()`), or starts from an identity element (infinity / max_value ...),
        or is assigned somewhere in the function.
    `updated` tells whether the branch (or a statement after it in the loop body) assigns `best`."""
    c = fn["crate"]
    from .layout import with_parents
    decl = {}       # local -> (LetStmt node, set of sibling locals of the same pattern)
    names = {}
    for n in walk(fn["body"]):
        if n.get("k") == "LetStmt":
            bs = [b for b in pat_bindings(n["pat"])]
            for b in bs:
                decl[b["local"]] = (n, set(x["local"] for x in bs) - {b["local"]})
                names[b["local"]] = b["name"]
    assigned = {}
    for n in walk(fn["body"]):
        if n.get("k") in ("Assign", "AssignOp"):
            t = peel_refs(n["l"])
            if t.get("k") == "Path" and "local" in t:
                assigned.setdefault(t["local"], []).append(n)
    for n, anc in with_parents(fn["body"]):
        if n.get("k") != "If":
            continue
        loops = [a for a in anc if a.get("k") == "Loop"]
        if not loops:
            continue
        loop = loops[-1]
        cond = strip(n["c"])
        if cond.get("k") != "Binary" or cond["op"] not in ("<", "<=", ">", ">="):
            continue
        inside = set()
        for x in walk(loop):
            if x.get("k") == "LetStmt":
                inside |= set(b["local"] for b in pat_bindings(x["pat"]))
            if x.get("k") == "Match":
                for arm in x["arms"]:
                    inside |= set(b["local"] for b in pat_bindings(arm["pat"]))
        sides = []
        for side in (cond["l"], cond["r"]):
            t = peel_refs(side)
            if t.get("k") == "Path" and "local" in t and t["local"] in decl and t["local"] not in inside:
                sides.append(t["local"])
        if len(sides) != 1:
            continue
        best = sides[0]
        then = n["then"]
        if any(x.get("k") in ("Break", "Ret") for x in walk(then)):
            continue
        saved = set()
        for x in walk(then):
            if x.get("k") in ("Assign",):
                t = peel_refs(x["l"])
                if t.get("k") == "Path" and "local" in t and t["local"] in decl and t["local"] not in inside and t["local"] != best:
                    saved.add(t["local"])
        if not saved:
            continue
        evidence = None
        if decl[best][1] & saved:
            evidence = "declared together with `%s`" % ", ".join(sorted(names[v] for v in decl[best][1] & saved))
        else:
            init = decl[best][0].get("init")
            if init is not None and decl[best][0]["pat"].get("k") == "Bind":
                kind, text = const_kind(c, init)
                if kind in ("low", "high"):
                    evidence = "starts from %s" % text
            if evidence is None and best in assigned:
                evidence = "assigned elsewhere"
        if evidence is None:
            continue
        upd = [a for a in assigned.get(best, []) if any(x is a for x in walk(loop))]
        yield {"node": n, "best": best, "best_name": names.get(best, "?"), "saved": sorted(names[v] for v in saved), "updated": bool(upd), "evidence": evidence}


def make_rule(rid, desc, scope, floor, what):
    """rule: every running extremum (fold with a max/min closure) in the functions selected by `scope` starts from the
    identity element of its operation or from data"""
    from .core import RuleResult
    from .facts import fn_key, fn_loc

    def rule(ctx):
        res = RuleResult(rid, desc)
        F = ctx.facts()
        n = 0
        for fn in F.all_fns():
            if not scope(fn):
                continue
            key = fn_key(fn)
            i = 0
            for node, op, kind, text, w in sites(fn):
                i += 1
                v = verdict(op, kind)
                if v is None:
                    continue
                n += 1
                inst = "%s : running %s #%d %s" % (key, op, i, w)
                res.instance(inst)
                if v:
                    res.ok()
                    res.sample({"site": inst, "start": text})
                else:
                    res.violate("%s : extremum-start:%s#%d" % (key, op, i), "a running %s starts from `%s`, which is not the identity element of %s: when every element lies on the other side of it (all log-probabilities are negative, `min_positive_value` is positive) the result is the start value, not the extremum of the data" % (op, text, op), fn_loc(fn, node["ln"]))
        if n < floor:
            res.missing_anchor("%s (found %d)" % (what, n))
        return res.finish(floor)
    rule.__name__ = "rule_extrema"
    return rule
