"""Constructor shortcuts agree with the constructor they forward to.

`Model::params()` is documented as "the default set of hyper-parameters" and forwards to `ModelParams::new()` /
`default()`; both are public, so they are siblings that must produce the same value.  A shortcut that applies a builder
method with an argument of its own choosing (not one of its parameters) makes the two differ - unless the value it stores
is the one the constructor stores anyway."""
import re
from .core import RuleResult
from .facts import fn_key, fn_loc, walk, strip, peel_refs, pat_bindings, Render
from .carry import assigned_fields, ctor_literal, short


def _fn_of_def(F, c, defidx):
    d = c.dfn(defidx)
    if not d:
        return None
    for fn in F.all_fns():
        fd = fn["d"]
        if fd["krate"] == d.get("krate") and fd["path"] == d.get("path") and fd["name"] == d.get("name"):
            return fn
    return None


def _canon(txt):
    return re.sub(r"\b(?:[a-z_0-9]+::)+", "", txt.replace(" ", ""))


def make_rule(rid, crates, floor):
    def rule(ctx):
        res = RuleResult(rid, "constructor shortcuts (`Model::params(..)`) of %s build the same value as the constructor they forward to: no builder method is applied with an argument of the shortcut's own choosing that differs from the constructor's value" % ", ".join(sorted(crates)))
        F = ctx.facts()
        for fn in F.all_fns():
            d = fn["d"]
            if d["krate"] not in crates or not d["name"].startswith("params") or d.get("trait") or "tests" in d["path"] or not (fn.get("vis") or "").startswith("pub"):
                continue
            if fn["params"] and fn["params"][0].get("name") == "self":
                continue
            c = fn["crate"]
            r = Render(c)
            key = fn_key(fn)
            res.instance(key)
            own = set(b["local"] for p_ in fn["params"] for b in pat_bindings(p_))
            e = strip(fn["body"])
            while e.get("k") == "Block" and not e["stmts"] and e.get("e") is not None:
                e = strip(e["e"])
            chain = []
            cur = peel_refs(e)
            while cur.get("k") == "MethodCall":
                chain.append(cur)
                cur = peel_refs(cur["recv"])
            if not chain:
                res.ok()
                continue
            root_fn = None
            if cur.get("k") == "Call" and strip(cur["f"]).get("k") == "Path":
                root_fn = _fn_of_def(F, c, strip(cur["f"]).get("inst") or strip(cur["f"]).get("def")) or _fn_of_def(F, c, strip(cur["f"]).get("def"))
            lit = ctor_literal(root_fn) if root_fn is not None else None
            defaults = {f_["name"]: f_["e"] for f_ in (lit or {}).get("fields") or []}
            verdict = "ok"
            for m in chain:
                g = _fn_of_def(F, c, m.get("inst") or m.get("def")) or _fn_of_def(F, c, m.get("def"))
                if g is None or not g["params"] or g["params"][0].get("name") != "self" or (g["inputs"] and g["inputs"][0].startswith("&")):
                    continue          # not a by-value builder method of this workspace
                if any(z.get("k") == "Path" and z.get("local") in own for a in m["args"] for z in walk(a)):
                    continue          # forwards the shortcut's own parameter
                gps = [b for p_ in g["params"][1:] for b in pat_bindings(p_)]
                af = assigned_fields(g)
                if not af or len(gps) != len(m["args"]):
                    verdict = ("undecided", "%s : shortcut-setter:%s" % (key, m["name"]), "the builder method `%s` applied by the shortcut could not be read (fail closed)" % m["name"])
                    break
                gr = Render(g["crate"])
                for fld, val in af:
                    txt = gr.e(val)
                    for b, a in zip(gps, m["args"]):
                        txt = re.sub(r"\b%s\b" % re.escape(b["name"]), r.e(a), txt)
                    if fld not in defaults:
                        verdict = ("undecided", "%s : shortcut-default:%s" % (key, fld), "the constructor's value of `%s` was not found (fail closed)" % fld)
                        break
                    base = (root_fn and Render(root_fn["crate"]).e(defaults[fld])) or ""
                    if _canon(txt) != _canon(base):
                        verdict = ("violation", "%s : shortcut-overrides-default:%s" % (key, fld), "the shortcut applies `%s(%s)`: it stores `%s` = %s where the constructor it forwards to (`%s`) stores %s - the two public ways to get the default parameter set differ" % (m["name"], ", ".join(r.e(a)[:30] for a in m["args"]), fld, _canon(txt)[:40], root_fn["d"]["name"], _canon(base)[:40]))
                        break
                if verdict != "ok":
                    break
            if verdict == "ok":
                res.ok()
            elif verdict[0] == "violation":
                res.violate(verdict[1], verdict[2], fn_loc(fn))
            else:
                res.undecided(verdict[1], verdict[2], fn_loc(fn))
        return res.finish(floor)
    rule.__name__ = "rule_shortcut"
    return rule
