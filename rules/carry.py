"""Value semantics of parameter sets and models.

Two structural facts that every property about "the configured value is the one that is used" silently relies on:

* a hand-written `impl Clone` duplicates every field (a derived one does so by construction).  A clone that rebuilds the
  value through a constructor, or recomputes a field from other state, hands the caller a *different* parameter set /
  model: the decision threshold, the whitening switch, the deserialisation guard are gone in the copy.
* a builder method writes the field(s) it is named after.  A setter that also overwrites another *user-settable* field
  with a value that does not depend on its argument silently discards what the caller configured before.

Both are decided on the typed HIR: which fields of the result are read from the same field of `self`, which come from
arguments, which from constants.  A violation needs positive evidence: the field's new value is built without reading
the field it replaces, and the field can hold something else (there is a setter / assignment / public access for it).
"""
from .facts import *
from .core import RuleResult

VALUE_CHANGING = {"filter", "max", "min", "clamp", "abs", "round", "floor", "ceil", "trunc", "rem", "rem_euclid", "pow", "powi", "powf", "sqrt", "recip", "signum",
                  "saturating_sub", "saturating_add", "wrapping_sub", "wrapping_add", "checked_sub", "checked_add", "take", "skip", "truncate", "retain", "dedup",
                  "next_power_of_two", "exp", "ln", "neg", "not", "is_some", "is_none", "is_empty", "len"}


def short(p):
    return (p or "").split("::")[-1]


def adt_index(F):
    out = {}
    for c in F.crates.values():
        for a in c.adts:
            out.setdefault(short(a["path"]), (c, a))
            out[a["path"]] = (c, a)
    return out


def struct_fields(a):
    """[(name, type text, vis)] of a struct (None for enums)"""
    if len(a.get("variants") or []) != 1 or a.get("kind") not in (None, "Struct", "struct"):
        if len(a.get("variants") or []) != 1:
            return None
    return [(f["name"], f.get("ty") or "", f.get("vis") or "") for f in a["variants"][0]["fields"]]


def self_fields(e):
    """names of the fields of `self` (below an optional `.0` newtype layer) an expression reads"""
    out = set()
    for y in walk(e):
        if y.get("k") != "Field":
            continue
        names = []
        t = y
        while t.get("k") == "Field":
            names.insert(0, t["name"])
            t = peel_refs(t["e"])
        if t.get("k") == "Path" and t.get("name") == "self" and names:
            out.add(names[0])
            if names[0] == "0" and len(names) > 1:
                out.add(names[1])
    return out


def mentions_self(e):
    return any(y.get("k") == "Path" and y.get("name") == "self" for y in walk(e))


def tail_of(fn):
    body = strip(fn["body"])
    seen = 0
    while body.get("k") == "Block" and body.get("e") is not None and seen < 4:
        nxt = strip(body["e"])
        if nxt is body:
            break
        body = nxt
        seen += 1
    return body


def local_inits(fn):
    """local -> init expression for plain `let x = e;`; locals bound by destructuring self -> ('field', name)"""
    inits, destr = {}, {}
    for y in walk(fn["body"]):
        if y.get("k") != "LetStmt" or y.get("init") is None:
            continue
        p = y["pat"]
        if p.get("k") == "Bind":
            inits[p["local"]] = y["init"]
        elif p.get("k") in ("Struct", "TupleStruct", "Ref") and mentions_self(y["init"]):
            # (pattern, top-level field it sits under): a local bound inside `solver_params: SolverParams { eps, .. }` is a
            # part of `solver_params`
            pats = [(p, None)]
            while pats:
                q, top = pats.pop()
                if q.get("k") == "Ref":
                    pats.append((q.get("pat") or {}, top))
                elif q.get("k") == "Struct":
                    for f_ in q["fields"]:
                        bs_ = list(pat_bindings(f_["pat"]))
                        if f_["pat"].get("k") == "Bind" and len(bs_) == 1:
                            destr[bs_[0]["local"]] = top or f_["name"]
                        else:
                            pats.append((f_["pat"], top or f_["name"]))
                elif q.get("k") == "TupleStruct":
                    single = len(q.get("pats") or []) == 1
                    for i_, q2 in enumerate(q.get("pats") or []):
                        if q2.get("k") == "Bind":
                            bs_ = list(pat_bindings(q2))
                            if bs_:
                                destr[bs_[0]["local"]] = top or str(i_)
                        else:
                            pats.append((q2, top if (top or single) else str(i_)))
    return inits, destr


class Prov:
    """where the value of a rebuilt field comes from"""

    def __init__(self, fn):
        self.fn = fn
        self.c = fn["crate"]
        self.inits, self.destr = local_inits(fn)
        self.params = set(b["local"] for p_ in fn["params"][1:] for b in pat_bindings(p_))

    def fields(self, e, depth=0):
        """(set of self fields read, reads an argument?, value-changing call or None)"""
        fs = set(self_fields(e))
        arg = False
        chg = None
        for y in walk(e):
            if y.get("k") == "Path" and y.get("local") is not None:
                if y["local"] in self.destr:
                    fs.add(self.destr[y["local"]])
                elif y["local"] in self.params:
                    arg = True
                elif y["local"] in self.inits and depth < 3:
                    f2, a2, c2 = self.fields(self.inits[y["local"]], depth + 1)
                    fs |= f2
                    arg = arg or a2
                    chg = chg or c2
            if y.get("k") == "MethodCall" and y["name"] in VALUE_CHANGING:
                chg = chg or y["name"]
        return fs, arg, chg


def ctor_literal(g):
    """the struct literal a constructor returns (innermost one for a newtype wrapper), or None"""
    lits = [x for x in walk(g["body"]) if x.get("k") == "Struct" and x.get("fields")]
    return lits[-1] if lits else None


def field_is_settable(F, crate, adt_name, fname, vis, skip_fns=()):
    """evidence that the field can hold a value other than the constructor's: public, or assigned somewhere"""
    if vis.startswith("pub") and "crate" not in vis and "restricted" not in vis.lower():
        return "public field"
    for fn in crate.fns:
        if fn in skip_fns:
            continue
        d = fn["d"]
        if short(d.get("self_adt")) != adt_name and adt_name not in (fn.get("output") or "") and adt_name not in " ".join(fn.get("inputs") or []):
            # only code that has the type in reach
            if not any(adt_name in (crate.ty(y.get("t")) or "") for y in walk(fn["body"]) if y.get("k") == "Field" and y.get("name") == fname):
                continue
        for y in walk(fn["body"]):
            if y.get("k") in ("Assign", "AssignOp"):
                l = strip(y["l"])
                if l.get("k") == "Field" and l["name"] == fname:
                    base_t = crate.ty(strip(l["e"]).get("t")) or ""
                    # the base is the struct itself or its `.0`
                    if adt_name in base_t or "Valid" in base_t or short(d.get("self_adt")) == adt_name:
                        return "assigned in %s" % fn_key(fn)
    return None


def handwritten_clones(F, crates):
    out, derived = [], 0
    for fn in F.all_fns():
        d = fn["d"]
        if d["name"] != "clone" or not (d.get("trait") or "").endswith("Clone") or d["krate"] not in crates:
            continue
        if fn.get("exp"):
            derived += 1
        else:
            out.append(fn)
    return out, derived


def check_clone(F, fn, idx):
    """[(verdict, key, message)] with verdict in ok / violation / undecided for one hand-written clone"""
    c = fn["crate"]
    d = fn["d"]
    aname = short(d.get("self_adt"))
    key = fn_key(fn)
    ent = idx.get(d.get("self_adt")) or idx.get(aname)
    if ent is None:
        return [("undecided", "%s : type" % key, "the cloned type was not found among the crate's structs")]
    a = ent[1]
    fields = struct_fields(a)
    if fields is None:
        return [("ok", "%s : enum" % key, "")]     # enums: a match that rebuilds each variant; not analysed field-wise
    pv = Prov(fn)
    tail = tail_of(fn)
    t0 = peel_refs(tail)
    out = []
    by_name = {}
    by_def = {}
    for g in c.fns:
        gd = g["d"]
        by_def[g["def"]] = g
        if short(gd.get("self_adt")) == aname and not gd.get("trait"):
            by_name.setdefault(gd["name"], g)

    def ctor_of(f0):
        """the constructor a call resolves to: an associated function of the type, or any function of the crate that
        returns the type and builds it with a literal (`Pca::params(n)` for PcaParams)"""
        if f0.get("k") != "Path":
            return None
        d0 = c.dfn(f0.get("def"))
        if d0 is None:
            return None
        g = by_name.get(d0["name"]) if short(d0.get("self_adt")) == aname else None
        if g is None:
            g = by_def.get(f0.get("inst", f0.get("def")))
            if g is not None and aname not in (g.get("output") or "") and "Self" not in (g.get("output") or ""):
                g = None
        return g

    def judge(fname, fty, vis, val, why_none):
        k2 = "%s : %s" % (key, fname)
        if "PhantomData" in fty:
            return ("ok", k2, "")
        if val is None:
            return why_none
        fs, arg, chg = pv.fields(val)
        v0 = peel_refs(val)
        if v0.get("k") == "Struct" and v0.get("fields") and fname in fs and not (v0.get("base") is not None and fname in pv.fields(v0["base"])[0]):
            # the field is rebuilt with a literal of its own type: every component has to come from the original's
            for f2 in v0["fields"]:
                if fname not in pv.fields(f2["e"])[0] and "PhantomData" not in (c.ty(f2["e"].get("t")) or ""):
                    return ("violation", "%s : clone-field-not-copied:%s.%s" % (key, fname, f2["name"]), "the clone rebuilds `%s` and gives its component `%s` a value that is not read from the original" % (fname, f2["name"]))
        if fname in fs or (fname.isdigit() and ("0" in fs or fname in fs)):
            if chg and chg in ("is_some", "is_none", "is_empty", "len") and not any(y.get("k") == "MethodCall" and y["name"] in ("clone", "to_owned", "cloned") for y in walk(val)):
                return ("violation", "%s : clone-derives-field:%s" % (key, fname), "the clone's `%s` is computed through `.%s()` instead of being copied" % (fname, chg))
            return ("ok", k2, "")
        src = ("`self.%s`" % "`, `self.".join(sorted(fs))) if fs else "a value that does not read self"
        return ("violation", "%s : clone-field-not-copied:%s" % (key, fname), "the clone's `%s` is built from %s, not copied from `self.%s`: the copy is a different value from the original" % (fname, src, fname))

    if tail.get("k") == "Unary" and mentions_self(tail) or (t0.get("k") == "Path" and t0.get("name") == "self"):
        return [("ok", "%s : copy" % key, "")]
    # `self.0.clone()`-style wrappers around a literal
    lit = None
    if t0.get("k") == "Struct" and t0.get("fields") is not None:
        lit = t0
    elif t0.get("k") == "Call":
        f0 = strip(t0["f"])
        d0 = c.dfn(f0.get("def")) if f0.get("k") == "Path" else None
        if d0 is not None and str(d0.get("kind", "")).startswith("Ctor"):
            # tuple struct: positional fields
            for i_, (fname, fty, vis) in enumerate(fields):
                val = t0["args"][i_] if i_ < len(t0["args"]) else None
                inner = peel_refs(val) if val is not None else None
                if inner is not None and inner.get("k") == "Struct" and inner.get("fields") is not None and len(fields) == 1:
                    # Self(Inner { .. }): judge the inner literal against the inner struct
                    ient = idx.get(short((c.dfn(inner.get("def")) or {}).get("path", "")))
                    if ient is not None and struct_fields(ient[1]) is not None:
                        for (n2, t2, v2) in struct_fields(ient[1]):
                            v_ = next((f_["e"] for f_ in inner["fields"] if f_["name"] == n2), None)
                            base_ok = inner.get("base") is not None and mentions_self(inner["base"])
                            out.append(judge(n2, t2, v2, v_, ("ok", "%s : %s" % (key, n2), "") if base_ok else ("violation", "%s : clone-field-not-copied:%s" % (key, n2), "the clone does not carry `%s` over from self" % n2)))
                        return out
                out.append(judge(fname, fty, vis, val, ("undecided", "%s : %s" % (key, fname), "positional field missing")))
            return out
        g = ctor_of(f0)
        if g is not None:
            return _check_ctor_rebuild(F, fn, key, aname, fields, idx, pv, t0, [], g, by_name, judge)
    elif t0.get("k") == "MethodCall":
        chain = []
        t = t0
        while t.get("k") == "MethodCall":
            chain.insert(0, t)
            t = peel_refs(t["recv"])
        if t.get("k") == "Call":
            f0 = strip(t["f"])
            g = ctor_of(f0)
            if g is not None:
                return _check_ctor_rebuild(F, fn, key, aname, fields, idx, pv, t, chain, g, by_name, judge)
    if lit is not None:
        base_ok = lit.get("base") is not None and mentions_self(lit["base"])
        for (fname, fty, vis) in fields:
            v_ = next((f_["e"] for f_ in lit["fields"] if f_["name"] == fname), None)
            out.append(judge(fname, fty, vis, v_, ("ok", "%s : %s" % (key, fname), "") if base_ok else ("violation", "%s : clone-field-not-copied:%s" % (key, fname), "the clone does not carry `%s` over from self" % fname)))
        return out
    return [("undecided", "%s : clone-form" % key, "the way this hand-written clone builds its result was not understood (fail closed)")]


def _check_ctor_rebuild(F, fn, key, aname, fields, idx, pv, call, chain, g, by_name, judge):
    """clone() = Type::new(args)[.setter(arg)]*"""
    c = fn["crate"]
    out = []
    lit = ctor_literal(g)
    if lit is None:
        return [("undecided", "%s : clone-form" % key, "constructor `%s` does not build the struct with a literal (fail closed)" % g["d"]["name"])]
    gparams = [b["local"] for p_ in g["params"] for b in pat_bindings(p_)]
    # the literal may be of an inner `Valid` struct
    lname = short((g["crate"].dfn(lit.get("def")) or {}).get("path", ""))
    lfields = fields
    if lname and lname != aname and lname in idx and struct_fields(idx[lname][1]) is not None:
        lfields = struct_fields(idx[lname][1])
    vals = {}       # field -> expression in the clone (argument) / ("const", text)
    for f in lit["fields"]:
        v = peel_refs(f["e"])
        src = None
        for z in walk(v):
            if z.get("k") == "Path" and z.get("local") in gparams and gparams.index(z["local"]) < len(call["args"]):
                src = call["args"][gparams.index(z["local"])]
        vals[f["name"]] = src if src is not None else ("const", Render(g["crate"]).e(v)[:40])
    for mc in chain:
        sg = by_name.get(mc["name"])
        if sg is None:
            continue
        sparams = [b["local"] for p_ in sg["params"][1:] for b in pat_bindings(p_)]
        for fld, val in assigned_fields(sg):
            src = None
            for z in walk(val):
                if z.get("k") == "Path" and z.get("local") in sparams and sparams.index(z["local"]) < len(mc["args"]):
                    src = mc["args"][sparams.index(z["local"])]
            if src is not None:
                vals[fld] = src
    for (fname, fty, vis) in lfields:
        k2 = "%s : %s" % (key, fname)
        v = vals.get(fname)
        if isinstance(v, tuple) or v is None:
            if "PhantomData" in fty:
                out.append(("ok", k2, ""))
                continue
            ev = field_is_settable(F, c, lname or aname, fname, vis, skip_fns=(g, fn)) or (field_is_settable(F, c, aname, fname, vis, skip_fns=(g, fn)) if lname != aname else None)
            if ev:
                out.append(("violation", "%s : clone-resets-field:%s" % (key, fname), "the clone is rebuilt through `%s`, which sets `%s` to %s; the field can hold another value (%s), which the copy silently loses" % (g["d"]["name"], fname, v[1] if v else "its default", ev)))
            else:
                out.append(("ok", k2, ""))
        else:
            out.append(judge(fname, fty, vis, v, None))
    return out


def assigned_fields(fn):
    """[(field, value)] for `self.f = v` / `self.0.f = v` in a method"""
    out = []
    for x in walk(fn["body"]):
        if x.get("k") == "Assign":
            l = strip(x["l"])
            names = []
            while l.get("k") == "Field":
                names.insert(0, l["name"])
                l = peel_refs(l["e"])
            if l.get("k") == "Path" and l.get("name") == "self" and names:
                ns = [n_ for n_ in names if n_ != "0"]
                if ns:
                    out.append((ns[0], x["r"]))
    return out


def make_clone_rule(rid, crates, floor):
    """rule: every hand-written Clone in `crates` copies every field"""
    def rule(ctx):
        res = RuleResult(rid, "Clone impls of the parameter sets and models in %s copy every field (derived ones by construction; hand-written ones checked field by field)" % ", ".join(sorted(crates)))
        F = ctx.facts()
        idx = adt_index(F)
        hand, derived = handwritten_clones(F, crates)
        res.instance("derived Clone impls: %d" % derived)
        res.ok()
        for _ in range(max(0, derived - 1)):
            res.instance("derived")
            res.ok()
        for fn in hand:
            for verdict, key, msg in check_clone(F, fn, idx):
                res.instance(key)
                if verdict == "ok":
                    res.ok()
                elif verdict == "violation":
                    res.violate(key, msg, fn_loc(fn))
                else:
                    res.undecided(key, msg, fn_loc(fn))
        return res.finish(floor)
    rule.__name__ = "rule_clone"
    return rule


def setter_overrides(F, crates):
    """[(fn, field, value text, other setter)] - a by-value / &mut builder method that assigns a *different* user-settable
    field a value that does not depend on its arguments"""
    out = []
    n = 0
    for c in F.crates.values():
        if c.name not in crates:
            continue
        meths = {}
        for fn in c.fns:
            d = fn["d"]
            if d.get("trait") or not d.get("self_adt") or not fn["params"] or fn["params"][0].get("name") != "self":
                continue
            meths.setdefault(short(d["self_adt"]), []).append(fn)
        for aname, fns in meths.items():
            # which method sets which field from its argument
            setters = {}
            for fn in fns:
                ps = set(b["local"] for p_ in fn["params"][1:] for b in pat_bindings(p_))
                for fld, val in assigned_fields(fn):
                    if any(z.get("k") == "Path" and z.get("local") in ps for z in walk(val)):
                        setters.setdefault(fld, []).append(fn)
            for fn in fns:
                if not (fn.get("vis") or "").startswith("pub"):
                    continue
                ps = set(b["local"] for p_ in fn["params"][1:] for b in pat_bindings(p_))
                if not ps:
                    continue
                own = [fld for fld, val in assigned_fields(fn) if any(z.get("k") == "Path" and z.get("local") in ps for z in walk(val))]
                if not own:
                    continue
                n += 1
                for fld, val in assigned_fields(fn):
                    if fld in own:
                        continue
                    others = [g for g in setters.get(fld, []) if g is not fn]
                    if not others:
                        continue
                    if any(z.get("k") == "Path" and z.get("local") in ps for z in walk(val)) or mentions_self(val):
                        continue
                    v0 = peel_refs(val)
                    if v0.get("k") == "Path" and (v0.get("name") == "None" or (c.dfn(v0.get("def")) or {}).get("name") == "None"):
                        # mode switch: choosing one parameterisation (`c = Some(..)`) clears the alternative (`nu = None`)
                        continue
                    out.append((fn, fld, Render(c).e(val)[:40], others[0]))
                # `self.0.link.get_or_insert(default for this argument)`: the other setting is written only when it is still
                # unset - what the parameter set ends up with depends on the calls made before (`power(1.).power(0.)` keeps the
                # link that went with the first power), not on the last value of each setting
                for z in walk(fn["body"]):
                    if z.get("k") == "MethodCall" and z["name"] in ("get_or_insert", "get_or_insert_with") and z["args"]:
                        l = strip(z["recv"])
                        names = []
                        while l.get("k") == "Field":
                            names.insert(0, l["name"])
                            l = peel_refs(l["e"])
                        ns = [n_ for n_ in names if n_ != "0"]
                        if l.get("k") == "Path" and l.get("name") == "self" and ns and ns[0] not in own:
                            others = [g for g in setters.get(ns[0], []) if g is not fn]
                            if others and any(y_.get("k") == "Path" and y_.get("local") in ps for y_ in walk(z["args"][0])):
                                out.append((fn, ns[0], "get_or_insert(" + Render(c).e(z["args"][0])[:30] + ")", others[0]))
    return out, n


def make_setter_rule(rid, crates, floor):
    def rule(ctx):
        res = RuleResult(rid, "a builder method of %s overwrites only the field(s) it sets from its argument; it does not reset another user-settable field to a constant" % ", ".join(sorted(crates)))
        F = ctx.facts()
        found, n = setter_overrides(F, crates)
        for i in range(n):
            res.instance("builder method #%d" % i)
            res.ok()
        for fn, fld, txt, other in found:
            key = "%s : setter-overrides:%s" % (fn_key(fn), fld)
            res.instance(key)
            res.violate(key, "`%s` also assigns `%s` = %s, a value that does not depend on its argument; `%s` is the user's setting (set by `%s`), so a value configured before this call is silently discarded and the result depends on the order of the builder calls" % (fn["d"]["name"], fld, txt, fld, other["d"]["name"]), fn_loc(fn))
        return res.finish(floor)
    rule.__name__ = "rule_setter_overrides"
    return rule


# ---------------------------------------------------------------------------------------------------------------------
# accessors and constructors

def accessor_mixups(F, crates):
    """[(fn, returned field, field with the accessor's name)]: `fn x(&self) -> .. { &self.y }` on a type that has a field
    `x` of its own.  The accessor hands out another setting of the same type under this one's name (a seed read through
    `random_state()` that is really `ncomponents`)."""
    idx = adt_index(F)
    out, n = [], 0
    for fn in F.all_fns():
        d = fn["d"]
        if d["krate"] not in crates or fn.get("exp") or d.get("trait") or not d.get("self_adt"):
            continue
        if len(fn["params"]) != 1 or fn["params"][0].get("name") != "self":
            continue
        ent = idx.get(d["self_adt"]) or idx.get(short(d["self_adt"]))
        if ent is None:
            continue
        fields = struct_fields(ent[1])
        if not fields:
            continue
        names = set(f for f, _, _ in fields)
        inner = None
        if names == {"0"}:
            # newtype around the checked parameters: look through `.0`
            ity = fields[0][1]
            for nm in re_names(ity):
                if nm in idx and struct_fields(idx[nm][1]):
                    inner = set(f for f, _, _ in struct_fields(idx[nm][1]))
        scope = inner if inner is not None else names
        if d["name"] not in scope:
            continue
        tail = tail_of(fn)
        t = peel_refs(tail)
        while t.get("k") == "MethodCall" and t["name"] in ("clone", "as_ref", "as_deref", "as_slice", "as_str", "view", "to_owned", "copied", "cloned", "borrow", "unwrap_or_default"):
            t = peel_refs(t["recv"])
        chain = []
        u = t
        while u.get("k") == "Field":
            chain.insert(0, u["name"])
            u = peel_refs(u["e"])
        if not (u.get("k") == "Path" and u.get("name") == "self") or not chain:
            continue
        got = chain[1] if chain[0] == "0" and len(chain) > 1 else chain[0]
        n += 1
        if got != d["name"] and got in scope:
            # a mix-up needs two settings of the same type: only then does the wrong one type-check unnoticed
            ftypes = {}
            for nm_, ty_, _ in fields:
                ftypes[nm_] = ty_
            if inner is not None:
                for nm in re_names(fields[0][1]):
                    if nm in idx and struct_fields(idx[nm][1]):
                        for nm_, ty_, _ in struct_fields(idx[nm][1]):
                            ftypes[nm_] = ty_
            if ftypes.get(got) is not None and ftypes.get(got) == ftypes.get(d["name"]):
                out.append((fn, got, d["name"]))
    return out, n


def re_names(ty):
    import re as _re
    return _re.findall(r"\b([A-Z]\w*)\b", ty or "")


def make_accessor_rule(rid, crates, floor):
    def rule(ctx):
        res = RuleResult(rid, "an accessor named after a field returns that field (not another field of the same type) in %s" % ", ".join(sorted(crates)))
        F = ctx.facts()
        found, n = accessor_mixups(F, crates)
        for i in range(n):
            res.instance("accessor #%d" % i)
            res.ok()
        for fn, got, want in found:
            key = "%s : accessor-returns-other-field:%s" % (fn_key(fn), got)
            res.instance(key)
            res.violate(key, "`%s()` returns the field `%s` although the type has a field `%s`: callers that read the `%s` setting get another setting" % (want, got, want, want), fn_loc(fn))
        return res.finish(floor)
    rule.__name__ = "rule_accessors"
    return rule


import re as _re_mod
SCALAR = _re_mod.compile(r"^(usize|u8|u16|u32|u64|isize|i8|i16|i32|i64|f32|f64|[A-Z][A-Za-z0-9]{0,2})$")


def ctor_changes(F, crates):
    """[(fn, field, how)]: an associated constructor (no self) that stores one of its arguments through a value-changing
    call or arithmetic: `Pca::params(n)` storing `n.max(1)` makes the documented rejection of n = 0 dead code."""
    out, n = [], 0
    for fn in F.all_fns():
        d = fn["d"]
        if d["krate"] not in crates or fn.get("exp") or d.get("trait") or not d.get("self_adt"):
            continue
        if fn["params"] and fn["params"][0].get("name") == "self":
            continue
        if not (fn.get("vis") or "").startswith("pub") or not fn["params"]:
            continue
        ps = set(b["local"] for p_ in fn["params"] for b in pat_bindings(p_))
        lits = [x for x in walk(fn["body"]) if x.get("k") == "Struct" and x.get("fields")]
        calls = []
        if not lits:
            # forwarding constructor: `Type::params(n)` -> `TypeParams::new(n)`
            for x in walk(fn["body"]):
                if x.get("k") == "Call" and any(z.get("k") == "Path" and z.get("local") in ps for a in x["args"] for z in walk(a)):
                    calls.append(x)
        if not lits and not calls:
            continue
        n += 1
        exprs = [(f_["name"], f_["e"]) for l in lits for f_ in l["fields"]] + [("argument", a) for x in calls for a in x["args"]]
        for fname, e in exprs:
            if not any(z.get("k") == "Path" and z.get("local") in ps for z in walk(e)):
                continue
            bad = None
            c_ = fn["crate"]

            def scalar_param(z):
                z = peel_refs(z)
                return z.get("k") == "Path" and z.get("local") in ps and SCALAR.match((c_.ty(z.get("t")) or "").strip().lstrip("&")) is not None
            for y in walk(e):
                if y.get("k") == "MethodCall" and y["name"] in ("max", "min", "clamp", "abs", "round", "floor", "ceil", "trunc", "saturating_sub", "saturating_add", "wrapping_sub", "wrapping_add", "next_power_of_two", "rem_euclid", "pow", "powi", "sqrt") and scalar_param(y["recv"]):
                    bad = "`.%s(..)`" % y["name"]
                if y.get("k") == "Binary" and y["op"] in ("+", "-", "*", "/", "%") and (scalar_param(y["l"]) or scalar_param(y["r"])):
                    bad = bad or "arithmetic `%s`" % y["op"]
            if bad:
                out.append((fn, fname, bad))
    return out, n


def make_ctor_rule(rid, crates, floor):
    def rule(ctx):
        res = RuleResult(rid, "public constructors of %s store their arguments unchanged (no clamp / rounding / arithmetic between the argument and the stored field)" % ", ".join(sorted(crates)))
        F = ctx.facts()
        found, n = ctor_changes(F, crates)
        for i in range(n):
            res.instance("constructor #%d" % i)
            res.ok()
        for fn, fname, how in found:
            key = "%s : constructor-changes-value:%s" % (fn_key(fn), fname)
            res.instance(key)
            res.violate(key, "the constructor `%s` passes its argument through %s before storing it in `%s`: the value that is validated and used is not the one the caller gave (a documented rejection of the original value can no longer happen)" % (fn["d"]["name"], how, fname), fn_loc(fn))
        return res.finish(floor)
    rule.__name__ = "rule_ctor"
    return rule


# ---------------------------------------------------------------------------------------------------------------------
# `Default::default()` and `new()` are two public ways to the same "default" value
def default_vs_new(F, crates):
    """[(adt, default fn, new fn, verdict, field, text)] for every type of `crates` that has both a parameterless `new()` and
    an `impl Default`"""
    out = []
    idx = adt_index(F)
    for c in F.crates.values():
        if c.name not in crates:
            continue
        by_adt = {}
        for fn in c.fns:
            d = fn["d"]
            a = short(d.get("self_adt"))
            if not a or "tests" in d["path"]:
                continue
            if d["name"] == "new" and not d.get("trait") and not fn["params"]:
                by_adt.setdefault(a, {})["new"] = fn
            if d["name"] == "default" and (d.get("trait") or "").endswith("Default"):
                by_adt.setdefault(a, {})["default"] = fn
        for a, fs in sorted(by_adt.items()):
            if "new" not in fs or "default" not in fs:
                continue
            dfn_, nfn = fs["default"], fs["new"]
            r = Render(c)
            ent = idx.get(a)
            if ent is not None and struct_fields(ent[1]) == []:
                out.append((a, dfn_, nfn, "ok", None, "a type without fields"))
                continue
            lit_n = ctor_literal(nfn)
            calls_new = any(y.get("k") == "Call" and strip(y["f"]).get("k") == "Path" and (c.dfn(strip(y["f"]).get("def")) or {}).get("name") == "new"
                            and short((c.dfn(strip(y["f"]).get("def")) or {}).get("self_adt")) == a for y in walk(dfn_["body"]))
            calls_default = any(y.get("k") == "Call" and strip(y["f"]).get("k") == "Path" and (c.dfn(strip(y["f"]).get("def")) or {}).get("name") == "default" for y in walk(nfn["body"]))
            if calls_new or (calls_default and lit_n is None):
                out.append((a, dfn_, nfn, "ok", None, "one forwards to the other"))
                continue
            lit_d = ctor_literal(dfn_)
            if lit_n is None or (lit_d is None and not dfn_.get("exp")):
                out.append((a, dfn_, nfn, "undecided", None, "a constructor without a struct literal"))
                continue
            bad = None
            for f_ in lit_n["fields"]:
                tn = r.e(peel_refs(f_["e"])).replace(" ", "")
                if dfn_.get("exp") and lit_d is None:
                    # derived Default: false / 0 / None / empty / Default::default()
                    v = peel_refs(f_["e"])
                    trivially_default = (v.get("k") == "Lit" and str(v.get("v")) in ("false", "0", "0.0", "0.", "\"\"")) or tn.endswith("::None") or tn == "None" \
                        or tn.endswith("default()") or tn.endswith("::new()") or "PhantomData" in tn
                    if not trivially_default:
                        bad = (f_["name"], "new() stores %s, the derived Default stores the type's default value" % tn[:40])
                        break
                    continue
                fd = next((g_ for g_ in lit_d["fields"] if g_["name"] == f_["name"]), None)
                if fd is None:
                    continue
                td = r.e(peel_refs(fd["e"])).replace(" ", "")
                if td != tn:
                    bad = (f_["name"], "new() stores %s, default() stores %s" % (tn[:40], td[:40]))
                    break
            out.append((a, dfn_, nfn, "violation" if bad else "ok", bad[0] if bad else None, bad[1] if bad else ""))
    return out


def make_default_rule(rid, crates, floor):
    def rule(ctx):
        res = RuleResult(rid, "for every type of %s with both a parameterless `new()` and an `impl Default`, the two build the same value" % ", ".join(sorted(crates)))
        F = ctx.facts()
        for a, dfn_, nfn, verdict, fld, txt in default_vs_new(F, crates):
            key = "%s : default-vs-new" % fn_key(dfn_)
            res.instance(key)
            if verdict == "ok":
                res.ok()
            elif verdict == "violation":
                res.violate("%s : default-differs-from-new:%s" % (fn_key(dfn_), fld), "`%s::default()` and `%s::new()` disagree on `%s`: %s" % (a, a, fld, txt), fn_loc(dfn_))
            else:
                res.undecided(key, txt + " (fail closed)", fn_loc(dfn_))
        return res.finish(floor)
    rule.__name__ = "rule_default_vs_new"
    return rule


# ---------------------------------------------------------------------------------------------------------------------
# a field copied from a like-named field of another struct
def field_cross_copies(F, crates):
    """[(fn, literal field, source field, node)] for struct literals `T { f: src.g, .. }` / `f: src.g()` where `src` is a
    struct that has a field `f` of the same type as its field `g` (g != f): the value of the like-named sibling was meant.
    Also returns the number of same-named copies seen (the instances the rule stands on)."""
    idx = adt_index(F)
    out, n_ok = [], 0
    for c in F.crates.values():
        if c.name not in crates:
            continue
        for fn in c.fns:
            if fn.get("exp") or "tests" in fn["d"]["path"]:
                continue
            for lit in walk(fn["body"]):
                if lit.get("k") != "Struct" or not lit.get("fields"):
                    continue
                for f_ in lit["fields"]:
                    v = peel_refs(f_["e"])
                    if v.get("k") == "MethodCall" and not v["args"]:
                        g, base = v["name"], peel_refs(v["recv"])
                    elif v.get("k") == "Field":
                        g, base = v["name"], peel_refs(v["e"])
                    else:
                        continue
                    bt = (c.ty(base.get("at", base.get("t"))) or "").lstrip("&").replace("mut ", "").strip()
                    ent = idx.get(bt.split("<")[0]) or idx.get(short(bt.split("<")[0]))
                    if ent is None:
                        continue
                    flds = struct_fields(ent[1])
                    if not flds:
                        continue
                    names = {n_: t_ for n_, t_, _ in flds}
                    if f_["name"] not in names or g not in names:
                        continue
                    if g == f_["name"]:
                        n_ok += 1
                    elif names[g] == names[f_["name"]]:
                        out.append((fn, f_["name"], g, f_["e"]))
    return out, n_ok


def make_fieldcopy_rule(rid, crates, floor):
    def rule(ctx):
        res = RuleResult(rid, "a struct literal in %s that copies from a struct with a like-named field takes the like-named field (not a same-typed sibling)" % ", ".join(sorted(crates)))
        F = ctx.facts()
        found, n_ok = field_cross_copies(F, crates)
        for i in range(n_ok):
            res.instance("same-named copy #%d" % i)
            res.ok()
        for fn, f, g, node in found:
            key = "%s : field-from-like-typed-sibling:%s<-%s" % (fn_key(fn), f, g)
            res.instance(key)
            res.violate(key, "`%s` is initialised from `.%s` of a struct that also has a field `%s` of the same type: the two values are exchanged or one is used twice" % (f, g, f), fn_loc(fn, node.get("ln")))
        return res.finish(floor)
    rule.__name__ = "rule_fieldcopy"
    return rule
