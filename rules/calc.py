"""A very small computer algebra for element-wise scalar maps read from the source: rational functions over atoms
(the variable, exp(u), ln(u)), differentiation, and equality by cross-multiplication.  No evaluation of program code:
expressions are read from the typed HIR, normalised and compared as polynomials with rational coefficients.

Used to decide "g is the derivative of f" for sibling functions that are meant to be a function and its derivative
(the inverse link and its derivative, which the GLM gradient multiplies into the chain rule)."""
from fractions import Fraction

from .facts import strip, peel_refs, pat_bindings, walk


class Unsupported(Exception):
    pass


class Poly:
    """{monomial: coef}; monomial = tuple of (atom, power) sorted by atom"""

    def __init__(self, d=None):
        self.d = {m: c for m, c in (d or {}).items() if c != 0}

    @staticmethod
    def const(c):
        return Poly({(): Fraction(c)})

    @staticmethod
    def atom(a):
        return Poly({((a, 1),): Fraction(1)})

    def __add__(self, o):
        d = dict(self.d)
        for m, c in o.d.items():
            d[m] = d.get(m, 0) + c
        return Poly(d)

    def __neg__(self):
        return Poly({m: -c for m, c in self.d.items()})

    def __sub__(self, o):
        return self + (-o)

    def __mul__(self, o):
        d = {}
        for m1, c1 in self.d.items():
            for m2, c2 in o.d.items():
                pw = dict(m1)
                for a, p in m2:
                    pw[a] = pw.get(a, 0) + p
                m = tuple(sorted((a, p) for a, p in pw.items() if p != 0))
                d[m] = d.get(m, 0) + c1 * c2
        return Poly(d)

    def is_zero(self):
        return not self.d

    def key(self):
        return "+".join("%s*%s" % (c, "*".join("%s^%d" % ap for ap in m)) for m, c in sorted(self.d.items(), key=lambda x: str(x[0]))) or "0"

    def atoms(self):
        return set(a for m in self.d for a, _ in m)


class Rat:
    def __init__(self, num, den=None):
        self.num = num
        self.den = den if den is not None else Poly.const(1)

    @staticmethod
    def const(c):
        return Rat(Poly.const(c))

    def __add__(self, o):
        return Rat(self.num * o.den + o.num * self.den, self.den * o.den)

    def __sub__(self, o):
        return Rat(self.num * o.den - o.num * self.den, self.den * o.den)

    def __mul__(self, o):
        return Rat(self.num * o.num, self.den * o.den)

    def __truediv__(self, o):
        if o.num.is_zero():
            raise Unsupported("division by zero")
        return Rat(self.num * o.den, self.den * o.num)

    def __neg__(self):
        return Rat(-self.num, self.den)

    def equals(self, o):
        return (self.num * o.den - o.num * self.den).is_zero()

    def key(self):
        return "(%s)/(%s)" % (self.num.key(), self.den.key())


class Calc:
    """atoms and their arguments; differentiation with respect to the atom 'x'"""

    def __init__(self):
        self.args = {}      # atom name -> (kind, Rat argument)
        self.clamps = []    # non-smooth operations met while reading (max/min with a constant, branches)

    def fn_atom(self, kind, arg):
        # exp(-u) is kept as 1/exp(u) so that exp(x) and exp(-x) are one atom
        if kind == "exp":
            lead = min(arg.num.d.items(), key=lambda mc: str(mc[0]))[1] if arg.num.d else 1
            if lead < 0:
                return Rat.const(1) / self.fn_atom("exp", -arg)
        name = "%s[%s]" % (kind, arg.key())
        self.args[name] = (kind, arg)
        return Rat(Poly.atom(name))

    def d_atom(self, a):
        if a == "x":
            return Rat.const(1)
        if a not in self.args:
            return Rat.const(0)     # a parameter: constant with respect to x
        kind, arg = self.args[a]
        da = self.diff(arg)
        if kind == "exp":
            return Rat(Poly.atom(a)) * da
        if kind == "ln":
            return da / arg
        raise Unsupported("derivative of %s" % kind)

    def d_poly(self, p):
        out = Rat.const(0)
        for m, c in p.d.items():
            for i, (a, pw) in enumerate(m):
                rest = dict(m)
                rest[a] = pw - 1
                mono = tuple(sorted((b, q) for b, q in rest.items() if q != 0))
                out = out + Rat(Poly({mono: c * pw})) * self.d_atom(a)
        return out

    def diff(self, r):
        # (n/d)' = (n' d - n d') / d^2
        dn, dd = self.d_poly(r.num), self.d_poly(r.den)
        return (dn * Rat(r.den) - Rat(r.num) * dd) / Rat(r.den * r.den)

    # ---- reading expressions
    def read_array_fn(self, fn):
        """the element-wise map x -> f(x) computed by a fn(&Array1) -> Array1"""
        c = fn["crate"]
        ps = [b for p_ in fn["params"] for b in pat_bindings(p_) if b["name"] != "self"]
        if len(ps) != 1:
            raise Unsupported("expected one array parameter")
        env = {ps[0]["local"]: Rat(Poly.atom("x"))}
        return self.expr(c, fn["body"], env)

    def const_of(self, c, e):
        e = peel_refs(e)
        if e.get("k") == "Lit" and e.get("lk") in ("int", "float"):
            import re
            return Fraction(re.sub(r"_?(f32|f64|usize|u8|u16|u32|u64|i8|i16|i32|i64|isize)$", "", e["v"].replace("_", "")))
        if e.get("k") == "Unary" and e["op"] == "-":
            v = self.const_of(c, e["e"])
            return -v if v is not None else None
        if e.get("k") == "Call":
            f = strip(e["f"])
            d = c.dfn(f.get("def")) if f.get("k") == "Path" else None
            if d and d["name"] == "one" and not e["args"]:
                return Fraction(1)
            if d and d["name"] == "zero" and not e["args"]:
                return Fraction(0)
            if d and d["name"] in ("cast", "from", "from_f64", "from_f32") and len(e["args"]) == 1:
                return self.const_of(c, e["args"][0])
        if e.get("k") == "MethodCall" and e["name"] == "unwrap" and not e["args"]:
            return self.const_of(c, e["recv"])
        return None

    def expr(self, c, e, env):
        e = strip(e)
        k = e.get("k")
        if k == "Block":
            env = dict(env)
            for s in e["stmts"]:
                s0 = strip(s)
                if s0.get("k") == "LetStmt" and s0.get("init") is not None and s0["pat"].get("k") == "Bind":
                    cv = self.const_of(c, s0["init"])
                    env[s0["pat"]["local"]] = Rat.const(cv) if cv is not None else self.expr(c, s0["init"], env)
                elif s0.get("k") == "If":
                    self.clamps.append("branch at line %s" % s0.get("ln"))
                    raise Unsupported("conditional in an element-wise map")
                else:
                    raise Unsupported("statement %s" % s0.get("k"))
            if e.get("e") is None:
                raise Unsupported("block without value")
            return self.expr(c, e["e"], env)
        cv = self.const_of(c, e)
        if cv is not None:
            return Rat.const(cv)
        if k == "Ref" or (k == "Unary" and e["op"] == "*"):
            return self.expr(c, e["e"], env)
        if k == "Unary" and e["op"] == "-":
            return -self.expr(c, e["e"], env)
        if k == "Path" and "local" in e:
            if e["local"] in env:
                return env[e["local"]]
            raise Unsupported("unbound local %s" % e.get("name"))
        if k == "Binary" and e["op"] in ("+", "-", "*", "/"):
            a, b = self.expr(c, e["l"], env), self.expr(c, e["r"], env)
            return {"+": a + b, "-": a - b, "*": a * b, "/": a / b}[e["op"]] if e["op"] != "/" else a / b
        if k == "If":
            self.clamps.append("branch at line %s" % e.get("ln"))
            raise Unsupported("conditional in an element-wise map")
        if k == "Call":
            f = strip(e["f"])
            d = c.dfn(f.get("def")) if f.get("k") == "Path" else None
            nm = d["name"] if d else None
            if nm in ("ones", "from_elem") and d and d["krate"] == "ndarray":
                if nm == "ones":
                    return Rat.const(1)
                cv = self.const_of(c, e["args"][-1])
                if cv is not None:
                    return Rat.const(cv)
            if nm == "zeros" and d and d["krate"] == "ndarray":
                return Rat.const(0)
            if nm in ("exp", "ln", "neg", "recip") and len(e["args"]) == 1:
                return self.method(c, nm, self.expr(c, e["args"][0], env), [], env, e)
            if nm in ("max", "min") and len(e["args"]) == 2:
                self.clamps.append("%s at line %s" % (nm, e.get("ln")))
                raise Unsupported("clamp")
            # a helper of the same crate (`Self::bounded_mean(x.exp())`): read through it - a branch or clamp inside it is a
            # branch or clamp of the map
            di = f.get("inst", f.get("def")) if f.get("k") == "Path" else None
            g = next((h for h in c.fns if h["def"] == di), None) if di is not None else None
            if g is None and f.get("k") == "Path" and "def" in f:
                g = next((h for h in c.fns if h["def"] == f["def"]), None)
            if g is not None and getattr(self, "_depth", 0) < 3:
                ps = [b for p_ in g["params"] for b in pat_bindings(p_) if b["name"] != "self"]
                if len(ps) == len(e["args"]):
                    for y_ in walk(g["body"]):
                        if y_.get("k") == "If" or (y_.get("k") == "Match" and y_.get("src", "Normal") == "Normal") or (y_.get("k") in ("MethodCall", "Call") and y_.get("name") in ("max", "min", "clamp")):
                            self.clamps.append("branch in helper `%s` (line %s)" % (g["d"]["name"], y_.get("ln")))
                            break
                    env2 = {}
                    for b, a in zip(ps, e["args"]):
                        env2[b["local"]] = self.expr(c, a, env)
                    self._depth = getattr(self, "_depth", 0) + 1
                    try:
                        return self.expr(c, g["body"], env2)
                    finally:
                        self._depth -= 1
            raise Unsupported("call of %s" % nm)
        if k == "MethodCall":
            nm = e["name"]
            if nm in ("clone", "to_owned", "view", "into_owned", "reborrow", "copied", "cloned") and not e["args"]:
                return self.expr(c, e["recv"], env)
            if nm in ("mapv", "map", "mapv_into") and len(e["args"]) == 1:
                clo = strip(e["args"][0])
                base = self.expr(c, e["recv"], env)
                if clo.get("k") == "Closure" and len(clo["params"]) == 1:
                    env2 = dict(env)
                    for b in pat_bindings(clo["params"][0]):
                        env2[b["local"]] = base
                    return self.expr(c, clo["body"], env2)
                if clo.get("k") == "Path" and "def" in clo:
                    d = c.dfn(clo["def"])
                    if d and d["name"] in ("exp", "ln", "neg", "recip"):
                        return self.method(c, d["name"], base, [], env, e)
                raise Unsupported("mapv argument")
            recv = self.expr(c, e["recv"], env)
            return self.method(c, nm, recv, e["args"], env, e)
        raise Unsupported("expression %s" % k)

    def method(self, c, nm, recv, args, env, node):
        if nm == "exp":
            return self.fn_atom("exp", recv)
        if nm == "ln":
            return self.fn_atom("ln", recv)
        if nm == "neg":
            return -recv
        if nm == "recip":
            return Rat.const(1) / recv
        if nm == "powi" and len(args) == 1:
            cv = self.const_of(c, args[0])
            if cv is not None and cv.denominator == 1 and 0 <= cv <= 6:
                out = Rat.const(1)
                for _ in range(int(cv)):
                    out = out * recv
                return out
        if nm in ("max", "min", "clamp", "abs", "signum", "floor", "ceil", "round"):
            self.clamps.append("%s at line %s" % (nm, node.get("ln")))
            raise Unsupported("non-smooth operation %s" % nm)
        raise Unsupported("method %s" % nm)
