"""Check framework: facts cache keyed by /repo tree hash, rule results, known findings, evidence."""
import fcntl
import hashlib
import json
import os
import shutil
import subprocess
import sys
import time

from .facts import Facts

VERIF = os.path.dirname(os.path.dirname(os.path.abspath(__file__)))
REPO = os.environ.get("LINFA_REPO", "/repo")
CACHE = os.environ.get("LINFA_FACTS_CACHE", os.path.join(VERIF, ".cache"))


class CheckerError(Exception):
    """The checker itself cannot do its job (driver missing, facts unreadable). Exit code 2."""


def tree_hash(repo):
    """sha256 over every *.rs / Cargo.toml / Cargo.lock under repo (target/ and .git/ excluded)."""
    h = hashlib.sha256()
    n = 0
    for root, dirs, files in os.walk(repo):
        dirs[:] = sorted(d for d in dirs if d not in ("target", ".git"))
        for f in sorted(files):
            if f.endswith(".rs") or f in ("Cargo.toml", "Cargo.lock"):
                p = os.path.join(root, f)
                h.update(os.path.relpath(p, repo).encode())
                h.update(b"\0")
                with open(p, "rb") as fh:
                    h.update(fh.read())
                h.update(b"\0")
                n += 1
    # the driver is part of the key: a rebuilt driver invalidates old facts
    drv = os.path.join(VERIF, "driver", "src")
    for f in sorted(os.listdir(drv)):
        with open(os.path.join(drv, f), "rb") as fh:
            h.update(fh.read())
    return h.hexdigest()[:24], n


def ensure_facts(cfg="default", repo=None):
    """Return directory with facts of `cfg` for the current tree of `repo`, extracting if needed."""
    repo = repo or REPO
    th, nfiles = tree_hash(repo)
    d = os.path.join(CACHE, th)
    os.makedirs(d, exist_ok=True)
    marker = os.path.join(d, "ok.%s" % cfg)
    lock = open(os.path.join(CACHE, "lock.%s.%s" % (th, cfg)), "w")
    fcntl.flock(lock, fcntl.LOCK_EX)
    try:
        if not os.path.exists(marker):
            t0 = time.time()
            rc = subprocess.call([os.path.join(VERIF, "bin", "extract-facts"), repo, d, cfg])
            if rc == 4:
                # the tree does not build in this configuration: that is a finding, not a checker error
                return d, th, nfiles, "build-failed"
            if rc != 0:
                raise CheckerError("fact extraction failed rc=%d" % rc)
            with open(marker, "w") as f:
                f.write("%.1f\n" % (time.time() - t0))
            prune_cache(keep=d)
    finally:
        fcntl.flock(lock, fcntl.LOCK_UN)
        lock.close()
    return d, th, nfiles, "ok"


def prune_cache(keep, max_entries=6):
    ents = []
    for e in os.listdir(CACHE):
        p = os.path.join(CACHE, e)
        if os.path.isdir(p) and p != keep and len(e) == 24 and all(ch in "0123456789abcdef" for ch in e):
            ents.append((os.path.getmtime(p), p))
    ents.sort()
    while len(ents) > max_entries:
        _, p = ents.pop(0)
        shutil.rmtree(p, ignore_errors=True)


class Violation:
    """`undecided` = the rule could not locate or classify the construct it reasons about (anchor lost, shape not
    understood, instance count below the confirmed floor). That is not evidence that the property is broken - a
    refactoring does it too - so it is reported as UNDECIDED, never as VIOLATION (see DESIGN.md section 9.7)."""

    def __init__(self, rule, key, msg, loc=None, detail=None, undecided=False):
        self.rule = rule
        self.key = "%s : %s" % (rule, key)
        self.msg = msg
        self.loc = loc
        self.detail = detail or {}
        self.undecided = undecided

    def to_json(self):
        return {"rule": self.rule, "key": self.key, "msg": self.msg, "loc": self.loc, "detail": self.detail, "undecided": self.undecided}


class RuleResult:
    """What one rule analysed and found."""

    def __init__(self, rule, desc):
        self.rule = rule
        self.desc = desc
        self.instances = []  # rule instances examined (strings, line-free)
        self.obligations = 0
        self.discharged = 0
        self.violations = []
        self.info = []
        self.samples = []
        self.floor = 0

    def instance(self, s):
        self.instances.append(s)

    def ok(self, n=1):
        self.obligations += n
        self.discharged += n

    def violate(self, key, msg, loc=None, detail=None, undecided=None):
        """positive evidence by default; `undecided=True` (or a message that says `(fail closed)`) marks a
        could-not-classify outcome"""
        self.obligations += 1
        if undecided is None:
            undecided = "(fail closed)" in msg
        self.violations.append(Violation(self.rule, key, msg, loc, detail, undecided=bool(undecided)))

    def undecided(self, key, msg, loc=None, detail=None):
        self.violate(key, msg, loc, detail, undecided=True)

    def missing_anchor(self, what):
        self.obligations += 1
        self.violations.append(Violation(self.rule, "anchor-missing:%s" % what,
                                         "anchor %s not found in the fact base" % what, undecided=True))

    def sample(self, s):
        if len(self.samples) < 6:
            self.samples.append(s)

    def finish(self, floor):
        """Fail closed when fewer instances than the confirmed floor were found."""
        self.floor = floor
        if len(self.instances) < floor:
            self.obligations += 1
            self.violations.append(Violation(self.rule, "below-floor",
                                             "rule matched %d instances, confirmed floor is %d" % (len(self.instances), floor), undecided=True))
        return self


class Ctx:
    def __init__(self, tier):
        self.tier = tier
        self._facts = {}
        self.tree = None
        self.nfiles = 0
        self.repo = REPO
        self.build_status = {}

    def facts(self, cfg="default"):
        if cfg not in self._facts:
            d, th, n, status = ensure_facts(cfg)
            self.tree, self.nfiles = th, n
            self.build_status[cfg] = status
            self.facts_dir = d
            if status != "ok" and cfg != "serde":
                # a tree that does not compile cannot be analysed (and cannot pass the existing tests either)
                raise CheckerError("the tree does not build in configuration `%s` (see %s/cargo.%s.log)" % (cfg, d, cfg))
            self._facts[cfg] = Facts(d, cfg) if status == "ok" else None
        return self._facts[cfg]

    def inliner(self, keep=(), pred=None, cfg="default"):
        """an Inliner (rules/sym.py) over the facts of `cfg`: private helpers are expanded in place by the tracer"""
        from .sym import Inliner
        key = (cfg, tuple(sorted(keep)), id(pred))
        if not hasattr(self, "_inliners"):
            self._inliners = {}
        if key not in self._inliners:
            self._inliners[key] = Inliner(self.facts(cfg), keep=keep, pred=pred)
        return self._inliners[key]


def load_known():
    p = os.path.join(VERIF, "known_findings.json")
    if not os.path.exists(p):
        return {"known": [], "fixed": []}
    with open(p) as f:
        return json.load(f)


def run_property(pid, rules, tier, level_text, assumptions, extra=None):
    """rules: list of callables ctx -> RuleResult (or list of RuleResult)."""
    t0 = time.time()
    ctx = Ctx(tier)
    results = []
    for r in rules:
        out = r(ctx)
        if isinstance(out, list):
            results.extend(out)
        else:
            results.append(out)
    known = load_known()
    known_keys = {k["key"]: k for k in known.get("known", []) if k["property"] == pid}
    viol, known_hit, undecided = [], [], []
    for res in results:
        for v in res.violations:
            if v.key in known_keys:
                known_hit.append((v, known_keys[v.key]))
            elif v.undecided:
                undecided.append(v)
            else:
                viol.append(v)
    print("== %s tier=%s repo=%s tree=%s files=%d" % (pid, tier, ctx.repo, ctx.tree, ctx.nfiles))
    for res in results:
        print("  rule %-18s instances=%-4d floor=%-3d obligations=%-4d discharged=%-4d violations=%d undecided=%d  -- %s" % (
            res.rule, len(res.instances), res.floor, res.obligations, res.discharged,
            len([v for v in res.violations if not v.undecided]), len([v for v in res.violations if v.undecided]), res.desc))
        for i in res.info:
            print("     info: %s" % i)
    for v, k in known_hit:
        print("KNOWN-FINDING: property=%s %s -- %s [%s]" % (pid, v.key, k.get("what", v.msg), v.loc or ""))
    no_ev = bool(os.environ.get("LINFA_NO_EVIDENCE"))
    os.makedirs(os.path.join(VERIF, "evidence"), exist_ok=True)
    replay_dir = os.path.join(VERIF, "evidence", "replay") if not no_ev else os.path.join(CACHE, "replay-scratch")
    for i, v in enumerate(viol):
        os.makedirs(replay_dir, exist_ok=True)
        rp = os.path.join(replay_dir, "%s-%d.json" % (pid, i))
        with open(rp, "w") as f:
            json.dump(v.to_json(), f, indent=1)
        print("  %s" % v.msg)
        print("    at %s   key: %s" % (v.loc, v.key))
        print("VIOLATION property=%s replay=%s" % (pid, rp))
    for v in undecided:
        print("UNDECIDED property=%s %s" % (pid, v.msg))
        print("    at %s   ukey: %s" % (v.loc, v.key))
    n_inst = sum(len(r.instances) for r in results)
    distinct = len(set(i for r in results for i in r.instances))
    obligations = sum(r.obligations for r in results)
    discharged = sum(r.discharged for r in results)
    samples = []
    for r in results:
        for s in r.samples[:3]:
            samples.append({"rule": r.rule, "instance": s})
    if not samples:
        samples = [{"rule": r.rule, "instance": (r.instances[0] if r.instances else None)} for r in results]
    ev = {
        "property_id": pid,
        "tier": tier,
        "seed": int(os.environ.get("VERIF_SEED", "0") or 0),
        "level": "other",
        "coverage": {
            "explanation": level_text,
            "evaluations": n_inst,
            "distinct_nontrivial": distinct,
            "rule": "each evaluation is one rule instance (a code site / function / type the rule examined in the "
                    "compiler-resolved fact base); distinct = distinct line-free instance keys",
            "obligations": obligations,
            "discharged": discharged,
            "samples": samples,
            "rules": [{"rule": r.rule, "what": r.desc, "instances": len(r.instances), "floor": r.floor,
                       "obligations": r.obligations, "discharged": r.discharged,
                       "violations": [v.key for v in r.violations if not v.undecided],
                       "undecided": [v.key for v in r.violations if v.undecided], "info": r.info[:20],
                       "instance_keys": r.instances[:60]} for r in results],
            "known_findings_hit": [v.key for v, _ in known_hit],
            "analysed": {"repo": ctx.repo, "tree_hash": ctx.tree, "source_files_hashed": ctx.nfiles,
                         "crates": sorted(ctx._facts["default"].crates.keys()) if ctx._facts.get("default") else [],
                         "bodies": ctx._facts["default"].n_bodies() if ctx._facts.get("default") else 0,
                         "configs": sorted(ctx._facts.keys())},
            "not_analysed": ["cfg(test) code", "examples/benches", "feature=blas branches", "third-party crates (except named dependency facts)"],
            "exhaustive": False,
        },
        "assumptions": assumptions,
        "wall_s": round(time.time() - t0, 2),
        "violations": len(viol),
    }
    ev["coverage"]["undecided"] = len(undecided)
    ev["coverage"]["undecided_keys"] = [v.key for v in undecided][:40]
    if extra:
        ev["coverage"].update(extra)
    if not no_ev:
        with open(os.path.join(VERIF, "evidence", "%s.json" % pid), "w") as f:
            json.dump(ev, f, indent=1)
    print("== %s: %d rule instances, %d/%d obligations discharged, %d known findings, %d violations, %d undecided, %.1fs" % (
        pid, n_inst, discharged, obligations, len(known_hit), len(viol), len(undecided), time.time() - t0))
    if viol:
        return 1
    if undecided and tier == "thorough":
        # the thorough tier is strict: rules that lost their anchors must be re-anchored before the check says anything
        print("CHECKER-ERROR: %d rule instance(s) could not be decided on this tree (anchors lost / shapes not understood); "
              "this is not a VIOLATION of %s" % (len(undecided), pid))
        return 2
    return 0
