"""Iterator impls of the workspace: the provided methods (`nth`, `fold`, `count`, `last`, ..) are defined through `next`, so
an impl that only writes `next` has one definition of its sequence.  An impl that overrides one of them writes a second
one, and the adaptors of std choose between the two (`flatten`, `collect`, `for_each`, `sum` go through `fold`; `skip`,
`step_by` through `nth`): the sequence a caller sees then depends on which adaptor it happens to use.

Decided here: an overriding `nth(n)` advances *relative* to the current position (its contract is "skip n items from
here") - a position field that `next` increments is not overwritten with a value that forgets it; an override that
obtains its items through `self.next()` is the same sequence by construction.  Any other override is a second
implementation whose agreement with `next` is a statement about values: reported as undecided, never as a violation."""
from .core import RuleResult
from .facts import fn_key, fn_loc, walk, strip, peel_refs, Render

HINTS = {"next", "size_hint"}


def _self_field(n):
    n = peel_refs(n)
    while n.get("k") == "Field":
        b = peel_refs(n["e"])
        if b.get("k") == "Path" and b.get("name") == "self":
            return n["name"]
        n = b
    return None


def make_rule(rid, crates, floor, what):
    def rule(ctx):
        res = RuleResult(rid, "Iterator impls of %s: an overridden provided method agrees with `next` (nth is relative; other overrides go through self.next())" % what)
        F = ctx.facts()
        impls = {}
        for fn in F.all_fns():
            d = fn["d"]
            if d["krate"] not in crates or fn.get("exp") or "tests" in d["path"]:
                continue
            if (d.get("trait") or "").split("<")[0].split("::")[-1] == "Iterator" and d.get("self_adt"):
                impls.setdefault((d["krate"], d["self_adt"]), []).append(fn)
        for (kr, adt), fns in sorted(impls.items()):
            nxt = [f for f in fns if f["d"]["name"] == "next"]
            names = sorted(f["d"]["name"] for f in fns)
            res.instance("%s : Iterator methods written out %s" % (adt, names))
            if not nxt:
                res.undecided("%s : no-next" % adt, "an Iterator impl without `next` in the facts (fail closed)", fn_loc(fns[0]))
                continue
            pos = set()
            for y in walk(nxt[0]["body"]):
                if y.get("k") == "AssignOp" and y["op"] in ("+", "-") and _self_field(y["l"]):
                    pos.add(_self_field(y["l"]))
            ok = True
            for fn in fns:
                name = fn["d"]["name"]
                if name in HINTS:
                    continue
                r = Render(fn["crate"])
                key = fn_key(fn)
                via_next = any(y.get("k") == "MethodCall" and y["name"] in ("next", "by_ref") and peel_refs(y["recv"]).get("name") == "self" for y in walk(fn["body"]))
                if name == "nth":
                    bad = None
                    for y in walk(fn["body"]):
                        if y.get("k") == "Assign" and _self_field(y["l"]) in pos:
                            f = _self_field(y["l"])
                            if not any(_self_field(z) == f for z in walk(y["r"]) if z.get("k") == "Field"):
                                bad = (y, f)
                    if bad:
                        ok = False
                        res.violate("%s : nth-sets-absolute-position:%s" % (key, bad[1]), "`%s`: `nth(n)` skips n items *from the current position*; the position `self.%s`, which `next` advances, is overwritten with a value that does not depend on it - after the first item has been taken, `nth`, `skip` and `step_by` return other items than repeated `next` would" % (r.e(bad[0])[:50], bad[1]), fn_loc(fn, bad[0].get("ln")))
                        continue
                    if via_next or any(y.get("k") == "AssignOp" and _self_field(y["l"]) in pos for y in walk(fn["body"])):
                        continue
                if via_next:
                    continue
                ok = False
                res.undecided("%s : second-implementation:%s" % (key, name), "`%s` is overridden without going through `self.next()`: the adaptors of std that use it (`%s`) see the sequence this body defines, those that do not see the one `next` defines; that the two agree is a statement about values" % (name, "flatten, collect, for_each, sum" if name in ("fold", "try_fold") else name), fn_loc(fn))
            if ok:
                res.ok()
        return res.finish(floor)
    rule.__name__ = "rule_" + rid.replace("-", "_")
    return rule
