"""A field that serde is told to skip comes back from deserialisation as `Default::default()`.

For an `Option` that is a representable state ("no tokenizer function given") and the code can tell; for a plain flag or
number that the methods of a fitted model *read* - a value derived from the other fields at construction time, kept to
save a match per column - the restored model silently computes with `false` / `0` instead: the same `offsets()`,
`scales()` and `method()`, another map.

The rule reads the set of serialised fields off the generated `Serialize` impl (its `serialize_field("name", ..)` calls),
compares it with the fields of the struct, and reports a skipped field of a non-optional type that a `&self` method reads.
What is decided is that structural part: every non-optional field a method reads takes part in the serialised form."""
import re

from .core import RuleResult
from .facts import fn_key, fn_loc, walk, strip, peel_refs

ABSENT_OK = re.compile(r"^(core::option::|std::option::)?Option<|PhantomData|OnceCell|OnceLock|RefCell<(core::option::|std::option::)?Option<")


def make_rule(rid, crates, what, floor=1):
    def rule(ctx):
        res = RuleResult(rid, "every non-optional field that a method of a serialisable type of %s reads is part of its serialised form (no `serde(skip)` on a derived value)" % what)
        F = ctx.facts("serde")
        if F is None:
            return res.finish(0)
        n = 0
        for c in F.crates.values():
            if c.name not in crates:
                continue
            adts = {a["path"].split("::")[-1]: a for a in c.adts}
            for fn in c.fns:
                d = fn["d"]
                if d["name"] != "serialize" or not fn.get("exp") or not d.get("self_adt"):
                    continue
                nm = d["self_adt"].split("::")[-1].split("<")[0]
                a = adts.get(nm)
                if a is None or len(a.get("variants") or []) != 1:
                    continue
                fields = {f_["name"]: f_.get("ty") or "" for f_ in a["variants"][0]["fields"]}
                written = set()
                for y in walk(fn["body"]):
                    if y.get("k") == "Call" and (c.dfn(strip(y["f"]).get("def")) or {}).get("name") in ("serialize_field", "serialize_entry") and len(y["args"]) >= 2:
                        l = peel_refs(y["args"][1])
                        if l.get("k") == "Lit" and isinstance(l.get("v"), str):
                            written.add(l["v"].strip('"'))
                if not written or not (written & set(fields)):
                    continue          # newtype / tuple struct / renamed: nothing to compare
                n += 1
                res.instance("%s::%s : %d of %d fields serialised" % (c.name, nm, len(written & set(fields)), len(fields)))
                skipped = [f_ for f_ in fields if f_ not in written]
                if not skipped:
                    res.ok()
                    continue
                bad = None
                for f_ in skipped:
                    if ABSENT_OK.search(fields[f_].strip()):
                        continue
                    for g in c.fns:
                        gd = g["d"]
                        if g.get("exp") or (gd.get("self_adt") or "").split("::")[-1].split("<")[0] != nm or not g["params"] or g["params"][0].get("name") != "self":
                            continue
                        for y in walk(g["body"]):
                            if y.get("k") == "Field" and y["name"] == f_ and peel_refs(y["e"]).get("name") == "self":
                                bad = (f_, g, y)
                                break
                        if bad:
                            break
                    if bad:
                        break
                if bad:
                    res.violate("%s::%s : skipped-field-read:%s" % (c.name, nm, bad[0]), "`%s.%s` (%s) is left out of the serialised form and comes back as Default::default(), but %s reads it: a model restored from its serialised form computes with another value than the one it was saved with" % (nm, bad[0], fields[bad[0]][:30], fn_key(bad[1])), fn_loc(bad[1], bad[2].get("ln")))
                else:
                    res.ok()
        if n < floor:
            res.missing_anchor("derived Serialize impls of named-field structs in %s (found %d)" % (what, n))
        return res.finish(floor)
    rule.__name__ = "rule_" + rid.replace("-", "_")
    return rule
