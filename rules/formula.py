"""Formula reader for score functions written as array expressions (`a.sub(&b).mapv(|x| x * x).mean()`): the expression
tree of a metric is normalised into a rational function over

  element-wise atoms   p (the receiver's elements), t (the argument's), abs[u], ln[u], sqrt[u], clip[u], y (a bool element)
  scalar atoms         n (number of elements), S[m] (the sum over the elements of the element-wise monomial m),
                       MAX[u], eps (a literal regulariser of at most 1e-6 in absolute value), parameters, opaque calls

with sums expanded by linearity (S[a + c b] = S[a] + c S[b] for scalar c, S[1] = n), and compared with the textbook
definition built in the same algebra, by cross-multiplication, after eps -> 0.  Nothing is evaluated: expressions are
read from the typed HIR, and two ways of writing one formula (a helper, `x.powi(2)` for `x * x`, the mean as sum / len,
the variance through raw moments) have one normal form.  A shape outside the vocabulary raises Unsupported (the
caller reports UNDECIDED, never a violation)."""
from fractions import Fraction

from .calc import Poly, Rat, Unsupported
from .facts import strip, peel_refs, pat_bindings, lit_number

TINY = Fraction(1, 10 ** 6)
PASS = {"with_lapack", "without_lapack", "as_single_targets", "as_targets", "as_multi_targets", "view", "to_owned", "clone", "iter", "into_iter", "to_vec", "unwrap", "ok_or", "ok_or_else",
        "expect", "copied", "cloned", "into_owned", "reborrow", "into_scalar", "borrow", "as_ref", "into", "deref", "to_f32", "to_f64",
        "as_slice", "as_slice_memory_order", "insert_axis", "into_shape", "reshape", "flatten", "into_dimensionality", "unwrap_or_default"}
ELEMFN = ("abs", "ln", "sqrt", "clip", "exp")


class V:
    """a value: kind 'elem' (an array / iterator whose element is r) or 'scal'"""

    def __init__(self, kind, r):
        self.kind = kind
        self.r = r


class Formula:
    def __init__(self, facts=None):
        self.F = facts
        self.args = {}       # function atom -> (kind, Rat)
        self.sums = {}       # sum / extremum atom -> (what, element-wise monomial | Rat)
        self.elem = {"p", "t", "y"}
        self.depth = 0
        self.notes = []
        self.opaque = set()        # argument-less methods kept as opaque calls (`self.precision()`)
        self.opaque_elem = {}      # argument-less methods that return a sequence: name -> element atom
        self.opaque_any = {}       # methods (any arguments) read as one element-wise atom each: name -> atom
        self.skip_early_returns = False   # read the fall-through path only: `if .. { return .. }` statements are other paths
        self.let_override = {}     # local id -> V: a `let` whose initialiser is classified by the caller (a running extremum)
        self.general_branch = False   # under a zero test (exact or with a tolerance) read the branch for the non-zero case
        self.bool_env = {}         # local id of a bool parameter -> the value to read the code for
        self.method_bool = {}      # argument-less bool method -> the value to read the code for (`is_binary`)

    # ---- atoms
    def is_elem_atom(self, a):
        return a in self.elem

    def has_elem(self, poly):
        return any(self.is_elem_atom(a) for a in poly.atoms())

    def atom(self, name, elem=False):
        if elem:
            self.elem.add(name)
        return Rat(Poly.atom(name))

    def fn_atom(self, kind, arg):
        """abs / ln / sqrt / clip of a rational argument; |-u| = |u|"""
        if kind == "abs" and arg.num.d:
            lead = min(arg.num.d.items(), key=lambda mc: str(mc[0]))[1]
            dl = min(arg.den.d.items(), key=lambda mc: str(mc[0]))[1] if arg.den.d else 1
            if (lead < 0) != (dl < 0):
                arg = -arg
            if dl < 0:
                arg = Rat(-arg.num, -arg.den)
        if kind == "sqrt":
            # sqrt(u * u) is |u| only; keep opaque
            pass
        name = "%s[%s]" % (kind, arg.key())
        self.args[name] = (kind, arg)
        if self.has_elem(arg.num) or self.has_elem(arg.den):
            self.elem.add(name)
        return Rat(Poly.atom(name))

    def total(self, r, what="S"):
        """sum over the elements of the element-wise expression r, expanded by linearity"""
        if self.has_elem(r.den):
            name = "%s[%s]" % (what, r.key())
            self.sums[name] = (what, r)
            return Rat(Poly.atom(name))
        out = Poly()
        for m, c in r.num.d.items():
            em = tuple((a, p) for a, p in m if self.is_elem_atom(a))
            sm = tuple((a, p) for a, p in m if not self.is_elem_atom(a))
            if em:
                s_atom = "%s[%s]" % (what, "*".join("%s^%d" % ap for ap in em))
                self.sums[s_atom] = (what, em)
                term = Poly({tuple(sorted(sm)): c}) * Poly.atom(s_atom)
            else:
                term = Poly({tuple(sorted(sm)): c}) * Poly.atom("n")
            out = out + term
        return Rat(out, r.den)

    def extremum(self, what, r):
        name = "%s[%s]" % (what, r.key())
        self.sums[name] = (what, r)
        return Rat(Poly.atom(name))

    @staticmethod
    def drop_eps(r):
        def d(p):
            return Poly({m: c for m, c in p.d.items() if not any(a == "eps" for a, _ in m)})
        return Rat(d(r.num), d(r.den))

    def equal(self, a, b):
        a, b = self.drop_eps(a), self.drop_eps(b)
        if a.den.is_zero() or b.den.is_zero():
            return False
        return a.equals(b)

    # ---- fingerprints: the value of a normal form at a fixed rational point, functions uninterpreted (hashed on the
    # value of their argument). Equal rational functions have equal fingerprints whatever way they were written.
    @staticmethod
    def _u(*parts):
        import hashlib
        h = hashlib.sha1(repr(parts).encode()).hexdigest()
        return Fraction(int(h[:10], 16) % 999983 + 2, int(h[10:20], 16) % 999979 + 1000003)

    def atom_value(self, a, k):
        if a == "eps":
            return Fraction(0)
        if a in self.args:
            kind, arg = self.args[a]
            v = self.value(arg, k)
            if kind == "abs":
                return abs(v)
            return self._u(kind, v, k)
        if a.startswith(("S[", "MAX[", "MIN[")) and a in self.sums:
            what, em = self.sums[a]
            if isinstance(em, Rat):
                return self._u(what, self.value(em, k), k)
            return self._u(what, tuple(sorted((self.atom_value(b, k), p) for b, p in em)), k)
        return self._u("atom", a, k)

    def value(self, r, k=0):
        def pv(p):
            tot = Fraction(0)
            for m, c in p.d.items():
                term = Fraction(c)
                for a, pw in m:
                    term *= self.atom_value(a, k) ** pw
                tot += term
            return tot
        den = pv(r.den)
        if den == 0:
            raise Unsupported("fingerprint: zero denominator")
        return pv(r.num) / den

    def same(self, a, b):
        """equal as rational functions: by cross-multiplication, or by value at three points"""
        if self.equal(a, b):
            return True
        try:
            return all(self.value(a, k) == self.value(b, k) for k in (0, 1, 2))
        except Unsupported:
            return False

    def digest(self, r):
        import hashlib
        try:
            return hashlib.sha1(repr([self.value(r, k) for k in (0, 1)]).encode()).hexdigest()[:8]
        except Unsupported:
            return "00000000"

    # ---- reading
    def const_of(self, c, e):
        e = peel_refs(e)
        k = e.get("k")
        if k == "Lit" and e.get("lk") in ("int", "float"):
            t = lit_number(e.get("v"))
            return Fraction(t) if t is not None else None
        if k == "Unary" and e["op"] == "-":
            v = self.const_of(c, e["e"])
            return -v if v is not None else None
        if k == "Call":
            f = strip(e["f"])
            d = c.dfn(f.get("def")) if f.get("k") == "Path" else None
            if d and d["name"] == "one" and not e["args"]:
                return Fraction(1)
            if d and d["name"] == "zero" and not e["args"]:
                return Fraction(0)
            if d and d["name"] in ("cast", "from", "from_f64", "from_f32", "from_usize") and len(e["args"]) == 1:
                return self.const_of(c, e["args"][0])
        if k == "MethodCall" and e["name"] in ("unwrap", "into") and not e["args"]:
            return self.const_of(c, e["recv"])
        return None

    def const_val(self, cv):
        if cv != 0 and abs(cv) <= TINY:
            return V("scal", self.atom("eps"))
        return V("scal", Rat.const(cv))

    def binop(self, op, a, b):
        if "elem2" in (a.kind, b.kind):
            if "elem" in (a.kind, b.kind):
                raise Unsupported("broadcast of a vector against a matrix")
            kind = "elem2"
        else:
            kind = "elem" if "elem" in (a.kind, b.kind) else "scal"
        if op == "+":
            r = a.r + b.r
        elif op == "-":
            r = a.r - b.r
        elif op == "*":
            r = a.r * b.r
        else:
            if b.r.num.is_zero():
                raise Unsupported("division by a zero expression")
            r = a.r / b.r
        return V(kind, r)

    def closure_apply(self, c, clo, vals, env):
        clo = strip(clo)
        if clo.get("k") == "Closure":
            ps = clo["params"]
            env2 = dict(env)
            if len(ps) == len(vals):
                for p_, v in zip(ps, vals):
                    bs = list(pat_bindings(p_))
                    if len(bs) == 1:
                        env2[bs[0]["local"]] = v
                    else:
                        raise Unsupported("closure pattern")
            elif len(ps) == 1 and ps[0].get("k") == "Tuple" and len(ps[0].get("pats", [])) == len(vals):
                for q, v in zip(ps[0]["pats"], vals):
                    bs = list(pat_bindings(q))
                    if len(bs) != 1:
                        raise Unsupported("closure pattern")
                    env2[bs[0]["local"]] = v
            else:
                raise Unsupported("closure arity")
            return self.expr(c, clo["body"], env2)
        if clo.get("k") == "Path" and "def" in clo:
            d = c.dfn(clo["def"])
            if d and d["name"] in ELEMFN and len(vals) == 1:
                return V(vals[0].kind, self.fn_atom(d["name"], vals[0].r))
        raise Unsupported("function argument")

    def expr(self, c, e, env):
        e = strip(e)
        k = e.get("k")
        if k == "Block":
            env = self.block_env(c, e, env)
            if e.get("e") is None:
                raise Unsupported("block without value")
            return self.expr(c, e["e"], env)
        cv = self.const_of(c, e)
        if cv is not None:
            return self.const_val(cv)
        if k in ("Ref", "Cast", "DropTemps", "Paren") or (k == "Unary" and e["op"] == "*"):
            return self.expr(c, e["e"], env)
        if k == "Unary" and e["op"] == "-":
            v = self.expr(c, e["e"], env)
            return V(v.kind, -v.r)
        if k == "Path":
            if "local" in e and e["local"] in env:
                return env[e["local"]]
            raise Unsupported("unbound %s" % e.get("name"))
        if k == "Binary" and e["op"] in ("+", "-", "*", "/"):
            return self.binop(e["op"], self.expr(c, e["l"], env), self.expr(c, e["r"], env))
        if k == "Match" and e.get("src") == "TryDesugar":
            sc = strip(e["scrut"])
            if sc.get("k") == "Call" and sc["args"]:
                return self.expr(c, sc["args"][0], env)
        if k == "Struct":
            out = {}
            for f_ in e.get("fields") or []:
                try:
                    out[f_["name"]] = self.expr(c, f_["e"], env)
                except Unsupported:
                    out[f_["name"]] = V("scal", self.atom("opaque:" + f_["name"]))
            return V("struct", out)
        if k == "If" and peel_refs(e.get("c") or {}).get("k") == "Path" and peel_refs(e["c"]).get("local") in self.bool_env and e.get("else") is not None:
            return self.expr(c, e["then"] if self.bool_env[peel_refs(e["c"])["local"]] else e["else"], env)
        if k == "If" and e.get("else") is not None and self.method_bool:
            cnd = peel_refs(e.get("c") or {})
            neg = False
            while cnd.get("k") == "Unary" and cnd["op"] == "!":
                cnd, neg = peel_refs(cnd["e"]), not neg
            if cnd.get("k") == "MethodCall" and cnd["name"] in self.method_bool and not cnd["args"]:
                val = self.method_bool[cnd["name"]] != neg
                return self.expr(c, e["then"] if val else e["else"], env)
        if k == "If" and self.general_branch and e.get("else") is not None:
            from .zeroskip import zero_test_kind
            zk = zero_test_kind(c, e["c"])
            if zk is not None:
                cnd = strip(e["c"])
                neg = False
                while cnd.get("k") == "Unary" and cnd["op"] == "!":
                    cnd, neg = strip(cnd["e"]), not neg
                if cnd.get("k") == "Binary" and cnd["op"] == "!=":
                    neg = not neg
                if cnd.get("k") == "MethodCall" and cnd["name"] in ("ne", "abs_diff_ne", "relative_ne", "ulps_ne"):
                    neg = not neg
                return self.expr(c, e["then"] if neg else e["else"], env)
        if k == "If":
            if self.is_err(c, e.get("then")) and e.get("else") is not None:
                return self.expr(c, e["else"], env)
            if e.get("else") is not None and self.is_err(c, e["else"]):
                return self.expr(c, e["then"], env)
            cond = self.boolean(c, e["cond"] if "cond" in e else e.get("c"), env)
            if cond is not None and e.get("else") is not None:
                a, b = self.expr(c, e["then"], env), self.expr(c, e["else"], env)
                one = Rat.const(1)
                return V("elem", cond * a.r + (one - cond) * b.r)
            raise Unsupported("conditional")
        if k == "Call":
            f = strip(e["f"])
            d = c.dfn(f.get("def")) if f.get("k") == "Path" else None
            nm = d["name"] if d else None
            if nm in ("Ok", "Some") and len(e["args"]) == 1:
                return self.expr(c, e["args"][0], env)
            if nm in ELEMFN and len(e["args"]) == 1:
                v = self.expr(c, e["args"][0], env)
                return V(v.kind, self.fn_atom(nm, v.r))
            if nm in ("zeros", "ones") and d and d.get("krate") == "ndarray":
                return V("elem", Rat.const(0 if nm == "zeros" else 1))
            if nm in ("neg_infinity", "infinity", "min_value", "max_value"):
                return V("scal", self.atom(nm))
            if nm in ("cast", "from", "from_usize", "from_f64", "from_f32", "from_u32", "from_u64", "from_i32", "aview1", "Array1::from", "from_vec") and len(e["args"]) == 1:
                return self.expr(c, e["args"][0], env)
            if nm == "aview1" and len(e["args"]) == 1:
                return self.expr(c, e["args"][0], env)
            g = self.local_fn(c, f)
            if g is not None:
                return self.inline(g, [self.expr(g_c, a, env) for g_c, a in ((c, a) for a in e["args"])])
            raise Unsupported("call of %s" % nm)
        if k == "MethodCall":
            return self.method(c, e, env)
        if k == "Field":
            nm = e.get("name") or e.get("field") or "?"
            return V("elem", self.atom("field:%s" % nm, elem=True))
        if k == "Index":
            ix = peel_refs(e["i"])
            if ix.get("k") == "Tup" and all(self.const_of(c, z) is not None for z in ix["es"]):
                base = peel_refs(e["e"])
                nm = base.get("name") if base.get("k") in ("Field", "Path") else "a"
                return V("scal", self.atom("%s[%s]" % (nm, ",".join(str(self.const_of(c, z)) for z in ix["es"]))))
            raise Unsupported("indexing")
        if k == "Tup":
            return V("tuple", [self.expr(c, z, env) for z in e["es"]])
        raise Unsupported("expression %s" % k)

    def block_env(self, c, e, env):
        """the bindings in force after the statements of block e"""
        from .facts import walk
        env = dict(env)
        for s in e["stmts"]:
            s0 = strip(s)
            if s0.get("k") == "LetStmt" and s0.get("init") is not None:
                p_, i_ = s0["pat"], peel_refs(s0["init"])
                if p_.get("k") == "Tuple" and i_.get("k") == "Tup" and len(p_["pats"]) == len(i_["es"]):
                    for q, x in zip(p_["pats"], i_["es"]):
                        bs = list(pat_bindings(q))
                        if len(bs) != 1:
                            raise Unsupported("let pattern")
                        env[bs[0]["local"]] = self.expr(c, x, env)
                    continue
                if p_.get("k") == "Tuple":
                    tv = self.expr(c, s0["init"], env)
                    if tv.kind == "tuple" and len(tv.r) == len(p_["pats"]):
                        for q, x in zip(p_["pats"], tv.r):
                            bs = list(pat_bindings(q))
                            if len(bs) != 1:
                                raise Unsupported("let pattern")
                            env[bs[0]["local"]] = x
                        continue
                    raise Unsupported("let pattern")
                bs = list(pat_bindings(p_))
                if len(bs) != 1:
                    raise Unsupported("let pattern")
                if bs[0]["local"] in self.let_override:
                    env[bs[0]["local"]] = self.let_override[bs[0]["local"]]
                    continue
                env[bs[0]["local"]] = self.expr(c, s0["init"], env)
            elif s0.get("k") in ("Match", "If", "Block") and self.is_assertion(c, s0):
                continue
            elif s0.get("k") == "MethodCall" and s0["name"] in ("mapv_inplace", "map_inplace") and len(s0["args"]) == 1 and peel_refs(s0["recv"]).get("k") == "Path" and peel_refs(s0["recv"]).get("local") in env:
                tgt = peel_refs(s0["recv"])["local"]
                v0 = env[tgt]
                env[tgt] = V(v0.kind, self.closure_apply(c, s0["args"][0], [V(v0.kind, v0.r)], env).r)
            elif s0.get("k") == "MethodCall" and s0["name"] == "for_each" and len(s0["args"]) == 1 and self.zip_update(c, s0, env):
                continue
            elif self.skip_early_returns and s0.get("k") == "If" and s0.get("else") is None and any(z.get("k") == "Ret" for z in walk(s0["then"])):
                continue
            else:
                raise Unsupported("statement %s" % s0.get("k"))
        return env

    @staticmethod
    def substitute(r, atom, repl, zero=()):
        """r with `atom` replaced by the polynomial `repl` and the atoms in `zero` set to 0"""
        def sub(p):
            out = Poly()
            for m, cf in p.d.items():
                if any(a in zero for a, _ in m):
                    continue
                term = Poly({tuple((a, pw) for a, pw in m if a != atom): cf})
                k_ = dict(m).get(atom, 0)
                for _ in range(k_):
                    term = term * repl
                out = out + term
            return out
        return Rat(sub(r.num), sub(r.den))

    def zip_update(self, c, call, env):
        """`Zip::from(&mut a).and(b).for_each(|x, &y| *x = e)` (also `if y == 0 { *x = e0 } else { *x = e }`: the general branch
        is read, the branch under the zero test is R-C12-zerobranch's business): rebinds `a` in env; True if understood"""
        parts = []
        cur = peel_refs(call["recv"])
        while cur.get("k") == "MethodCall" and cur["name"] == "and" and len(cur["args"]) == 1:
            parts.append(cur["args"][0])
            cur = peel_refs(cur["recv"])
        if not (cur.get("k") == "Call" and len(cur.get("args", [])) == 1):
            return False
        parts.append(cur["args"][0])
        parts.reverse()
        first = parts[0]
        if strip(first).get("k") != "Ref" or not strip(first).get("mut"):
            return False
        tgt = peel_refs(first)
        if tgt.get("k") != "Path" or tgt.get("local") not in env:
            return False
        clo = strip(call["args"][0])
        if clo.get("k") != "Closure" or len(clo["params"]) != len(parts):
            return False
        vals = [self.expr(c, p_, env) for p_ in parts]
        env2 = dict(env)
        names = []
        for p_, v in zip(clo["params"], vals):
            bs = list(pat_bindings(p_))
            if len(bs) != 1:
                return False
            env2[bs[0]["local"]] = V(v.kind, v.r)
            names.append(bs[0]["local"])
        body = strip(clo["body"])
        while body.get("k") == "Block" and not body.get("e") and len(body["stmts"]) == 1:
            body = strip(body["stmts"][0])
        while body.get("k") == "Block" and not body["stmts"] and body.get("e") is not None:
            body = strip(body["e"])

        def assigned(b):
            b = strip(b)
            while b.get("k") == "Block" and len(b["stmts"]) == 1 and b.get("e") is None:
                b = strip(b["stmts"][0])
            while b.get("k") == "Block" and not b["stmts"] and b.get("e") is not None:
                b = strip(b["e"])
            if b.get("k") == "Assign" and peel_refs(b["l"]).get("k") == "Path" and peel_refs(b["l"]).get("local") == names[0]:
                return b["r"]
            return None
        rhs = assigned(body)
        if rhs is None and body.get("k") == "If" and body.get("else") is not None:
            from .zeroskip import zero_test_kind
            zk = zero_test_kind(c, body["c"])
            if zk == "exact" or (zk is not None and self.general_branch):
                cnd = strip(body["c"])
                neg = (cnd.get("k") == "Binary" and cnd["op"] == "!=") or (cnd.get("k") == "Unary" and cnd["op"] == "!")
                rhs = assigned(body["then"] if neg else body["else"])
        if rhs is None:
            return False
        env[tgt["local"]] = V(vals[0].kind, self.expr(c, rhs, env2).r)
        return True

    @staticmethod
    def linear_exponent(r):
        """(c0, atom, c1) with integer c0, c1 if r is c0 + c1 * atom for one scalar atom, else None"""
        if r.den.d != {(): Fraction(1)}:
            return None
        c0, q, c1 = Fraction(0), None, Fraction(0)
        for m, cf in r.num.d.items():
            if m == ():
                c0 = cf
            elif len(m) == 1 and m[0][1] == 1 and q in (None, m[0][0]):
                q, c1 = m[0][0], cf
            else:
                return None
        if q is None or c0.denominator != 1 or c1.denominator != 1:
            return None
        return int(c0), q, int(c1)

    def diff(self, r, x):
        """d r / d x for the atom x (other plain atoms are constants); ln and symbolic powers by the chain rule"""
        def d_atom(a):
            if a == x:
                return Rat.const(1)
            if a in self.args:
                kind, arg = self.args[a]
                if x not in (arg.num.atoms() | arg.den.atoms()) and not any(b in self.args for b in (arg.num.atoms() | arg.den.atoms())):
                    return Rat.const(0)
                da = self.diff(arg, x)
                if kind == "ln":
                    return da / arg
                if kind == "exp":
                    return Rat(Poly.atom(a)) * da
                if kind.startswith("powsym:"):
                    q = kind.split(":", 1)[1]
                    return Rat(Poly.atom(q)) * Rat(Poly.atom(a)) / arg * da
                raise Unsupported("derivative of %s" % kind)
            if a.startswith(("S[", "MAX[", "MIN[")):
                raise Unsupported("derivative of a reduction")
            return Rat.const(0)

        def d_poly(p):
            out = Rat.const(0)
            for m, cf in p.d.items():
                for a, pw in m:
                    rest = dict(m)
                    rest[a] = pw - 1
                    mono = tuple(sorted((b, q_) for b, q_ in rest.items() if q_ != 0))
                    out = out + Rat(Poly({mono: cf * pw})) * d_atom(a)
            return out
        dn, dd = d_poly(r.num), d_poly(r.den)
        return (dn * Rat(r.den) - Rat(r.num) * dd) / Rat(r.den * r.den)

    def is_err(self, c, b):
        """a block whose value is `Err(..)` / `return Err(..)` / a panic"""
        b = strip(b) if b is not None else None
        if b is None:
            return False
        if b.get("k") == "Block":
            if b.get("e") is not None:
                return self.is_err(c, b["e"])
            return bool(b["stmts"]) and self.is_err(c, b["stmts"][-1])
        if b.get("k") in ("Ret", "Return"):
            return self.is_err(c, b.get("e"))
        if b.get("k") == "Call":
            f = strip(b["f"])
            d = c.dfn(f.get("def")) if f.get("k") == "Path" else None
            return bool(d) and (d["name"] == "Err" or "panicking" in d.get("path", "") or d["name"] in ("panic", "panic_fmt", "assert_failed"))
        return False

    def is_assertion(self, c, s0):
        """a statement that only rejects (assert!, `if bad { return Err(..) }`)"""
        from .facts import walk
        if s0.get("k") == "If" and s0.get("else") is None and self.is_err(c, s0.get("then")):
            return True
        if s0.get("k") == "If" and self.is_err(c, s0.get("then")) and s0.get("else") is not None:
            e2 = strip(s0["else"])
            while e2.get("k") == "Block" and not e2["stmts"] and e2.get("e") is not None:
                e2 = strip(e2["e"])
            if e2.get("k") == "If" and self.is_assertion(c, e2):
                return True
        for y in walk(s0):
            if y.get("k") == "Call":
                f = strip(y["f"])
                d = c.dfn(f.get("def")) if f.get("k") == "Path" else None
                if d and ("panicking" in d.get("path", "") or d["name"] in ("panic_fmt", "assert_failed")):
                    return True
        return False

    def boolean(self, c, e, env):
        """an element-wise bool as a 0/1 atom"""
        if e is None:
            return None
        e = peel_refs(e)
        if e.get("k") == "Path" and "local" in e and e["local"] in env and env[e["local"]].kind == "elem":
            v = env[e["local"]]
            return v.r
        return None

    def local_fn(self, c, f):
        if self.F is None or f.get("k") != "Path":
            return None
        for di in (f.get("inst"), f.get("def")):
            if di is None:
                continue
            d = c.dfn(di)
            if d is None or d.get("krate") != c.name:
                continue
            for h in c.fns:
                if h["def"] == di:
                    return h
        return None

    def inline(self, g, vals):
        if self.depth >= 4:
            raise Unsupported("helper depth")
        ps = [list(pat_bindings(p_)) for p_ in g["params"]]
        if len(ps) != len(vals) or any(len(b) != 1 for b in ps):
            raise Unsupported("helper parameters")
        env2 = {b[0]["local"]: v for b, v in zip(ps, vals)}
        self.depth += 1
        try:
            return self.expr(g["crate"], g["body"], env2)
        finally:
            self.depth -= 1

    def method(self, c, e, env):
        nm = e["name"]
        args = e["args"]
        if nm in self.opaque_any:
            return V("elem", self.atom(self.opaque_any[nm], elem=True))
        if nm in self.opaque_elem and not args:
            return V("elem", self.atom(self.opaque_elem[nm], elem=True))
        if nm in self.opaque and not args:
            recv = self.expr(c, e["recv"], env)
            if recv.kind == "elem":
                return V("elem", self.fn_atom("call:" + nm, recv.r))
            return V("scal", self.atom("call:" + nm))
        if nm in PASS and len(args) <= 1:
            return self.expr(c, e["recv"], env)
        recv = self.expr(c, e["recv"], env)
        if nm in ("sub", "add", "mul", "div") and len(args) == 1:
            return self.binop({"sub": "-", "add": "+", "mul": "*", "div": "/"}[nm], recv, self.expr(c, args[0], env))
        if nm in ("mapv", "map", "mapv_into", "mapv_inplace", "map_inplace") and len(args) == 1:
            v = self.closure_apply(c, args[0], [V(recv.kind, recv.r)], env)
            return V(recv.kind, v.r)
        if nm == "zip" and len(args) == 1:
            other = self.expr(c, args[0], env)
            return V("elem", (recv, other))       # a pair; consumed by map
        if nm in ELEMFN and not args:
            return V(recv.kind, self.fn_atom(nm, recv.r))
        if nm in ("max", "min") and len(args) == 1 and self.const_of(c, args[0]) is not None:
            self.notes.append(nm)
            return V(recv.kind, self.fn_atom("clip", recv.r))
        if nm in ("clamp",) and len(args) == 2:
            self.notes.append("clamp")
            return V(recv.kind, self.fn_atom("clip", recv.r))
        if nm == "neg" and not args:
            return V(recv.kind, -recv.r)
        if nm == "recip" and not args:
            return V(recv.kind, Rat.const(1) / recv.r)
        if nm in ("powi", "powf", "pow") and len(args) == 1:
            cv = self.const_of(c, args[0])
            if cv is None:
                ev = self.expr(c, args[0], env)
                lin = self.linear_exponent(ev.r) if ev.kind == "scal" else None
                if lin is not None:
                    c0, q, c1 = lin
                    out = Rat.const(1)
                    pw = self.fn_atom("powsym:" + q, recv.r)
                    for base, k_ in ((recv.r, c0), (pw, c1)):
                        for _ in range(abs(k_)):
                            out = out * base if k_ > 0 else out / base
                    return V(recv.kind, out)
                raise Unsupported("power with an exponent that is not c0 + c1 * parameter")
            if cv is not None and cv.denominator == 1 and 0 <= cv <= 6:
                out = Rat.const(1)
                for _ in range(int(cv)):
                    out = out * recv.r
                return V(recv.kind, out)
            if cv == Fraction(1, 2):
                return V(recv.kind, self.fn_atom("sqrt", recv.r))
            raise Unsupported("power")
        if nm == "map_axis" and len(args) == 2 and strip(args[1]).get("k") == "Closure":
            col = V("elem", self.atom("col", elem=True))
            return V("elem", self.closure_apply(c, args[1], [col], env).r)
        if nm in ("sum_axis", "mean_axis") and len(args) == 1 and recv.kind == "elem2":
            ax = peel_refs(args[0])
            axv = None
            if ax.get("k") == "Call" and len(ax["args"]) == 1:
                axv = self.const_of(c, ax["args"][0])
            if axv is None:
                raise Unsupported("axis of the reduction")
            tot = self.total(recv.r) if axv == 0 else self.total(recv.r, what="Sacross")
            if nm == "mean_axis":
                tot = tot / (self.atom("n") if axv == 0 else self.atom("k"))
            return V("scal", tot)
        if nm in ("sum", "mean") and not args and recv.kind == "elem2":
            tot = self.total(recv.r, what="SS")
            if nm == "mean":
                tot = tot / (self.atom("n") * self.atom("k"))
            return V("scal", tot)
        if nm in ("nrows", "nsamples") and not args and recv.kind == "elem2":
            return V("scal", self.atom("n"))
        if nm in ("ncols", "ntargets") and not args and recv.kind == "elem2":
            return V("scal", self.atom("k"))
        if nm == "len" and not args and recv.kind == "elem2":
            return V("scal", self.atom("n") * self.atom("k"))
        if nm in ("sum", "product") and nm == "sum":
            if recv.kind != "elem":
                raise Unsupported("sum of a scalar")
            return V("scal", self.total(recv.r))
        if nm == "mean" and not args:
            if recv.kind != "elem":
                raise Unsupported("mean of a scalar")
            return V("scal", self.total(recv.r) / self.atom("n"))
        if nm in ("len", "nsamples", "nrows", "count") and not args:
            if recv.kind != "elem":
                raise Unsupported("length of a scalar")
            return V("scal", self.atom("n"))
        if nm == "fold" and len(args) == 2:
            start = strip(peel_refs(args[0]))
            op = strip(args[1])
            sd = c.dfn(strip(start["f"]).get("def")) if start.get("k") == "Call" and strip(start["f"]).get("k") == "Path" else None
            od = c.dfn(op.get("def")) if op.get("k") == "Path" and "def" in op else None
            if recv.kind == "elem" and od and od["name"] in ("max", "min"):
                want = "neg_infinity" if od["name"] == "max" else "infinity"
                if sd and sd["name"] == want:
                    return V("scal", self.extremum(od["name"].upper(), recv.r))
                raise Unsupported("fold start")
            if recv.kind == "elem" and self.const_of(c, start) == 0 and op.get("k") == "Closure" and len(op["params"]) == 2:
                # fold(0, |acc, x| acc + f(x))
                bs = [list(pat_bindings(p_)) for p_ in op["params"]]
                if all(len(b) == 1 for b in bs):
                    env2 = dict(env)
                    env2[bs[0][0]["local"]] = V("scal", self.atom("__acc"))
                    env2[bs[1][0]["local"]] = V("elem", recv.r)
                    body = self.expr(c, op["body"], env2)
                    rest = body.r - self.atom("__acc")
                    if "__acc" not in rest.num.atoms() | rest.den.atoms():
                        return V("scal", self.total(rest))
            raise Unsupported("fold")
        # a sibling metric of the same trait / type: read through it
        g = None
        if self.F is not None:
            for di in (e.get("inst"), e.get("def")):
                d = c.dfn(di) if di is not None else None
                if d is not None and d.get("krate") == c.name:
                    g = next((h for h in c.fns if h["def"] == di), None)
                    if g is not None:
                        break
        if g is not None:
            vals = [recv] + [self.expr(c, a, env) for a in args]
            return self.inline(g, vals)
        raise Unsupported("method %s" % nm)


def pair_map_support(formula_cls):
    """`a.iter().zip(b.iter()).map(|(x, y)| ..)`: the zipped pair is carried as a tuple of values"""
    orig_closure = formula_cls.closure_apply

    def closure_apply(self, c, clo, vals, env):
        if len(vals) == 1 and isinstance(vals[0].r, tuple):
            a, b = vals[0].r
            return orig_closure(self, c, clo, [a, b], env)
        return orig_closure(self, c, clo, vals, env)
    formula_cls.closure_apply = closure_apply


pair_map_support(Formula)
