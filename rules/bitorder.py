"""Order of floating-point values taken from the order of their bit patterns.

`a.to_bits().cmp(&b.to_bits())` orders non-negative, non-NaN floats like their values - and every negative value *above*
every positive one, the negatives among themselves in reverse, and -0.0 apart from +0.0.  Scores that are ordered in
this code base (`Pr`, decision values, distances, weights) are not confined to [0, inf) by their types: `Pr` is a public
tuple struct around any f32, and decision functions hand negative values through it.  Every consumer that selects by
order (arg-max over the one-vs-all models, sorting scores for a ROC curve, the heaps of the neighbour searches) then
selects another element for such inputs, while agreeing on the non-negative inputs the tests use.

Rule: no comparison (`cmp`, `partial_cmp`, `<` ..) has `to_bits()` of a float on both sides."""
from .core import RuleResult
from .facts import fn_key, fn_loc, walk, strip, peel_refs, Render

ORDER_METHODS = {"cmp", "partial_cmp", "lt", "le", "gt", "ge", "max", "min", "total_cmp"}
FLOATS = ("f32", "f64", "F")


def _bits_of_float(c, e):
    for y in walk(e):
        if y.get("k") == "MethodCall" and y["name"] == "to_bits":
            t = (c.ty(peel_refs(y["recv"]).get("t")) or "").lstrip("&").strip()
            if t in ("f32", "f64") or not t.startswith(("u", "i")):
                return y
    return None


def make_rule(rid, crates, floor, what):
    def rule(ctx):
        res = RuleResult(rid, "orderings written out in %s compare floating-point values as values, not through `to_bits()`" % what)
        F = ctx.facts()
        for fn in F.all_fns():
            d = fn["d"]
            if d["krate"] not in crates or fn.get("exp") or "tests" in d["path"]:
                continue
            c = fn["crate"]
            r = Render(c)
            key = fn_key(fn)
            is_ord = d["name"] in ("cmp", "partial_cmp") and (d.get("trait") or "").split("<")[0].split("::")[-1] in ("Ord", "PartialOrd")
            sites = []
            for y in walk(fn["body"]):
                if y.get("k") == "MethodCall" and y["name"] in ORDER_METHODS and len(y["args"]) == 1:
                    sites.append((y, y["recv"], y["args"][0]))
                elif y.get("k") == "Binary" and y["op"] in ("<", "<=", ">", ">="):
                    sites.append((y, y["l"], y["r"]))
            bad = [(y, a, b) for y, a, b in sites if _bits_of_float(c, a) is not None and _bits_of_float(c, b) is not None]
            if not is_ord and not bad:
                continue
            res.instance("%s : %d comparisons" % (key, len(sites)))
            if bad:
                res.violate("%s : float-order-through-bit-pattern" % key, "`%s` orders floats by their bit patterns: negative values sort above all positive ones (and in reverse among themselves), -0.0 differs from +0.0 - everything that selects by this order picks another element as soon as a value is negative" % r.e(bad[0][0])[:70], fn_loc(fn, bad[0][0].get("ln")))
            else:
                res.ok()
        return res.finish(floor)
    rule.__name__ = "rule_" + rid.replace("-", "_")
    return rule
