"""Symbolic value numbering over typed HIR bodies.

Values:
  Poly   integer polynomials over atoms (commutative/associative/distributive normal form);
         atoms are the canonical keys of Terms
  Term   op(args...) term algebra: params, fields, projections, calls (receiver first), literals
  Slice  (root, offset Poly, length Poly|None): a contiguous region of a raw buffer
  Tup    tuples of values
The tracer walks a body in evaluation order, binds `let` patterns, versions locals that are
reassigned or mutated through `&mut self` methods, and records every call / assignment / return as
an Event carrying evaluated receiver/arguments, the guard stack (canonical conditions of enclosing
ifs / match arms) and the loop stack. Two expressions with the same key are the same value.
"""
from .facts import strip, pat_bindings


class Poly:
    __slots__ = ("t", "terms")

    def __init__(self, terms=None, tmap=None):
        self.t = {k: v for k, v in (terms or {}).items() if v != 0}
        self.terms = tmap or {}

    @staticmethod
    def const(c):
        return Poly({(): c})

    @staticmethod
    def atom(term):
        kk = term.key()
        return Poly({(kk,): 1}, {kk: term})

    def _tm(self, o):
        m = dict(self.terms)
        m.update(o.terms)
        return m

    def __add__(self, o):
        t = dict(self.t)
        for k, v in o.t.items():
            t[k] = t.get(k, 0) + v
        return Poly(t, self._tm(o))

    def __neg__(self):
        return Poly({k: -v for k, v in self.t.items()}, self.terms)

    def __sub__(self, o):
        return self + (-o)

    def __mul__(self, o):
        t = {}
        for k1, v1 in self.t.items():
            for k2, v2 in o.t.items():
                k = tuple(sorted(k1 + k2))
                t[k] = t.get(k, 0) + v1 * v2
        return Poly(t, self._tm(o))

    def is_const(self):
        return all(k == () for k in self.t)

    def const_value(self):
        return self.t.get((), 0) if self.is_const() else None

    def atoms(self):
        s = set()
        for k in self.t:
            s.update(k)
        return s

    def single_term(self):
        """If the polynomial is exactly one atom with coefficient 1, return its Term."""
        if len(self.t) == 1:
            (k, c), = self.t.items()
            if c == 1 and len(k) == 1:
                return self.terms.get(k[0])
        return None

    def key(self):
        if not self.t:
            return "0"
        parts = []
        for k in sorted(self.t):
            c = self.t[k]
            m = "*".join(k)
            if not k:
                parts.append(str(c))
            elif c == 1:
                parts.append(m)
            else:
                parts.append("%d*%s" % (c, m))
        return " + ".join(parts)

    def __eq__(self, o):
        return isinstance(o, Poly) and self.t == o.t

    def __hash__(self):
        return hash(self.key())

    def __repr__(self):
        return "Poly(%s)" % self.key()

    def divide_by_atom(self, atom_key):
        """If every monomial contains atom_key, return the quotient, else None."""
        t = {}
        for k, c in self.t.items():
            if atom_key not in k:
                return None
            kk = list(k)
            kk.remove(atom_key)
            t[tuple(kk)] = c
        return Poly(t, self.terms)


class Term:
    __slots__ = ("op", "args", "d", "node", "_key")

    def __init__(self, op, args=(), d=None, node=None):
        self.op = op
        self.args = tuple(args)
        self.d = d
        self.node = node
        self._key = None

    def key(self):
        if self._key is None:
            if self.args:
                self._key = "%s(%s)" % (self.op, ", ".join(k(a) for a in self.args))
            else:
                self._key = self.op
        return self._key

    def __repr__(self):
        return "Term(%s)" % self.key()

    def is_call(self, *names):
        return self.op.startswith("call:") and (not names or self.op[5:] in names)

    @property
    def name(self):
        return self.op.split(":", 1)[1] if ":" in self.op else self.op


def Atom(s, node=None):
    return Term(s, (), None, node)


class Slice:
    __slots__ = ("root", "off", "len", "root_term")

    def __init__(self, root, off, length, root_term=None):
        self.root, self.off, self.len, self.root_term = root, off, length, root_term

    def key(self):
        return "slice(%s, off=%s, len=%s)" % (self.root, self.off.key(), self.len.key() if self.len is not None else "?")

    def __repr__(self):
        return self.key()


class Tup:
    __slots__ = ("items",)

    def __init__(self, items):
        self.items = items

    def key(self):
        return "(%s)" % ", ".join(k(x) for x in self.items)


def k(v):
    return v.key() if v is not None else "?"


def as_poly(v):
    if isinstance(v, Poly):
        return v
    if v is None or isinstance(v, (Slice, Tup)):
        return None
    return Poly.atom(v)


def as_term(v):
    """Poly consisting of a single atom -> that Term; Term -> itself."""
    if isinstance(v, Term):
        return v
    if isinstance(v, Poly):
        return v.single_term()
    return None


class Event:
    def __init__(self, kind, **kw):
        self.kind = kind
        self.__dict__.update(kw)

    def __repr__(self):
        return "Event(%s %s)" % (self.kind, {a: b for a, b in self.__dict__.items() if a not in ("node", "kind", "lhs_node")})


CMP_FLIP = {"<": ">", ">": "<", "<=": ">=", ">=": "<=", "==": "==", "!=": "!="}
CMP_NEG = {"<": ">=", ">": "<=", "<=": ">", ">=": "<", "==": "!=", "!=": "=="}

TRANSPARENT = ("unwrap", "expect", "clone", "borrow", "borrow_mut", "as_ref", "as_mut", "to_owned",
               "into", "view", "view_mut", "reborrow", "deref", "deref_mut", "into_owned", "to_vec",
               "unwrap_unchecked", "cloned", "copied")
SLICE_ROOT_METHODS = ("as_slice_mut", "as_slice", "as_slice_memory_order", "as_slice_memory_order_mut")


class Inliner:
    """Which workspace callees a Tracer expands in place (wrapper inlining with a stated bound: depth 2, no recursion).
    `pred(caller_fn, callee_fn)` decides; the default takes private helpers of the same crate that are not listed in
    `keep` (the functions a rule wants to see as calls). Extracting a block into a helper, or inlining one, then leaves the
    event stream a rule looks at essentially unchanged."""

    def __init__(self, facts, keep=(), pred=None, max_depth=2):
        self.keep = set(keep)
        self.pred = pred
        self.max_depth = max_depth
        self.index = {}
        for f in facts.all_fns():
            self.index[(f["d"]["krate"], f["d"].get("raw"))] = f

    def lookup(self, caller, d, depth, stack):
        if d is None or depth >= self.max_depth:
            return None
        g = self.index.get((d.get("krate"), d.get("raw")))
        if g is None or g is caller or id(g) in stack or g["d"]["krate"] != caller["d"]["krate"]:
            return None
        if g["d"]["name"] in self.keep:
            return None
        if self.pred is not None:
            return g if self.pred(caller, g) else None
        return g if g.get("vis") != "pub" else None


class Tracer:
    """Walks one fn body. `self.events` is the ordered list of calls/assignments/returns."""

    def __init__(self, fn, transparent=TRANSPARENT, inline=None, _parent=None, _args=None):
        self.fn = fn
        self.c = fn["crate"]
        self.env = {}
        self.fenv = {}
        self.inline = inline
        self.parent = _parent
        if _parent is None:
            self.events = []
            self.guards = []
            self.loops = []
            self.depth = 0
            self.stack = set([id(fn)])
        else:
            # an inlined callee shares the event stream, the guard stack and the loop stack of its caller
            self.events = _parent.events
            self.guards = _parent.guards
            self.loops = _parent.loops
            self.depth = _parent.depth + 1
            self.stack = _parent.stack | set([id(fn)])
        self.order = 0 if _parent is None else _parent.order
        self.closure_depth = 0 if _parent is None else _parent.closure_depth
        self.n_closures = 0 if _parent is None else _parent.n_closures
        self.transparent = set(transparent)
        self.param_locals = {}
        for i, p in enumerate(fn["params"]):
            nm = p["name"] if p.get("k") == "Bind" else "param%d" % i
            if _args is not None and i < len(_args) and _args[i] is not None:
                self.bind(p, _args[i])
            else:
                self.bind(p, Term("param:" + nm))
            if p.get("k") == "Bind" and _parent is None:
                self.param_locals[p["local"]] = nm

    def try_inline(self, d, argvals, n):
        """expand a workspace helper in place; returns (True, value) or (False, None)"""
        if self.inline is None:
            return False, None
        g = self.inline.lookup(self.fn, d, self.depth, self.stack)
        if g is None or len(g["params"]) != len(argvals):
            return False, None
        self.emit("inline", name=g["d"]["name"], callee=g, node=n)
        sub = type(self)(g, transparent=self.transparent, inline=self.inline, _parent=self, _args=argvals)
        v = sub.ev(g["body"])
        self.order = sub.order
        self.n_closures = sub.n_closures
        self.emit("inline_end", name=g["d"]["name"], callee=g, node=n)
        return True, v

    def run(self):
        self.result = self.ev(self.fn["body"])
        return self

    def ty(self, n, adjusted=False):
        if n is None:
            return ""
        i = n.get("at") if adjusted and "at" in n else n.get("t")
        return self.c.ty(i) if i is not None else ""

    # ---- environment
    def bind(self, pat, val):
        if pat is None:
            return
        kk = pat["k"]
        if kk == "Bind":
            self.env[pat["local"]] = val if val is not None else Term("local:%s#%d" % (pat["name"], pat["local"]))
            if pat.get("sub"):
                self.bind(pat["sub"], val)
        elif kk == "Tuple":
            for i, q in enumerate(pat["pats"]):
                if isinstance(val, Tup) and i < len(val.items):
                    self.bind(q, val.items[i])
                else:
                    self.bind(q, Term("proj:%d" % i, (val,)) if val is not None else None)
        elif kk in ("Ref", "Box"):
            self.bind(pat["pat"], val)
        elif kk == "TupleStruct":
            d = self.c.dfn(pat.get("def"))
            nm = d["path"].split("::")[-1] if d else "?"
            for i, q in enumerate(pat["pats"]):
                if nm in ("Some", "Ok") and len(pat["pats"]) == 1:
                    self.bind(q, val if val is None else Term("unwrapped", (val,)) if not isinstance(val, (Slice, Tup)) else val)
                else:
                    self.bind(q, Term("variant:%s.%d" % (nm, i), (val,)) if val is not None else None)
        elif kk == "Struct":
            for f in pat["fields"]:
                self.bind(f["pat"], Term("field:" + f["name"], (val,)) if val is not None else None)
        elif kk in ("Or", "Slice"):
            for q in pat["pats"]:
                self.bind(q, None)

    # ---- evaluation
    def ev(self, n):
        if n is None:
            return None
        m = getattr(self, "ev_" + n["k"], None)
        if m is None:
            return Term("<%s@%d>" % (n["k"], self._fresh()))
        return m(n)

    def _fresh(self):
        self.order += 1
        return self.order

    def emit(self, kind, **kw):
        self.order += 1
        e = Event(kind, order=self.order, guards=list(self.guards), loops=list(self.loops),
                  closure_depth=self.closure_depth, **kw)
        self.events.append(e)
        return e

    def ev_Lit(self, n):
        if n["lk"] == "int":
            return Poly.const(int(n["v"]))
        return Term("lit:%s" % n["v"])

    def ev_Path(self, n):
        if "local" in n:
            v = self.env.get(n["local"])
            if v is None:
                v = Term("local:%s#%d" % (n["name"], n["local"]))
                self.env[n["local"]] = v
            return v
        if "def" in n:
            d = self.c.dfn(n["def"])
            return Term("def:" + d["path"], (), d)
        return Term("res:" + n.get("res", "?"))

    def ev_Semi(self, n):
        self.ev(n["e"])
        return None

    def ev_LetStmt(self, n):
        v = self.ev(n["init"]) if n.get("init") else None
        if n.get("init"):
            self.emit("let", val=v, node=n)
        self.bind(n["pat"], v)
        if n.get("els"):
            self.ev(n["els"])
        return None

    def ev_Block(self, n):
        for s in n["stmts"]:
            self.ev(s)
        return self.ev(n["e"]) if n.get("e") else None

    def ev_Ref(self, n):
        return self.ev(n["e"])

    def ev_Cast(self, n):
        return self.ev(n["e"])

    def ev_Unary(self, n):
        v = self.ev(n["e"])
        if n["op"] == "*":
            return v
        if n["op"] == "-":
            p = as_poly(v)
            return -p if p is not None else None
        return Term("not", (v,))

    def ev_Field(self, n):
        b = strip(n["e"])
        if b["k"] == "Path" and "local" in b and (b["local"], n["name"]) in self.fenv:
            return self.fenv[(b["local"], n["name"])]
        v = self.ev(n["e"])
        if isinstance(v, Tup) and n["name"].isdigit() and int(n["name"]) < len(v.items):
            return v.items[int(n["name"])]
        if n["name"].isdigit():
            return Term("proj:" + n["name"], (v,))
        return Term("field:" + n["name"], (v,))

    def ev_Tup(self, n):
        return Tup([self.ev(x) for x in n["es"]])

    def ev_Array(self, n):
        return Term("array", [self.ev(x) for x in n["es"]])

    def ev_Repeat(self, n):
        return Term("repeat", (self.ev(n["e"]),))

    def ev_Binary(self, n):
        l = self.ev(n["l"])
        r = self.ev(n["r"])
        op = n["op"]
        pl, pr = as_poly(l), as_poly(r)
        if pl is not None and pr is not None:
            if op == "+":
                return pl + pr
            if op == "-":
                return pl - pr
            if op == "*":
                return pl * pr
            if op in CMP_FLIP:
                return Cmp(op, pl, pr)
        return Term("bin:" + op, (l, r))

    def ev_Assign(self, n):
        r = self.ev(n["r"])
        tgt = strip(n["l"])
        lhs = self.lhs_key(tgt)
        self.emit("assign", lhs=lhs, val=r, node=n, lhs_node=tgt)
        root = self.lhs_root(tgt)
        if tgt["k"] == "Path" and "local" in tgt:
            self.env[tgt["local"]] = r if r is not None else Term("local:%s@%d" % (tgt["name"], self._fresh()))
        elif tgt["k"] == "Field" and strip(tgt["e"])["k"] == "Path" and "local" in strip(tgt["e"]) and r is not None:
            # field-sensitive: remember the value stored into `x.f`, keep `x` itself
            self.fenv[(strip(tgt["e"])["local"], tgt["name"])] = r
        elif root is not None:
            self.env[root["local"]] = Term("mutated:%s@%d" % (root["name"], self._fresh()))
        return None

    def ev_AssignOp(self, n):
        r = self.ev(n["r"])
        tgt = strip(n["l"])
        lhs = self.lhs_key(tgt)
        old = self.ev(tgt) if tgt["k"] == "Path" else None
        self.emit("assignop", op=n["op"], lhs=lhs, val=r, node=n, lhs_node=tgt, old=old)
        root = self.lhs_root(tgt)
        if root is not None:
            self.env[root["local"]] = Term("mutated:%s@%d" % (root["name"], self._fresh()))
        return None

    def lhs_root(self, tgt):
        while True:
            tgt = strip(tgt)
            if tgt["k"] == "Path":
                return tgt if "local" in tgt else None
            if tgt["k"] in ("Field", "Index"):
                tgt = tgt["e"]
            elif tgt["k"] == "Unary" and tgt["op"] == "*":
                tgt = tgt["e"]
            elif tgt["k"] == "MethodCall" and tgt["name"] in ("borrow_mut", "as_mut", "deref_mut", "get_mut", "unwrap", "index_mut", "row_mut", "column_mut", "view_mut", "slice_mut", "index_axis_mut"):
                tgt = tgt["recv"]
            else:
                return None

    def lhs_key(self, tgt):
        tgt = strip(tgt)
        if tgt["k"] == "Path" and "local" in tgt:
            if tgt["local"] in self.param_locals:
                return "param:%s" % tgt["name"]
            return "local:%s" % tgt["name"]
        if tgt["k"] == "Field":
            return "%s.%s" % (self.lhs_key(tgt["e"]), tgt["name"])
        if tgt["k"] == "Index":
            return "%s[%s]" % (self.lhs_key(tgt["e"]), k(self.ev(tgt["i"])))
        if tgt["k"] == "Unary" and tgt["op"] == "*":
            return self.lhs_key(tgt["e"])
        return k(self.ev(tgt))

    def ev_Index(self, n):
        base = self.ev(n["e"])
        idx_node = strip(n["i"])
        if isinstance(base, Slice):
            rng = self.range_of(idx_node)
            if rng is not None:
                kind, a, b = rng
                if kind == "RangeTo":
                    return Slice(base.root, base.off, b, base.root_term)
                if kind == "Range":
                    return Slice(base.root, base.off + a, b - a, base.root_term)
                if kind == "RangeFrom":
                    return Slice(base.root, base.off + a, (base.len - a) if base.len is not None else None, base.root_term)
                if kind == "RangeFull":
                    return base
        i = self.ev(n["i"])
        self.emit("index", base=base, idx=i, node=n)
        return Term("index", (base, i))

    def range_of(self, idx_node):
        """(kind, start Poly|None, end Poly|None) for range literals a..b, ..b, a.., .."""
        idx_node = strip(idx_node)
        if idx_node["k"] == "Struct":
            d = self.c.dfn(idx_node.get("def"))
            nm = d["path"].split("::")[-1] if d else ""
            if nm in ("Range", "RangeTo", "RangeFrom"):
                f = {x["name"]: as_poly(self.ev(x["e"])) for x in idx_node["fields"]}
                return (nm, f.get("start"), f.get("end"))
        if idx_node["k"] == "Path" and (self.c.dfn(idx_node.get("def")) or {}).get("path", "").endswith("RangeFull"):
            return ("RangeFull", None, None)
        return None

    def ev_Struct(self, n):
        d = self.c.dfn(n.get("def"))
        nm = d["path"] if d else "?"
        fvals = {}
        args = []
        for f in n["fields"]:
            v = self.ev(f["e"])
            fvals[f["name"]] = v
            args.append(Term("=" + f["name"], (v,)))
        base = None
        if n.get("base"):
            base = self.ev(n["base"])
            args.append(Term("..", (base,)))
        v = Term("struct:" + nm, args, d, n)
        self.emit("struct", adt=nm, fields=fvals, base=base, node=n, val=v)
        return v

    def ev_Call(self, n):
        f = strip(n["f"])
        args = [self.ev(a) for a in n["args"]]
        if f["k"] == "Path" and "def" in f:
            d = self.c.dfn(f["def"])
            name = d["name"] or d["path"].split("::")[-1]
            inst = self.c.dfn(f.get("inst"))
            done, iv = self.try_inline(inst or d, args, n)
            if done:
                self.version_mut_args(n["args"], name, args)
                return iv if iv is not None else self.call_value(name, d, None, args, n)
            e = self.emit("call", name=name, d=d, inst=inst, recv=None, args=args, node=n, callee_local=None, method=False)
            v = self.call_value(name, d, None, args, n)
            e.val = v
            return v
        fv = self.ev(f)
        local = f.get("local") if f["k"] == "Path" else None
        e = self.emit("call", name=k(fv), d=None, inst=None, recv=None, args=args, node=n, callee_local=local, method=False)
        v = Term("callv@%d" % self._fresh(), [fv] + args)
        e.val = v
        return v

    def ev_MethodCall(self, n):
        recv = self.ev(n["recv"])
        args = [self.ev(a) for a in n["args"]]
        d = self.c.dfn(n.get("def"))
        inst = self.c.dfn(n.get("inst"))
        done, iv = self.try_inline(inst or d, [recv] + args, n)
        if done:
            self.version_mut_args([n["recv"]] + list(n["args"]), n["name"], [recv] + args)
            return iv if iv is not None else self.call_value(n["name"], d, recv, args, n)
        e = self.emit("call", name=n["name"], d=d, inst=inst, recv=recv, args=args, node=n, callee_local=None, method=True)
        v = self.call_value(n["name"], d, recv, args, n)
        e.val = v
        # `&mut self` method on a local: version the local
        rn = strip(n["recv"])
        if self.ty(rn, adjusted=True).startswith("&mut "):
            root = self.lhs_root(rn)
            if root is not None and n["name"] not in ("iter_mut", "as_slice_mut", "as_targets_mut", "view_mut", "next"):
                old = self.env.get(root["local"])
                if n["name"] in ("split_off", "truncate") and len(args) == 1 and rn["k"] == "Path":
                    self.env[root["local"]] = Term("head", (old, args[0]))
                    if n["name"] == "split_off":
                        e.val = v = Term("tail", (old, args[0]))
                elif not isinstance(old, Slice):
                    self.env[root["local"]] = Term("mut:%s" % n["name"], ((old,) if old is not None else ()) + tuple(args))
        return v

    def version_mut_args(self, arg_nodes, name, argvals):
        """after an inlined call: locals handed over by `&mut` have been written by the callee"""
        for a in arg_nodes:
            a0 = strip(a)
            is_mut = (a0.get("k") == "Ref" and a0.get("mut")) or self.ty(a0, adjusted=True).startswith("&mut ")
            if not is_mut:
                continue
            root = self.lhs_root(a0["e"] if a0.get("k") == "Ref" else a0)
            if root is not None:
                old = self.env.get(root["local"])
                if not isinstance(old, Slice):
                    self.env[root["local"]] = Term("mut:%s" % name, ((old,) if old is not None else ()))

    def call_value(self, name, d, recv, args, n):
        if recv is not None:
            if name in self.transparent and not args:
                return recv
            if name in ("expect",) and len(args) == 1:
                return recv
            if name in SLICE_ROOT_METHODS and not args and d and d.get("krate") == "ndarray":
                return Slice(k(recv), Poly.const(0), None, recv)
            if isinstance(recv, Slice):
                if name in ("split_at", "split_at_mut") and len(args) == 1:
                    m = as_poly(args[0])
                    if m is not None:
                        return Tup([Slice(recv.root, recv.off, m, recv.root_term),
                                    Slice(recv.root, recv.off + m, (recv.len - m) if recv.len is not None else None, recv.root_term)])
                if name == "len" and recv.len is not None:
                    return recv.len
        allv = ([recv] if recv is not None else []) + list(args)
        return Term("call:" + name, allv, d, n)

    def ev_If(self, n):
        c = strip(n["c"])
        if c["k"] == "Let":
            v = self.ev(c["init"])
            g = "let %s = %s" % (pat_name(self.c, c["pat"]), k(v))
            gv = v
            self.guards.append(("+", g, n, v))
            self.bind(c["pat"], v)
            self._then_val = self.ev(n["then"])
            self.guards.pop()
        else:
            cv = self.ev(c)
            g = k(cv)
            gv = cv
            self.guards.append(("+", g, n, cv))
            self._then_val = self.ev(n["then"])
            self.guards.pop()
        tv = self._then_val
        ev_ = None
        if n.get("else"):
            self.guards.append(("-", g, n, gv))
            ev_ = self.ev(n["else"])
            self.guards.pop()
        if tv is not None and ev_ is not None:
            if isinstance(tv, Tup) and isinstance(ev_, Tup) and len(tv.items) == len(ev_.items):
                return Tup([Term("ite", (Term("cond:" + g), a, b)) for a, b in zip(tv.items, ev_.items)])
            return Term("ite", (Term("cond:" + g), tv, ev_))
        return Term("<if@%d>" % self._fresh())

    def ev_Let(self, n):
        v = self.ev(n["init"])
        self.bind(n["pat"], v)
        return Term("let:" + pat_name(self.c, n["pat"]), (v,))

    def ev_Match(self, n):
        sv = self.ev(n["scrut"])
        src = n["src"]
        if src == "ForLoopDesugar":
            arm = n["arms"][0]
            if arm["pat"]["k"] == "Bind":
                self.bind(arm["pat"], sv)
                return self.ev(arm["body"])
        if src == "TryDesugar":
            # scrutinee is Try::branch(x): the value is x's success payload
            inner = sv
            if isinstance(sv, Term) and sv.is_call("branch") and sv.args:
                inner = sv.args[0]
            self.emit("try", val=inner, node=n)
            return inner
        if src == "Normal" and len(n["arms"]) == 1 and n["arms"][0]["pat"]["k"] == "Bind" and isinstance(sv, Term) and (sv.op.startswith("struct:std::ops::Range") or sv.op.startswith("def:std::ops::RangeFull") or isinstance(sv, Term) and n["arms"][0]["pat"].get("name") == "r"):
            # expansion of ndarray's s![..] macro: match <range> { r => { .. SliceInfo::new_unchecked(..) } }
            from .facts import walk as _walk
            body = n["arms"][0]["body"]
            if any(x.get("k") == "Call" and (self.c.dfn(strip(x["f"]).get("def")) or {}).get("name") in ("new_unchecked", "next_in_dim") for x in _walk(body)):
                self.bind(n["arms"][0]["pat"], sv)
                inner = None
                for x in _walk(body):
                    if x is not n and x.get("k") == "Match" and x.get("src") == "Normal" and len(x["arms"]) == 1 and x["arms"][0]["pat"].get("name") == "r":
                        inner = self.ev(x)
                        break
                parts = [sv] + (list(inner.args) if isinstance(inner, Term) and inner.op == "s!" else [])
                return Term("s!", parts)
        vals = []
        for a in n["arms"]:
            g = "%s ~ %s" % (k(sv), pat_name(self.c, a["pat"]))
            self.guards.append(("+", g, n, sv))
            pushed = 1
            self.bind(a["pat"], sv)
            # literal (sub)patterns are equality tests on the matched components: `(0, _) => ..` is `scrut.0 == 0`
            for cm in self._pattern_cmps(a["pat"], sv):
                self.guards.append(("+", k(cm), n, cm))
                pushed += 1
            if a.get("guard"):
                gv = self.ev(a["guard"])
                if gv is not None:
                    self.guards.append(("+", k(gv), n, gv))
                    pushed += 1
            vals.append(self.ev(a["body"]))
            for _ in range(pushed):
                self.guards.pop()
        return Term("<match@%d>" % self._fresh(), [v for v in vals if v is not None])

    def _pattern_cmps(self, pat, v, depth=0):
        out = []
        if pat is None or depth > 3:
            return out
        kk = pat.get("k")
        if kk == "Lit" and pat.get("v") is not None:
            pv = as_poly(v)
            try:
                c = Poly.const(int(str(pat["v"]).replace("_", "")))
            except (ValueError, TypeError):
                return out
            if pv is not None:
                out.append(Cmp("==", pv, c))
        elif kk == "Tuple" and isinstance(v, Tup) and len(pat["pats"]) == len(v.items):
            for q, item in zip(pat["pats"], v.items):
                out += self._pattern_cmps(q, item, depth + 1)
        elif kk in ("Ref", "Box"):
            out += self._pattern_cmps(pat.get("pat"), v, depth + 1)
        return out

    def ev_Loop(self, n):
        src = n["src"]
        self.loops.append((src, n, None))
        if src == "ForLoop":
            body = n["body"]
            inner = strip(body["e"] if body.get("e") else (body["stmts"][0] if body["stmts"] else None))
            if inner and inner["k"] == "Match" and inner["src"] == "ForLoopDesugar":
                it = None
                sc = strip(inner["scrut"])
                if sc["k"] == "Call" and sc["args"]:
                    it = self.ev(sc["args"][0])
                self.loops[-1] = (src, n, it)
                for a in inner["arms"]:
                    p = a["pat"]
                    sub = None
                    if p["k"] == "TupleStruct" and p.get("pats"):
                        sub = p["pats"][0]
                    elif p["k"] == "Struct" and p.get("fields"):
                        sub = p["fields"][0]["pat"]
                    if sub is not None:
                        for b in pat_bindings(sub):
                            self.env[b["local"]] = Term("loopvar:%s" % b["name"])
                        self.ev(a["body"])
                self.loops.pop()
                return None
        self.ev(n["body"])
        self.loops.pop()
        return None

    def ev_Closure(self, n):
        saved = dict(self.env)
        self.n_closures += 1
        cid = self.n_closures
        for p in n["params"]:
            for b in pat_bindings(p):
                self.env[b["local"]] = Term("cparam:%s" % b["name"])
        self.closure_depth += 1
        self.loops.append(("Closure", n, None))
        rv = self.ev(n["body"])
        self.loops.pop()
        self.closure_depth -= 1
        for kk, vv in saved.items():
            self.env[kk] = vv
        return Term("closure#%d" % cid, (rv,) if rv is not None else (), None, n)

    def ev_Ret(self, n):
        v = self.ev(n["e"]) if n.get("e") else None
        self.emit("ret" if self.parent is None else "iret", val=v, node=n)
        return None

    def ev_Break(self, n):
        v = self.ev(n["e"]) if n.get("e") else None
        self.emit("break", val=v, node=n)
        return None

    def ev_Continue(self, n):
        self.emit("continue", node=n)
        return None


def pat_name(c, p):
    kk = p["k"]
    if kk in ("TupleStruct", "Struct", "Path"):
        d = c.dfn(p.get("def"))
        return d["path"].split("::")[-1] if d else "?"
    if kk == "Lit":
        return p["v"]
    if kk == "Bind":
        return "_"
    return kk


class Cmp(Term):
    """Canonical comparison `poly op 0` (poly = lhs - rhs, sign-normalised)."""
    __slots__ = ("poly", "cop")

    def __init__(self, op, pl, pr):
        d = pl - pr
        keys = [kk for kk in sorted(d.t) if kk != ()] or [()]
        if d.t and d.t.get(keys[0], 0) < 0:
            d = -d
            op = CMP_FLIP[op]
        Term.__init__(self, "cmp(%s %s 0)" % (d.key() if d.t else "0", op))
        self.poly = d
        self.cop = op

    def relation(self, a_pred, b_pred):
        """OP such that this comparison states `a OP b` for the two atoms matched by the predicates
        (integer offsets of +-1 are folded: a > b - 1 is a >= b), or None."""
        atoms = [(k[0], c) for k, c in self.poly.t.items() if len(k) == 1]
        const = self.poly.t.get((), 0)
        if len(atoms) != 2 or len(self.poly.t) - (1 if const else 0) != 2:
            return None
        (x, cx), (y, cy) = atoms
        if abs(cx) != 1 or abs(cy) != 1 or cx * cy >= 0:
            return None
        pos, neg = (x, y) if cx > 0 else (y, x)
        op = self.cop          # pos - neg + const OP 0
        if const != 0:
            # pos - neg OP -const  (integers)
            fold = {(">", 1): ">=", (">=", -1): ">", ("<", -1): "<=", ("<=", 1): "<"}
            if (op, const) in fold:
                op = fold[(op, const)]
            else:
                return None
        if a_pred(pos) and b_pred(neg):
            return op
        if a_pred(neg) and b_pred(pos):
            return CMP_FLIP[op]
        return None

    def asserts_less(self, a_pred, b_pred, allow_eq=True, strict_ok=True):
        """True when this comparison states a < b (or a <= b): exactly two atoms, matched by the predicates."""
        atoms = [(k[0], c) for k, c in self.poly.t.items() if len(k) == 1]
        if len(atoms) != 2 or len(self.poly.t) != 2:
            return None
        (x, cx), (y, cy) = atoms
        if cx * cy >= 0:
            return None
        pos, neg = (x, y) if cx > 0 else (y, x)
        # poly = pos - neg ; "pos - neg < 0" means pos < neg
        if self.cop in ("<", "<="):
            lo, hi = pos, neg
        elif self.cop in (">", ">="):
            lo, hi = neg, pos
        else:
            return None
        if a_pred(lo) and b_pred(hi):
            return self.cop in ("<", ">") and "strict" or "weak"
        if a_pred(hi) and b_pred(lo):
            return "reversed"
        return None


def canon_cmp(op, pl, pr):
    """Canonical key of a comparison between two polynomials: everything on the left, sign
    normalised so the first non-constant monomial has a positive coefficient."""
    d = pl - pr
    if not d.t:
        return "cmp(0 %s 0)" % op
    keys = [kk for kk in sorted(d.t) if kk != ()] or [()]
    if d.t[keys[0]] < 0:
        d = -d
        op = CMP_FLIP[op]
    return "cmp(%s %s 0)" % (d.key(), op)


def implied_cmps(v, positive=True):
    """Comparisons implied by a guard value being true (positive) or false: list of (Cmp, holds: bool).
    `not` flips; a true conjunction implies both conjuncts; a false disjunction implies both negations."""
    out = []
    if isinstance(v, Cmp):
        out.append((v, positive))
    elif isinstance(v, Term):
        if v.op == "not" and v.args:
            out += implied_cmps(v.args[0], not positive)
        elif v.op == "bin:&&" and positive:
            for a in v.args:
                out += implied_cmps(a, True)
        elif v.op == "bin:||" and not positive:
            for a in v.args:
                out += implied_cmps(a, False)
        elif v.op in ("bin:&&", "bin:||"):
            pass
        elif v.op.startswith("call:") and v.name in ("unwrap_or", "map") or v.op.startswith("closure#"):
            for a in v.args:
                out += implied_cmps(a, positive)
    return out


def sufficient_cmps(v, positive=True):
    """Comparisons each of which ALONE makes the guard value come out `positive` (dual of implied_cmps): the disjuncts
    of a true disjunction, the negated conjuncts of a false conjunction. `if a == 0 || b > c { return Err }` rejects
    whenever a == 0; `if a > 0 && b <= c { work } else { Err }` rejects whenever !(a > 0)."""
    out = []
    if isinstance(v, Cmp):
        out.append((v, positive))
    elif isinstance(v, Term):
        if v.op == "not" and v.args:
            out += sufficient_cmps(v.args[0], not positive)
        elif (v.op == "bin:||" and positive) or (v.op == "bin:&&" and not positive):
            for a in v.args:
                out += sufficient_cmps(a, positive)
        elif v.op.startswith("call:") and v.name in ("unwrap_or", "map") or v.op.startswith("closure#"):
            for a in v.args:
                out += sufficient_cmps(a, positive)
        elif v.op.startswith("<match@") or v.op.startswith("ite(") or v.op == "ite":
            # the value of a `match` / `if` used as a condition: it comes out `positive` when the arm taken does
            # (`match limit { Some(m) => !(depth < m), None => false }`); the arm's pattern is the extra condition
            # under which the comparison is the test, which is what binds the compared name in the first place
            for a in v.args:
                out += sufficient_cmps(a, positive)
    return out


def int_test(c, holds, atom_pred):
    """For a comparison over ONE atom x (a non-negative integer) and constants: the set of x in {0, 1, 2, 3} for which
    it holds (with polarity `holds`), or None when the comparison has another shape. `x == 0`, `x < 1`, `!(x >= 1)`
    all give {0}."""
    atoms = [(kk[0], cf) for kk, cf in c.poly.t.items() if len(kk) == 1]
    if len(atoms) != 1 or len(c.poly.t) - (1 if () in c.poly.t else 0) != 1 or not atom_pred(atoms[0][0]):
        return None
    a, const = atoms[0][1], c.poly.t.get((), 0)
    import operator
    ops = {"<": operator.lt, "<=": operator.le, ">": operator.gt, ">=": operator.ge, "==": operator.eq, "!=": operator.ne}
    if c.cop not in ops:
        return None
    out = set()
    for x in range(4):
        v = ops[c.cop](a * x + const, 0)
        if v == holds:
            out.add(x)
    return out


def rejecting_exits(tr, before_order):
    """Exits that hand an error to the caller before `before_order`: `return Err(..)` (also from an inlined helper) and
    `Err(..)` values of if/else chains. Each comes with its guard stack."""
    out = []
    for e in tr.events:
        if e.order >= before_order or not e.guards:
            continue
        if e.kind in ("ret", "iret") and as_term(e.val) is not None and as_term(e.val).is_call("Err"):
            out.append(e)
        elif e.kind == "call" and e.name == "Err":
            out.append(e)
    # a `return Err(x)` shows up as the call and as the ret: keep one per guard stack
    seen, uniq = set(), []
    for e in out:
        sig = tuple((g[0], g[1]) for g in e.guards)
        if sig not in seen:
            seen.add(sig)
            uniq.append(e)
    return uniq


def guard_relations(e, a_pred, b_pred):
    """Relations `a OP b` that hold at event e according to its guard stack."""
    rels = []
    for g in e.guards:
        for c, holds in implied_cmps(g[3], g[0] == "+"):
            op = c.relation(a_pred, b_pred)
            if op:
                rels.append(op if holds else CMP_NEG[op])
    return rels


def walk_terms(v):
    """All sub-values of a value (pre-order)."""
    stack = [v]
    while stack:
        x = stack.pop()
        if x is None:
            continue
        yield x
        if isinstance(x, Term):
            stack.extend(x.args)
        elif isinstance(x, Tup):
            stack.extend(x.items)
        elif isinstance(x, Poly):
            stack.extend(x.terms.values())
        elif isinstance(x, Slice):
            if x.root_term is not None:
                stack.append(x.root_term)
            stack.append(x.off)
            if x.len is not None:
                stack.append(x.len)
