"""C19 — serialisation round trip, decided on the `serde` configuration (which the test suite never compiles).

The derive output is analysed after expansion: what `Serialize::serialize` actually writes and what the
generated visitor actually restores, field by field, is read off the typed HIR of the generated impls."""
import re

from .core import RuleResult
from .facts import walk, strip, peel_refs, fn_key, fn_loc, split_top, Render, pat_bindings

LEVEL = ("Static analysis of the workspace compiled with every crate's `serde` feature: (build) the configuration type-checks; "
         "(both) every type with a Serialize impl has a Deserialize impl and vice versa; (struct) in the expanded derive "
         "output every field/variant of every serialisable type is written under its own name directly from the field and "
         "restored from the input - no skipped, defaulted, renamed, conditionally skipped or adapter-converted field outside a "
         "reasoned allow-list; (types) every field type is a primitive, std container, ndarray/sprs owned array, a reviewed "
         "third-party type or another serialisable workspace type; (guard) the unrestorable tokenizer function is protected by a "
         "serialised flag that is raised wherever a function is installed and tested first by every public entry of the fitted "
         "vectorisers. Holds for every value of every such type.")
ASSUME = ["serde_derive's expansion is faithful to the attributes (the pinned version's output is what is analysed)",
          "serde impls of std, ndarray, sprs, rand_xoshiro, serde_regex are lossless (trusted base)",
          "prediction is a function of the model's fields only (no interior state; see R-C03-noint)"]

PRIMS = {"bool", "usize", "u8", "u16", "u32", "u64", "u128", "isize", "i8", "i16", "i32", "i64", "i128", "f32", "f64", "char", "()", "str"}
STD_OK = {"std::string::String", "std::option::Option", "std::vec::Vec", "std::boxed::Box", "std::marker::PhantomData",
          "std::collections::HashMap", "std::collections::HashSet", "std::collections::BTreeMap", "std::collections::BTreeSet",
          "std::collections::VecDeque", "std::cell::RefCell", "std::cell::Cell", "std::result::Result", "std::ops::Range"}
THIRD_PARTY_OK = {
    "ndarray::ArrayBase": "ndarray's serde impl writes version, dim and data (lossless for owned arrays)",
    "ndarray::OwnedRepr": "owned storage of ndarray arrays",
    "ndarray::Dim": "ndarray dimension",
    "sprs::CsMatBase": "sprs serde impl writes storage, shape, indptr, indices, data",
    "sprs::sparse::CsMatBase": "sprs serde impl writes storage, shape, indptr, indices, data",
    "ndarray_rand::rand_distr::num_traits::Float": "bound only",
    "rand_xoshiro::Xoshiro256Plus": "serde1 feature: the four state words",
    "rand_xoshiro::xoshiro256plus::Xoshiro256Plus": "serde1 feature: the four state words",
    "serde_regex::Serde": "adapter that serialises the pattern string and recompiles it (regex has no other state)",
    "kodama::Method": "plain C-like enum",
    "regex::Regex": "only inside serde_regex::Serde, which serialises the pattern string",
    "linfa_nn::distance::L2Dist": "unit struct", "linfa_nn::distance::L1Dist": "unit struct",
}
# fields that are deliberately not restored from the input, by symbol, with the reason
FIELD_ALLOW = {
    ("CountVectorizerValidParams", "tokenizer_function"): "function pointers cannot be serialised; tokenizer_deserialization_guard (serialised) forces redefinition before use",
}
HANDWRITTEN_ALLOW = {}


def ser_impls(F):
    """adt path (crate-local) -> {'ser': impl, 'de': impl} per crate."""
    out = {}
    for c in F.crates.values():
        for im in c.impls:
            t = im.get("trait") or ""
            if not im.get("self_adt"):
                continue
            if "__" in im["self_adt"].split("::")[-1]:
                continue  # generated helper types (__Field, __Visitor)
            if t.endswith("serde::Serialize") or t.endswith("ser::Serialize"):
                out.setdefault((c.name, im["self_adt"]), {})["ser"] = im
            elif t.endswith("serde::Deserialize") or t.endswith("de::Deserialize"):
                out.setdefault((c.name, im["self_adt"]), {})["de"] = im
    return out


def rule_build(ctx):
    res = RuleResult("R-C19-build", "the workspace type-checks with every crate's `serde` feature enabled")
    F = ctx.facts("serde")
    res.instance("cargo +nightly check --lib --features <15 crates>/serde")
    if F is None:
        log = ""
        try:
            import os
            with open(os.path.join(ctx.facts_dir, "cargo.serde.log")) as f:
                errs = [l for l in f.read().splitlines() if l.startswith("error")]
                log = "; ".join(errs[:3])
        except Exception:
            pass
        res.violate("serde-config-does-not-build", "cargo check --features serde fails: %s" % log)
        return res.finish(1)
    res.ok()
    for name in sorted(F.crates):
        res.instance("crate %s [serde]" % name)
    res.sample({"crates": sorted(F.crates)})
    return res.finish(15)


def rule_both(ctx):
    res = RuleResult("R-C19-both", "every type with Serialize also has Deserialize (and vice versa)")
    F = ctx.facts("serde")
    if F is None:
        return res.finish(0)
    for (crate, adt), d in sorted(ser_impls(F).items()):
        inst = "%s::%s" % (crate, adt)
        only = d.get("ser") or d.get("de")
        if not ("ser" in d and "de" in d) and not only.get("derived") and F.crates[crate].exports.get(adt) is None:
            # a hand-written one-sided impl on a type that cannot be named from outside its crate: a helper of
            # somebody else's hand-written impl (field identifier, visitor), not a value users serialise
            res.info.append("private helper with a hand-written one-sided impl (not a serialisable model type): %s" % inst)
            continue
        res.instance(inst)
        if "ser" in d and "de" in d:
            res.ok()
        else:
            have = "Serialize" if "ser" in d else "Deserialize"
            miss = "Deserialize" if "ser" in d else "Serialize"
            res.violate("%s : missing-%s" % (inst, miss), "%s implements %s but not %s: values cannot make the round trip" % (inst, have, miss),
                        "%s:%d" % (F.crates[crate].files[d.get("ser", d.get("de"))["file"]], d.get("ser", d.get("de"))["line"]))
    return res.finish(80)


def lit_str(n):
    n = peel_refs(n)
    if n.get("k") == "Lit" and n.get("lk") == "str":
        return n["v"]
    return None


def self_field(n):
    """`&self.f` / `&self.0` -> 'f'; pattern-bound variant fields -> the binding name."""
    n = peel_refs(n)
    if n.get("k") == "Field":
        b = peel_refs(n["e"])
        if b.get("k") == "Path" and b.get("name") == "self":
            return n["name"]
    if n.get("k") == "Path" and "local" in n:
        return "local:" + n["name"]
    return None


def callee_name(c, n):
    if n.get("k") == "Call":
        f = strip(n["f"])
        d = c.dfn(f.get("def")) if f.get("k") == "Path" else None
        return (d["name"], d) if d else (None, None)
    if n.get("k") == "MethodCall":
        d = c.dfn(n.get("def"))
        return (n["name"], d)
    return (None, None)


def _scatter_gather(c, to_w, from_w):
    """A field of the written form that the writing conversion fills *by key* (`col[sample.index] = v`: an assignment into
    an indexed local that becomes the field) has to be read by key on the way back.  A reading conversion that only
    iterates over that field (`into_iter` / `iter` / `zip`, never an index) pairs its elements with whatever it walks in
    step with by position: every value lands on another element unless the keys happen to be 0, 1, 2, ..."""
    tail = strip(to_w["body"])
    while tail.get("k") == "Block" and tail.get("e") is not None:
        tail = strip(tail["e"])
    if tail.get("k") != "Struct":
        return None
    scattered = set()
    for y in walk(to_w["body"]):
        if y.get("k") == "Assign":
            l = peel_refs(y["l"])
            if l.get("k") == "Index":
                b = peel_refs(l["e"])
                if b.get("k") == "Path" and "local" in b:
                    scattered.add(b["local"])
    keyed = [fl["name"] for fl in tail.get("fields") or [] if peel_refs(fl["e"]).get("k") == "Path" and peel_refs(fl["e"]).get("local") in scattered]
    if not keyed:
        return None
    src = next((b for p_ in from_w["params"] for b in pat_bindings(p_)), None)
    if src is None:
        return None
    for nm in keyed:
        reads = [y for y in walk(from_w["body"]) if y.get("k") == "Field" and y["name"] == nm and peel_refs(y["e"]).get("local") == src["local"]]
        if not reads:
            continue
        # locals the field is moved into
        holders = set()
        for y in walk(from_w["body"]):
            if y.get("k") == "LetStmt" and y.get("init") is not None and y["pat"].get("k") == "Bind" and any(z in reads for z in walk(y["init"])) and peel_refs(y["init"]) in reads:
                holders.add(y["pat"]["local"])
        indexed = False
        for y in walk(from_w["body"]):
            if y.get("k") == "Index":
                b = peel_refs(y["e"])
                if b in reads or (b.get("k") == "Path" and b.get("local") in holders):
                    indexed = True
            if y.get("k") == "MethodCall" and y["name"] in ("get", "get_mut", "get_unchecked", "remove", "swap_remove"):
                b = peel_refs(y["recv"])
                if b in reads or (b.get("k") == "Path" and b.get("local") in holders):
                    indexed = True
        if not indexed:
            return (nm, "the writing conversion fills `%s` by key (an indexed assignment) while the reading conversion only walks it in order, pairing its elements by position" % nm)
    return None


def _conversion_carries(c, adt, short):
    """For a struct that is (de)serialised through `serde(into = W, from = W)`: True if both `From` impls between it and W
    build their target as a struct literal whose every field is taken from the like-named field of the source (by
    destructuring or by field access); (field, reason) if a field of the struct is provably not carried (the target is built
    by a constructor that does not take it); None if the impls were not read."""
    fields = [f_["name"] for f_ in adt["variants"][0]["fields"]]
    froms = [f for f in c.fns if f["d"]["name"] == "from" and (f["d"].get("trait") or "").endswith("From") and len(f["params"]) == 1 and not f.get("exp")]
    mine = []
    for f in froms:
        self_ty = (f["d"].get("self_adt") or f["d"].get("self_ty") or "").split("::")[-1].split("<")[0]
        src_ty = (f["inputs"][0] if f.get("inputs") else "").split("<")[0].split("::")[-1]
        if short in (self_ty, src_ty) and self_ty and src_ty:
            mine.append((f, self_ty, src_ty))
    own = adt.get("path") or ""
    def is_own(f_):
        sa = f_["d"].get("self_adt") or ""
        return sa == own or (sa.endswith("::" + own) or own.endswith("::" + sa)) and "wire" not in sa.replace(own, "")
    from_w = [x for x in mine if x[0]["d"].get("self_adt") == own] or [x for x in mine if x[1] == short and x[2] != short]
    to_w = [x for x in mine if x[0]["d"].get("self_adt") != own and x[2] == short] or [x for x in mine if x[2] == short and x[1] != short]
    # wire type of the same short name (`wire::T` for `T`): both have the same short name; tell them apart by the module path
    if not to_w or not from_w:
        return None
    sg = _scatter_gather(c, to_w[0][0], from_w[0][0])
    if sg is not None:
        return sg
    for f, self_ty, src_ty in (to_w[:1] + from_w[:1]):
        src = next((b for p_ in f["params"] for b in pat_bindings(p_)), None)
        aliases = {}         # local -> source field it was destructured from
        for y in walk(f["body"]):
            if y.get("k") == "LetStmt" and y.get("init") is not None and y["pat"].get("k") == "Struct" and src is not None and peel_refs(y["init"]).get("local") == src["local"]:
                for fp in y["pat"].get("fields") or []:
                    for b in pat_bindings(fp["pat"]):
                        aliases[b["local"]] = fp["name"]
        lit = None
        body = strip(f["body"])
        tail = body
        while tail.get("k") == "Block" and tail.get("e") is not None:
            tail = strip(tail["e"])
        if tail.get("k") == "Struct":
            lit = tail
        if lit is None:
            if tail.get("k") in ("Call", "MethodCall"):
                # built by a constructor: the fields of the struct that are not among its arguments get the constructor's defaults
                argn = set()
                for a_ in tail.get("args", []):
                    a0 = peel_refs(a_)
                    if a0.get("k") == "Path" and a0.get("local") in aliases:
                        argn.add(aliases[a0["local"]])
                    if a0.get("k") == "Field":
                        argn.add(a0["name"])
                lost = [x for x in fields if x not in argn]
                if lost and self_ty == short:
                    return (lost[0], "`From` restores it through `%s(..)`, which is not handed the stored `%s` and sets it itself" % (Render(c).e(tail["f"] if tail.get("k") == "Call" else tail)[:40], lost[0]))
            return None
        for fl in lit.get("fields") or []:
            v = peel_refs(fl["e"])
            okf = (v.get("k") == "Path" and aliases.get(v.get("local")) == fl["name"]) or (v.get("k") == "Field" and v["name"] == fl["name"] and src is not None and peel_refs(v["e"]).get("local") == src["local"])
            if not okf:
                if v.get("k") in ("Path", "Field") and (aliases.get(v.get("local")) or v.get("name")) in fields:
                    return (fl["name"], "`From` fills `%s` from `%s`" % (fl["name"], aliases.get(v.get("local")) or v.get("name")))
                return None
        if set(fl["name"] for fl in lit.get("fields") or []) != set(fields) and not lit.get("base"):
            return None
    return True


def rule_struct(ctx):
    res = RuleResult("R-C19-struct", "expanded derive output writes and restores every field/variant under its own name, directly, unconditionally")
    F = ctx.facts("serde")
    if F is None:
        return res.finish(0)
    impls = ser_impls(F)
    adts = {(c.name, a["path"]): a for c in F.crates.values() for a in c.adts}
    # index generated fns by the ADT they belong to
    ser_fns, de_fns = {}, {}
    ident_fns = {}      # (crate, type) -> {visitor path: {"visit_u64": fn, "visit_str": fn}}  (the generated identifier visitors)
    for fn in F.all_fns():
        d = fn["d"]
        t = d.get("trait") or ""
        if d["name"] == "serialize" and t.endswith("Serialize") and d.get("self_adt"):
            ser_fns[(d["krate"], d["self_adt"])] = fn
        elif t.endswith("Visitor") and d["name"] in ("visit_map", "visit_seq", "visit_enum", "visit_newtype_struct"):
            m = re.search(r"impl serde::Deserialize<'de> for ([\w:]+)", d.get("self_ty", "") + " " + d["path"])
            if m:
                de_fns.setdefault((d["krate"], m.group(1)), {})[d["name"]] = fn
        elif t.endswith("Visitor") and d["name"] in ("visit_u64", "visit_str"):
            m = re.search(r"impl serde::Deserialize<'de> for ([\w:]+)", d.get("self_ty", "") + " " + d["path"])
            if m:
                ident_fns.setdefault((d["krate"], m.group(1)), {}).setdefault(d["path"].rsplit("::", 1)[0], {})[d["name"]] = fn
    for (crate, path), d in sorted(impls.items()):
        if "ser" not in d:
            continue
        a = adts.get((crate, path))
        inst = "%s::%s" % (crate, path)
        short = path.split("::")[-1]
        if a is None:
            res.undecided("%s : adt-not-found" % inst, "serialisable type %s not found among the crate's ADTs" % inst)
            continue
        c = F.crates[crate]
        loc = "%s:%d" % (c.files[a["file"]], a["line"])
        if not d["ser"]["derived"] or ("de" in d and not d["de"]["derived"]):
            res.instance("%s : hand-written impl" % inst)
            if short in HANDWRITTEN_ALLOW:
                res.ok()
            else:
                res.undecided("%s : hand-written-impl" % inst, "hand-written Serialize/Deserialize impl for %s has not been reviewed (fail closed)" % inst, loc)
            continue
        sf = ser_fns.get((crate, path))
        if sf is None:
            res.undecided("%s : no-serialize-body" % inst, "generated serialize body not found", loc)
            continue
        # --- what is written
        written = {}      # key string -> source field
        variants_written = set()
        variant_index = {}
        flags = []
        for n in walk(sf["body"]):
            name, dd = callee_name(c, n)
            if name is None or dd is None or not dd["krate"].startswith("serde"):
                continue
            args = n["args"] if n["k"] == "Call" else [n["recv"]] + n["args"]
            if name == "serialize_field":
                if len(args) == 3:
                    written[lit_str(args[1])] = self_field(args[2])
                elif len(args) == 2:   # tuple struct / tuple variant element
                    written["#%d" % len([k for k in written if str(k).startswith("#")])] = self_field(args[1])
            elif name in ("serialize_newtype_struct",):
                written["0"] = self_field(args[2]) if len(args) > 2 else None
            elif name in ("serialize_unit_variant", "serialize_newtype_variant", "serialize_tuple_variant", "serialize_struct_variant"):
                variants_written.add(lit_str(args[3]) if len(args) > 3 else None)
                ix = peel_refs(args[2]) if len(args) > 3 else {}
                if ix.get("k") == "Lit" and lit_str(args[3]) is not None:
                    try:
                        variant_index[lit_str(args[3])] = int(re.sub(r"[^0-9]", "", str(ix.get("v")).split("u")[0].split("_")[0]))
                    except ValueError:
                        pass
            elif name in ("skip_field",):
                flags.append("conditionally skipped field (`skip_serializing_if`)")
            elif name in ("serialize_map", "serialize_entry", "collect_map", "collect_seq", "collect_str"):
                flags.append("custom container representation via `%s`" % name)
        for n in walk(sf["body"]):
            if n.get("k") == "Struct":
                dd = c.dfn(n.get("def"))
                if dd and "__SerializeWith" in dd["path"]:
                    flags.append("`serialize_with`/`with` adapter")
            name, dd = callee_name(c, n)
            if dd and dd["name"] in ("into", "from") and n.get("k") == "Call" and "Clone" in str(c.ty(n.get("t"))):
                pass
        dfn = de_fns.get((crate, path), {})
        # `deserialize_with` / `with`: serde_derive nests a `__DeserializeWith` wrapper (with its own Deserialize impl that
        # calls the custom function) inside the visitor of the type; the visitor body only names it as a type argument
        short_ = path.split("::")[-1]
        for g2 in c.fns:
            p2 = g2["d"].get("path") or ""
            if "__DeserializeWith" in p2 and re.search(r"\bfor %s\b" % re.escape(short_), p2):
                callee_ = None
                for y in walk(g2["body"]):
                    if y.get("k") == "Call" and strip(y["f"]).get("k") == "Path":
                        dd9 = c.dfn(strip(y["f"]).get("def"))
                        if dd9 and dd9["krate"] == crate:
                            callee_ = dd9["name"]
                flags.append("`deserialize_with`/`with` adapter%s" % (" (%s)" % callee_ if callee_ else ""))
                break
        missing_named = set()
        defaulted = set()
        for fname, g in dfn.items():
            for n in walk(g["body"]):
                name, dd = callee_name(c, n)
                if name == "missing_field" and n.get("k") == "Call":
                    missing_named.add(lit_str(n["args"][0]))
                if n.get("k") == "Struct":
                    dd2 = c.dfn(n.get("def"))
                    if dd2 and "__DeserializeWith" in dd2["path"]:
                        flags.append("`deserialize_with`/`with` adapter")
                    if dd2 and dd2["path"].endswith(path.split("::")[-1]) or (dd2 and dd2.get("kind") in ("Struct", "Variant", "Ctor")):
                        for f in n["fields"]:
                            v = strip(f["e"])
                            nm, d3 = callee_name(c, v)
                            if nm == "default" and d3 and "Default" in (d3.get("trait") or d3["path"]):
                                defaulted.add(f["name"])
        for fl in sorted(set(flags)):
            res.violate("%s : %s" % (inst, fl.split(" ")[0]), "%s: %s" % (inst, fl), loc)
        # `#[serde(into = "Wire", from = "Wire")]`: the generated body converts a clone of the value and serialises the other
        # type; which fields are written is decided by that type and by the two conversions, not by this body
        via_conversion = False
        if a["kind"] == "struct" and not written:
            for n in walk(sf["body"]):
                nm_, dd_ = callee_name(c, n)
                if nm_ in ("into", "from") and n.get("k") in ("Call", "MethodCall"):
                    via_conversion = True
        if via_conversion:
            res.instance("%s : serialised through a conversion" % inst)
            verdict_ = _conversion_carries(c, a, short)
            if verdict_ is True:
                res.ok()        # both `From` impls carry every field under its own name; the other type is checked as a type of its own
            elif verdict_ is None:
                res.undecided("%s : serialised-through-conversion" % inst, "the type is written and read through another type (`serde(into / from)`): that the conversions carry every field was not established (fail closed)", loc)
            else:
                res.violate("%s : conversion-drops:%s" % (inst, verdict_[0]), "the type is written and read through another type, and %s: `%s` does not survive the round trip" % (verdict_[1], verdict_[0]), loc)
            continue
        if a["kind"] == "struct":
            fields = a["variants"][0]["fields"]
            named = fields and not fields[0]["name"].isdigit()
            for i, f in enumerate(fields):
                fi = "%s.%s" % (inst, f["name"])
                res.instance(fi)
                allow = FIELD_ALLOW.get((short, f["name"]))
                problems = []
                if named:
                    if f["name"] not in written:
                        renamed = [k for k, v in written.items() if v == f["name"]]
                        problems.append("renamed to `%s`" % renamed[0] if renamed else "not serialised (skipped)")
                    elif written[f["name"]] != f["name"]:
                        problems.append("serialised from `%s` instead of the field itself" % written[f["name"]])
                    if dfn and f["name"] not in missing_named and len(fields) > 0 and "visit_map" in dfn:
                        problems.append("not required on input (`default`/`skip`): a missing or skipped value is replaced by Default")
                    if f["name"] in defaulted and "not serialised (skipped)" not in problems:
                        problems.append("restored from Default::default() instead of the input")
                else:
                    keys = [v for k, v in written.items()]
                    if f["name"] not in keys:
                        problems.append("tuple field not serialised")
                if problems and not allow:
                    res.violate("%s : %s" % (fi, problems[0].split(" (")[0].split(":")[0][:40]), "%s: %s" % (fi, "; ".join(problems)), loc)
                elif problems and allow:
                    res.ok()
                    res.info.append("allowed: %s (%s) — %s" % (fi, problems[0], allow))
                else:
                    res.ok()
                    res.sample({"field": fi, "type": f["ty"], "written_as": f["name"]})
        elif a["kind"] == "enum":
            # the index a variant is written under (non-self-describing formats transmit only this number) is the index
            # the generated identifier visitor maps back to the same variant
            vnames = set(v["name"] for v in a["variants"])

            def arm_field(body):
                for y in walk(body):
                    if y.get("k") == "Path" and "def" in y:
                        nm_ = (c.dfn(y["def"]) or {}).get("name") or ""
                        if nm_.startswith("__field") or nm_ == "__ignore":
                            return nm_
                return None
            for vpath, pair in sorted(ident_fns.get((crate, path), {}).items()):
                if "visit_u64" not in pair or "visit_str" not in pair:
                    continue
                by_name, by_index = {}, {}
                for which, tgt in (("visit_str", by_name), ("visit_u64", by_index)):
                    for y in walk(pair[which]["body"]):
                        if y.get("k") == "Match" and y.get("src", "Normal") == "Normal":
                            for arm in y["arms"]:
                                q = arm["pat"]
                                while q.get("k") == "Ref":
                                    q = q.get("pat")
                                if q.get("k") == "Lit" and q.get("v") is not None:
                                    fld = arm_field(arm["body"])
                                    if fld:
                                        key_ = str(q["v"]).strip('"') if which == "visit_str" else re.sub(r"[^0-9]", "", str(q["v"]).split("u")[0])
                                        tgt[key_] = fld
                if not by_name or not set(by_name) <= vnames:
                    continue
                res.instance("%s : variant indices written = indices read" % inst)
                bad_ix = []
                for vn, ix in sorted(variant_index.items()):
                    fld = by_name.get(vn)
                    rd = [int(i_) for i_, f_ in by_index.items() if f_ == fld and i_ != ""]
                    if fld is not None and rd and ix not in rd:
                        bad_ix.append((vn, ix, rd[0]))
                if bad_ix:
                    vn, ix, rd = bad_ix[0]
                    res.violate("%s : variant-index-mismatch:%s" % (inst, vn), "%s: variant `%s` is written under index %d but the generated identifier visitor reads it back under index %d (a skipped variant shifts the numbering on one side only): in a format that transmits the index (bincode) %d variant(s) restore as another variant or fail" % (inst, vn, ix, rd, len(bad_ix)), loc)
                else:
                    res.ok()
            for v in a["variants"]:
                vi = "%s::%s" % (inst, v["name"])
                res.instance(vi)
                if v["name"] in variants_written:
                    res.ok()
                elif (short, v["name"]) in VARIANT_ALLOW:
                    res.ok()
                    res.info.append("allowed: %s not serialisable — %s" % (vi, VARIANT_ALLOW[(short, v["name"])]))
                else:
                    res.violate("%s : variant-not-serialised" % vi, "%s: variant is skipped or renamed (written variants: %s)" % (vi, sorted(x for x in variants_written if x)), loc)
    return res.finish(250)


def type_ok(t, generics, serial_adts, crate, bad):
    t = t.strip()
    t = re.sub(r"^&('\w+ )?(mut )?", "", t)
    if t in PRIMS or t in generics:
        return
    if t.startswith("(") and t.endswith(")"):
        for x in split_top(t[1:-1]):
            type_ok(x, generics, serial_adts, crate, bad)
        return
    if t.startswith("[") and t.endswith("]"):
        inner = t[1:-1].rsplit(";", 1)[0]
        type_ok(inner, generics, serial_adts, crate, bad)
        return
    if t.startswith("<") or t.startswith("dyn ") or t.startswith("impl "):
        m = re.match(r"^<(\w+) as ", t)
        if m and m.group(1) in generics:
            return  # associated type of a generic parameter: bounded by the impl's serde predicates
        bad.append(t)
        return
    if t.startswith("fn(") or t.startswith("for<") or t.startswith("unsafe fn") or t.startswith("extern"):
        bad.append(t + " (function pointer)")
        return
    head = t.split("<", 1)[0]
    args = []
    if "<" in t:
        inner = t[len(head) + 1:t.rindex(">")]
        args = split_top(inner)
    if head in STD_OK or head in THIRD_PARTY_OK:
        pass
    elif (crate, head) in serial_adts:
        pass
    elif any(head.split("::")[0] == k[0] and head.split("::")[-1] == k[1].split("::")[-1] for k in serial_adts):
        pass  # type of another workspace crate, named through a re-export
    else:
        bad.append(t)
        return
    for x in args:
        if x.startswith("'") or re.match(r"^\d+$", x) or x in ("true", "false"):
            continue
        type_ok(x, generics, serial_adts, crate, bad)


def rule_types(ctx):
    res = RuleResult("R-C19-types", "field types of serialisable types are closed under `round-trips exactly`")
    F = ctx.facts("serde")
    if F is None:
        return res.finish(0)
    impls = ser_impls(F)
    serial = set(k for k, d in impls.items() if "ser" in d and "de" in d)
    adts = {(c.name, a["path"]): a for c in F.crates.values() for a in c.adts}
    for (crate, path) in sorted(serial):
        a = adts.get((crate, path))
        if a is None:
            continue
        c = F.crates[crate]
        short = path.split("::")[-1]
        for v in a["variants"]:
            for f in v["fields"]:
                if (short, f["name"]) in FIELD_ALLOW or (short, v["name"]) in VARIANT_ALLOW:
                    continue
                fi = "%s::%s.%s%s" % (crate, path, (v["name"] + ".") if a["kind"] == "enum" else "", f["name"])
                res.instance(fi)
                bad = []
                type_ok(f["ty"], set(a["generics"]), serial, crate, bad)
                if bad:
                    res.violate("%s : type" % fi, "%s has type %s, of which %s is not known to round-trip exactly (not a std container, reviewed third-party type or serialisable workspace type)" % (fi, f["ty"], bad),
                                "%s:%d" % (c.files[a["file"]], a["line"]))
                else:
                    res.ok()
    return res.finish(220)


VARIANT_ALLOW = {
    ("Error", "NdShape"): "ndarray::ShapeError offers no serde; serialising this variant fails with an error, it is never silently lossy",
}


def rule_witness(ctx):
    """Compile-time half: every serialisable type, instantiated at f64 and f32, satisfies
    Serialize + DeserializeOwned in a generated harness crate that is only type-checked."""
    import shutil
    from . import witness
    res = RuleResult("R-C19-witness", "every serialisable type, instantiated at f64 and f32, is Serialize + DeserializeOwned (harness crate type-checked, never run)")
    F = ctx.facts("serde")
    if F is None:
        return res.finish(0)
    impls = ser_impls(F)
    adts = {(c.name, a["path"]): a for c in F.crates.values() for a in c.adts}
    exported = {}
    for (crate, path), d in sorted(impls.items()):
        if "ser" not in d:
            continue
        c = F.crates[crate]
        a = adts.get((crate, path))
        pub = c.exports.get(path)
        if a is None or a["vis"] != "pub" or pub is None:
            res.info.append("not nameable from outside its crate (skipped in the witness): %s::%s" % (crate, path))
            continue
        exported[(crate, path)] = ("%s::%s" % (crate, pub), a, d["ser"])
    d, items = witness.generate(F, ctx.repo, exported)
    try:
        rc, err = witness.check(d)
        lines = open(d + "/src/lib.rs").read().splitlines()
        failed = {}
        generic_err = []
        for l in err.splitlines():
            m = re.match(r"^src/lib\.rs:(\d+):\d+: error(\[E\d+\])?: (.*)$", l)
            if m:
                ln = int(m.group(1))
                failed.setdefault(ln, []).append((m.group(2) or "", m.group(3)))
            elif l.startswith("error") and "could not compile" not in l and "aborting" not in l:
                generic_err.append(l)
        idx = 0
        for ty, key, problem in items:
            if ty is None:
                res.instance("%s : %s" % (key, problem))
                res.undecided("%s : cannot-instantiate" % key, "witness generator has no instantiation for %s (%s): extend BOUND_MAP (fail closed)" % (key, problem))
                continue
            idx += 1
            ln = next((i + 1 for i, s in enumerate(lines) if s.startswith("pub fn w%d()" % idx)), None)
            res.instance("%s as %s" % (key, ty))
            if ln in failed:
                code, msg = failed[ln][0]
                res.violate("%s : not-serialisable" % key, "`%s: Serialize + DeserializeOwned` does not hold: %s %s" % (ty, code, msg[:200]))
            else:
                res.ok()
                res.sample({"type": ty})
        if rc != 0 and not failed:
            # a compiler diagnostic in a workspace file is positive evidence; anything else (cargo could not lock, ran out
            # of disk or memory, was killed) says nothing about the property
            diag = [l for l in err.splitlines() if re.match(r"^\S+\.rs:\d+:\d+: error(\[E\d+\])?:", l)]
            if diag:
                res.violate("witness-crate-does-not-build", "harness crate failed to type-check: %s" % "; ".join(diag[:3]))
            else:
                res.undecided("witness-crate-not-checked", "the harness crate could not be type-checked and the compiler reported no diagnostic (infrastructure failure?): %s" % "; ".join((generic_err or err.splitlines()[-3:])[:3]))
    finally:
        shutil.rmtree(d, ignore_errors=True)
    # de-duplicate violations per key (f32 and f64 instantiations fail alike)
    seen, uniq = set(), []
    for v in res.violations:
        if v.key not in seen:
            seen.add(v.key)
            uniq.append(v)
    res.violations = uniq
    return res.finish(100)


def rule_guard(ctx):
    """The one deliberately non-restored field (the tokenizer function pointer) is protected by a serialised
    guard flag: every public entry of a fitted vectoriser that can reach the tokenizer checks the guard first."""
    from .sym import Tracer, as_term
    res = RuleResult("R-C19-guard", "every public entry of a restored vectoriser that reaches the (non-serialisable) tokenizer function validates the deserialisation guard first")
    F = ctx.facts("serde")
    if F is None:
        return res.finish(0)
    fns = [f for f in F.all_fns() if f["d"]["krate"] == "linfa_preprocessing"]
    by_raw = {f["d"].get("raw"): f for f in fns}

    def callees(f):
        c = f["crate"]
        out = set()
        for n in walk(f["body"]):
            d = None
            if n.get("k") == "MethodCall":
                d = c.dfn(n.get("def"))
            elif n.get("k") == "Path" and "def" in n:
                d = c.dfn(n["def"])
            if d is not None and d["krate"] == "linfa_preprocessing":
                out.add(d.get("raw"))
        return out
    uses_tok = set()
    for f in fns:
        for n in walk(f["body"]):
            if n.get("k") == "MethodCall" and n["name"] == "tokenizer_function":
                recv = peel_refs(n["recv"])
                if recv.get("k") == "Field" and recv["name"] == "properties":
                    uses_tok.add(f["d"].get("raw"))
    reach = set(uses_tok)
    changed = True
    while changed:
        changed = False
        for f in fns:
            r = f["d"].get("raw")
            if r not in reach and callees(f) & reach:
                reach.add(r)
                changed = True
    n = 0
    for f in fns:
        d = f["d"]
        st = (d.get("self_adt") or "").split("::")[-1]
        if st not in ("CountVectorizer", "FittedTfIdfVectorizer") or f["vis"] != "pub" or d.get("raw") not in reach:
            continue
        if d["name"] in ("force_tokenizer_function_redefinition", "force_tokenizer_redefinition"):
            continue
        n += 1
        key = fn_key(f)
        res.instance(key)
        tr = Tracer(f).run()
        calls = [e for e in tr.events if e.kind == "call" and e.name not in ("branch", "from_residual")]
        tries = [e for e in tr.events if e.kind == "try" and as_term(e.val) is not None and as_term(e.val).is_call("validate_deserialization")]
        from .c04 import dominated
        if calls and calls[0].name == "validate_deserialization" and tries:
            res.ok()
            res.sample({"entry": key, "first": "validate_deserialization()?"})
        elif calls and calls[0].name == "validate_deserialization" and dominated(tr, calls[0])[0]:
            # the same thing written out: map / and_then on the guard's result, or the work in the Ok arm of a match on it
            res.ok()
            res.sample({"entry": key, "first": "validate_deserialization(), " + dominated(tr, calls[0])[1]})
        else:
            res.violate("%s : tokenizer-guard-not-checked" % key, "the restored vectoriser's tokenizer can be reached without `validate_deserialization()?` first: a deserialised model with a custom tokenizer silently falls back to the regex tokenizer", fn_loc(f))
    # the guard is only worth something if it is raised whenever a function tokenizer is configured
    n_set = 0
    for f in fns:
        if not any(x.get("k") == "Assign" and strip(x["l"]).get("k") == "Field" and strip(x["l"])["name"] == "tokenizer_function" for x in walk(f["body"])):
            continue
        tr = Tracer(f).run()
        evs = [e for e in tr.events if e.kind == "assign" and e.lhs_node.get("k") == "Field"]
        for e in evs:
            if e.lhs_node["name"] != "tokenizer_function":
                continue
            v = as_term(e.val)
            if v is None or not v.is_call("Some"):
                continue
            n_set += 1
            key = fn_key(f)
            res.instance("%s : tokenizer function installed" % key)
            eg = set((g[0], g[1]) for g in e.guards)
            same_path = [x for x in evs if x.lhs_node["name"] == "tokenizer_deserialization_guard" and set((g[0], g[1]) for g in x.guards) <= eg]
            last = max(same_path, key=lambda x: x.order) if same_path else None
            lv = as_term(last.val) if last is not None else None
            if lv is not None and lv.op == "lit:true":
                res.ok()
                res.sample({"setter": key, "guard": "tokenizer_deserialization_guard = true on the same path"})
            else:
                res.violate("%s : function-without-guard" % key, "a tokenizer function is installed but `tokenizer_deserialization_guard` is %s on that path: after a round trip the function is gone, the guard does not fire and the default regex is used silently" % ("left `%s`" % (lv.name if lv is not None else "?") if last is not None else "never set"), fn_loc(f, e.node["ln"]))
    if n_set == 0:
        res.missing_anchor("the setter that installs Tokenizer::Function in CountVectorizerParams")
    # ... and lowered only together with the function: a lowered guard next to a function that stays installed makes the
    # fitted vectoriser use the function now and the regex after a round trip, silently
    n_low = 0
    for f in fns:
        if not any(x.get("k") == "Assign" and strip(x["l"]).get("k") == "Field" and strip(x["l"])["name"] == "tokenizer_deserialization_guard" for x in walk(f["body"])):
            continue
        tr = Tracer(f).run()
        evs = [e for e in tr.events if e.kind == "assign" and e.lhs_node.get("k") == "Field"]
        for e in evs:
            v = as_term(e.val)
            if e.lhs_node["name"] != "tokenizer_deserialization_guard" or v is None or v.op != "lit:false":
                continue
            n_low += 1
            key = fn_key(f)
            res.instance("%s : guard lowered" % key)
            eg = set((g[0], g[1]) for g in e.guards)
            same_path = [x for x in evs if x.lhs_node["name"] == "tokenizer_function" and set((g[0], g[1]) for g in x.guards) <= eg]
            last = max(same_path, key=lambda x: x.order) if same_path else None
            lv = as_term(last.val) if last is not None else None
            if lv is not None and lv.op.endswith("None") and not lv.args:
                res.ok()
            else:
                res.violate("%s : guard-lowered-function-kept" % key, "`tokenizer_deserialization_guard` is set to false while a previously installed tokenizer function stays in place: the vectoriser uses the function now and, after a round trip, the regex - without any error", fn_loc(f, e.node["ln"]))
    if n_low == 0:
        res.missing_anchor("the setter that lowers the guard for Tokenizer::Regex")
    # ... and restored *parameters* whose function is gone are rejected by validation (fit then returns that error)
    chk = [f for f in fns if f["d"]["name"] == "check_ref" and (f["d"].get("self_adt") or "").endswith("CountVectorizerParams")]
    if not chk:
        res.missing_anchor("<CountVectorizerParams as ParamGuard>::check_ref")
    for f in chk:
        key = fn_key(f)
        res.instance("%s : rejects restored parameters without their tokenizer function" % key)
        tr = Tracer(f, inline=ctx.inliner(cfg="serde")).run()
        errs = [e for e in tr.events if e.kind == "call" and e.name == "Err" and e.args and as_term(e.args[0]) is not None and as_term(e.args[0]).op.endswith("TokenizerNotSet")]
        if any(any("tokenizer_deserialization_guard" in g[1] for g in e.guards) and any("tokenizer_function" in g[1] for g in e.guards) for e in errs):
            res.ok()
        else:
            res.violate("%s : restored-params-not-rejected" % key, "a parameter set restored without its tokenizer function (guard raised, function None) passes validation and refits with the default regex instead of returning TokenizerNotSet", fn_loc(f))
    # ... the *checked* parameter set is serialisable too, and its fit methods are public: a restored
    # CountVectorizerValidParams never passes through check_ref again, so every public method of it that tokenises has
    # to look at the guard itself
    uses2 = set()
    for f in fns:
        if not (f["d"].get("self_adt") or "").endswith("CountVectorizerValidParams"):
            continue
        only_tested = set(id(peel_refs(y["recv"])) for y in walk(f["body"]) if y.get("k") == "MethodCall" and y["name"] in ("is_none", "is_some"))
        for n_ in walk(f["body"]):
            if n_.get("k") == "MethodCall" and n_["name"] == "tokenizer_function" and peel_refs(n_["recv"]).get("name") == "self" and id(n_) not in only_tested:
                uses2.add(f["d"].get("raw"))
            if n_.get("k") == "Field" and n_["name"] == "tokenizer_function" and peel_refs(n_["e"]).get("name") == "self" and f["d"]["name"] not in ("tokenizer_function", "clone", "eq", "fmt"):
                uses2.add(f["d"].get("raw"))
    uses2 = set(r_ for r_ in uses2 if by_raw.get(r_) is not None and by_raw[r_]["d"]["name"] != "tokenizer_function")
    reach2 = set(uses2)
    changed = True
    while changed:
        changed = False
        for f in fns:
            r_ = f["d"].get("raw")
            if r_ not in reach2 and (f["d"].get("self_adt") or "").endswith("CountVectorizerValidParams") and callees(f) & reach2:
                reach2.add(r_)
                changed = True
    n_vp = 0
    for f in fns:
        d = f["d"]
        if not (d.get("self_adt") or "").endswith("CountVectorizerValidParams") or f["vis"] != "pub" or d.get("trait") or d.get("raw") not in reach2 or f.get("exp"):
            continue
        n_vp += 1
        key = fn_key(f)
        res.instance("%s : restored checked parameters without their tokenizer function are rejected" % key)
        tok_names = set(by_raw[r_]["d"]["name"] for r_ in reach2 if by_raw.get(r_) is not None)
        tr = Tracer(f, inline=ctx.inliner(keep=tuple(sorted(tok_names)), cfg="serde")).run()
        errs = [e for e in tr.events if e.kind == "call" and e.name == "Err" and e.args and as_term(e.args[0]) is not None and as_term(e.args[0]).op.endswith("TokenizerNotSet")
                and any("tokenizer_deserialization_guard" in g[1] for g in e.guards) and any("tokenizer_function" in g[1] for g in e.guards)]
        toks = [e for e in tr.events if e.kind == "call" and e.name in tok_names and e.name != d["name"]]
        tested_ids = set(id(peel_refs(y["recv"])) for g_ in fns for y in walk(g_["body"]) if y.get("k") == "MethodCall" and y["name"] in ("is_none", "is_some"))
        direct = [e for e in tr.events if e.kind == "call" and e.name == "tokenizer_function" and id(e.node) not in tested_ids]
        first_tok = min([e.order for e in toks + direct] or [None]) if (toks or direct) else None
        if errs and (first_tok is None or min(e.order for e in errs) < first_tok):
            res.ok()
        else:
            res.violate("%s : restored-valid-params-not-rejected" % key, "`%s` tokenises without looking at `tokenizer_deserialization_guard`: a checked parameter set restored without its tokenizer function (guard raised, function None) refits silently with the default regex and learns another vocabulary" % d["name"], fn_loc(f))
    if n_vp < 2:
        res.missing_anchor("the public tokenising methods of CountVectorizerValidParams (fit, fit_files; found %d)" % n_vp)
    return res.finish(8)


def _inliner_takes_cfg(ctx):
    import inspect
    try:
        return "cfg" in inspect.signature(ctx.inliner).parameters
    except (TypeError, ValueError):
        return False


def rule_regex(ctx):
    """serde_regex serialises `Regex::as_str()` and recompiles it with `Regex::new`: the round trip is exact only for
    expressions that are determined by their text.  Options set through `RegexBuilder` (case_insensitive, multi_line,
    dot_matches_new_line, swap_greed, ignore_whitespace, unicode, ...) are not part of the text and are lost."""
    res = RuleResult("R-C19-regex", "every compiled regex that can reach a serialised field is determined by its pattern text: no RegexBuilder option is set in crates with a serde_regex field")
    F = ctx.facts("serde")
    if F is None:
        return res.finish(0)
    crates = set()
    for c in F.crates.values():
        for a in c.adts:
            for v in a["variants"]:
                for f in v["fields"]:
                    if "serde_regex" in (f.get("ty") or "") or "regex::Regex" in (f.get("ty") or ""):
                        crates.add(c.name)
    if not crates:
        res.missing_anchor("a field of type serde_regex::Serde<Regex>")
        return res.finish(1)
    n_new = 0
    for fn in F.all_fns():
        if fn["d"]["krate"] not in crates:
            continue
        c = fn["crate"]
        for n in walk(fn["body"]):
            d = None
            if n.get("k") == "Call":
                f = strip(n["f"])
                d = c.dfn(f.get("def")) if f.get("k") == "Path" else None
            elif n.get("k") == "MethodCall":
                d = c.dfn(n.get("def"))
            if not d or d.get("krate") != "regex":
                continue
            path = d.get("path") or ""
            if "RegexBuilder" in path or "RegexSetBuilder" in path:
                if d["name"] in ("new", "build"):
                    n_new += 1 if d["name"] == "build" else 0
                    continue
                res.instance("%s : RegexBuilder::%s" % (fn_key(fn), d["name"]))
                res.violate("%s : regex-option:%s" % (fn_key(fn), d["name"]), "`RegexBuilder::%s` sets an option that is not part of the pattern text; the serialised form is `Regex::as_str()` recompiled with `Regex::new`, so the restored expression matches differently from the one that was fitted with" % d["name"], fn_loc(fn, n["ln"]))
            elif d["name"] == "new" and path.endswith("Regex::new"):
                n_new += 1
    res.instance("crates with a serialised regex: %s; %d Regex::new(text) constructions" % (sorted(crates), n_new))
    if n_new:
        res.ok()
    else:
        res.undecided("regex-constructor", "no Regex::new construction found in %s (the rule would pass vacuously)" % sorted(crates), "algorithms/linfa-preprocessing/src/countgrams/hyperparams.rs")
    return res.finish(1)


def make_regex_text_rule(rid, cfg):
    """The expression handed to `Regex::new` is the user's expression itself.  What is validated (check / check_ref
    report an invalid expression) and what is serialised (`as_str()` of the compiled regex) is then the text the user
    configured; wrapped in a `format!` (a non-capturing group, a flag prefix) the compiled expression is another one -
    expressions that are invalid on their own can become valid, and the two cfg twins of the constructor can drift
    apart."""
    def rule(ctx):
        res = RuleResult(rid, "the split expression is compiled as given: the argument of Regex::new / RegexBuilder::new in linfa-preprocessing is the configured text, not a rewritten one (%s configuration)" % cfg)
        F = ctx.facts(cfg)
        if F is None:
            return res.finish(0)
        n = 0
        for fn in F.all_fns():
            if fn["d"]["krate"] != "linfa_preprocessing" or fn.get("exp"):
                continue
            c = fn["crate"]
            for y in walk(fn["body"]):
                if y.get("k") != "Call" or strip(y["f"]).get("k") != "Path" or not y["args"]:
                    continue
                d = c.dfn(strip(y["f"]).get("def")) or {}
                if d.get("krate") != "regex" or d.get("name") != "new" or not ((d.get("path") or "").endswith("Regex::new") or "RegexBuilder" in (d.get("path") or "")):
                    continue
                n += 1
                key = fn_key(fn)
                res.instance("%s : %s" % (key, (d.get("path") or "").split("::", 1)[-1]))
                a = peel_refs(y["args"][0])
                while a.get("k") == "MethodCall" and a["name"] in ("as_str", "as_ref", "to_string", "clone", "deref", "borrow", "to_owned", "as_deref"):
                    a = peel_refs(a["recv"])
                if a.get("k") in ("Path", "Field") or (a.get("k") == "Lit"):
                    res.ok()
                else:
                    what = "a `format!`-built string" if any((c.dfn(strip(z["f"]).get("def")) or {}).get("name") in ("format", "must_use", "new_v1", "new_const", "new_v1_formatted") for z in walk(a) if z.get("k") == "Call" and strip(z["f"]).get("k") == "Path") else "a rewritten expression"
                    res.violate("%s : expression-rewritten-before-compilation" % key, "the regex is compiled from %s, not from the configured text itself: the expression that is validated, used and serialised is not the one the user set" % what, fn_loc(fn, y["ln"]))
        if n < 1:
            res.missing_anchor("Regex::new in linfa-preprocessing (%s configuration)" % cfg)
        return res.finish(1)
    rule.__name__ = "rule_regex_text_" + cfg
    return rule


def rule_borrowed(ctx):
    """A hand-written Deserialize impl that reads `&'de str` (or `&'de [u8]`) can only be fed by a deserializer that hands
    out slices of its *input*: from a reader (`from_reader`, `deserialize_from`) or from JSON text that needs unescaping
    there is no such slice, and deserialisation fails with "invalid type: string .., expected a borrowed string" - for the
    very value that was serialised a moment ago."""
    res = RuleResult("R-C19-borrowed", "no hand-written Deserialize impl of the workspace reads a borrowed `&str` / `&[u8]` (restoring from a reader or from escaped text would fail)")
    F = ctx.facts("serde")
    if F is None:
        return res.finish(0)
    n = 0
    for fn in F.all_fns():
        d = fn["d"]
        if fn.get("exp") or "tests" in d["path"]:
            continue
        tr = (d.get("trait") or "").split("<")[0].split("::")[-1]
        if not ((d["name"] == "deserialize" and tr in ("Deserialize", "DeserializeSeed")) or (d["name"].startswith("visit_") and tr == "Visitor") or d["name"].startswith("deserialize")):
            continue
        c = fn["crate"]
        n += 1
        key = fn_key(fn)
        res.instance(key)
        bad = None
        for y in walk(fn["body"]):
            if y.get("k") in ("Call", "MethodCall"):
                nm, dd = callee_name(c, y)
                t = c.ty(y.get("t")) or ""
                if nm == "deserialize" and re.match(r"^(std|core)::result::Result<&('\w+ )?(str|\[u8\])\b", t):
                    bad = (y, t)
        if bad:
            res.violate("%s : reads-borrowed-str" % key, "`%s` deserialises a `%s`: only a deserializer holding the input as one borrowed buffer without escapes can provide it; `from_reader` / `deserialize_from` and JSON text with escapes fail" % (Render(c).e(bad[0])[:50], bad[1].split("Result<")[1].split(",")[0]), fn_loc(fn, bad[0].get("ln")))
        else:
            res.ok()
    res.info.append("%d hand-written deserialisation functions" % n)
    return res.finish(0)


def rules(tier):
    from . import carry, c04, serlayout, storederr
    return [rule_build, rule_both, rule_struct, rule_types, rule_guard, rule_witness, rule_regex, make_regex_text_rule("R-C19-regextext", "serde"),
            serlayout.make_rule("R-C19-layout", 40), rule_borrowed, storederr.make_rule("R-C19-storederr", 2),
            carry.make_clone_rule("R-C19-clone", c04.ALL_CRATES, 40),
            carry.make_accessor_rule("R-C19-accessor", c04.ALL_CRATES, 80)]
