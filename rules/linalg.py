"""E-L: non-commutative normal form for array expressions built from `dot`, `+`, `-`, `t()` and scalar literals.

A value is a sum of terms, each a rational coefficient times an ordered chain of atoms (parameters or `self` fields),
every atom possibly transposed. `dot` distributes over `+`; `t()` reverses a chain and flips the flags. Atoms whose type
is one-dimensional are vectors: `A . v == v . A^T`, so everything to the left of a vector is moved to its right (reversed,
transposed) - the chain then starts with the vector and its own transpose flag is dropped. Two expressions are the same
affine map iff their normal forms are equal (up to the algebra's axioms; no numeric evaluation takes place).
Anything outside this vocabulary raises Unclassified, and the calling rule fails closed.
"""
from fractions import Fraction

from .facts import strip, pat_bindings

TRANSPARENT = {"view", "to_owned", "clone", "into_owned", "reborrow", "borrow", "as_ref", "to_shared", "into", "unwrap", "view_mut", "mean"}


class Unclassified(Exception):
    def __init__(self, msg, ln=None):
        Exception.__init__(self, msg)
        self.msg, self.ln = msg, ln


class NF:
    """dict: chain (tuple of (atom, transposed)) -> Fraction"""

    def __init__(self, terms=None):
        self.t = {kk: v for kk, v in (terms or {}).items() if v != 0}

    @staticmethod
    def atom(name):
        return NF({((name, False),): Fraction(1)})

    @staticmethod
    def const(c):
        return NF({(): Fraction(c)})

    def __add__(self, o):
        d = dict(self.t)
        for kk, v in o.t.items():
            d[kk] = d.get(kk, 0) + v
        return NF(d)

    def __neg__(self):
        return NF({kk: -v for kk, v in self.t.items()})

    def __sub__(self, o):
        return self + (-o)

    def scale(self, c):
        return NF({kk: v * c for kk, v in self.t.items()})

    def dot(self, o, vectors):
        d = {}
        for a, va in self.t.items():
            for b, vb in o.t.items():
                ch = canon(a + b, vectors)
                d[ch] = d.get(ch, 0) + va * vb
        return NF(d)

    def transpose(self, vectors):
        return NF({canon(tuple((n, not f) for n, f in reversed(kk)), vectors): v for kk, v in self.t.items()})

    def subst(self, name, nf, vectors):
        """replace every occurrence of atom `name` by the normal form nf"""
        out = NF()
        for ch, v in self.t.items():
            acc = NF.const(1)
            for n, f in ch:
                piece = nf if n == name else NF({((n, f),): Fraction(1)})
                if n == name and f:
                    piece = nf.transpose(vectors)
                acc = acc.dot(piece, vectors)
            out = out + acc.scale(v)
        return out

    def __eq__(self, o):
        return isinstance(o, NF) and self.t == o.t

    def show(self):
        if not self.t:
            return "0"
        parts = []
        for ch, v in sorted(self.t.items(), key=lambda z: (len(z[0]), str(z[0]))):
            body = ".".join(n + ("^T" if f else "") for n, f in ch) or "1"
            sign = "-" if v < 0 else "+"
            mag = abs(v)
            parts.append("%s %s%s" % (sign, "" if mag == 1 else "%s*" % mag, body))
        s = " ".join(parts)
        return s[2:] if s.startswith("+ ") else s


def canon(chain, vectors):
    """move everything left of a vector atom to its right (reversed and transposed); a vector has no transpose flag"""
    chain = list(chain)
    for i in range(len(chain) - 1, -1, -1):
        if chain[i][0] in vectors:
            left = [(n, not f) for n, f in reversed(chain[:i])]
            chain = [(chain[i][0], False)] + left + chain[i + 1:]
            break
    # a vector in first position: normalise its flag
    if chain and chain[0][0] in vectors:
        chain[0] = (chain[0][0], False)
    return tuple(chain)


class Eval:
    def __init__(self, fn):
        self.fn = fn
        self.c = fn["crate"]
        self.env = {}
        self.vectors = set()
        self.self_local = None
        self.out = {}          # name of &mut parameter -> NF assigned through `*p = ..`
        for p in fn["params"]:
            for b in pat_bindings(p):
                if b["name"] == "self":
                    self.self_local = b["local"]
                else:
                    self.env[b["local"]] = NF.atom(b["name"])
        self.param_names = {b["local"]: b["name"] for p in fn["params"] for b in pat_bindings(p)}

    def is_vector_ty(self, n):
        t = self.c.ty(n.get("t")) or ""
        return "Dim<[usize; 1]>" in t

    def run(self):
        return self.block(self.fn["body"])

    def block(self, n):
        n = strip(n)
        if n.get("k") != "Block":
            return self.ev(n)
        for s_ in n["stmts"]:
            s2 = strip(s_)
            kk = s2.get("k")
            if kk == "LetStmt" and s2.get("init") is not None and s2["pat"].get("k") == "Bind":
                self.env[s2["pat"]["local"]] = self.ev(s2["init"])
            elif kk == "Assign":
                tgt = strip(s2["l"])
                if tgt.get("k") == "Unary" and tgt["op"] == "*" and strip(tgt["e"]).get("local") in self.param_names:
                    self.out[self.param_names[strip(tgt["e"])["local"]]] = self.ev(s2["r"])
                elif tgt.get("k") == "Path" and "local" in tgt:
                    self.env[tgt["local"]] = self.ev(s2["r"])
                else:
                    raise Unclassified("assignment to a place that is not a local or an output parameter", s2.get("ln"))
            elif kk in ("MacCall",):
                continue
            elif kk in ("Match", "If", "Call", "MethodCall"):
                # assertions (assert_eq! expands to match/if + panic) do not change values
                if self.is_assertion(s2):
                    continue
                raise Unclassified("statement of kind %s" % kk, s2.get("ln"))
            else:
                raise Unclassified("statement of kind %s" % kk, s2.get("ln"))
        if n.get("e") is None:
            return None
        return self.ev(n["e"])

    def is_assertion(self, n):
        from .facts import walk
        for x in walk(n):
            if x.get("k") == "Call":
                f = strip(x["f"])
                d = self.c.dfn(f.get("def")) if f.get("k") == "Path" else None
                if d and ("panic" in d["path"] or "assert_failed" in d["path"]):
                    return True
        return False

    def ev(self, n):
        n = strip(n)
        kk = n.get("k")
        if kk in ("Ref", "Cast"):
            return self.ev(n["e"])
        if kk == "Unary":
            if n["op"] == "*":
                return self.ev(n["e"])
            if n["op"] == "-":
                return -self.ev(n["e"])
            raise Unclassified("unary %s" % n["op"], n.get("ln"))
        if kk == "Block":
            return self.block(n)
        if kk == "Path":
            if "local" in n and n["local"] in self.env:
                return self.env[n["local"]]
            raise Unclassified("value `%s` is not a parameter, field or let-bound expression" % n.get("name"), n.get("ln"))
        if kk == "Field":
            b = strip(n["e"])
            if b.get("k") == "Path" and b.get("local") == self.self_local:
                nm = "self." + n["name"]
                if self.is_vector_ty(n):
                    self.vectors.add(nm)
                return NF.atom(nm)
            raise Unclassified("field of a value other than self", n.get("ln"))
        if kk == "Lit":
            try:
                import re
                return NF.const(Fraction(re.sub(r"(_?[fiu](32|64|size))$", "", n["v"]).replace("_", "")))
            except (ValueError, ZeroDivisionError):
                raise Unclassified("literal %s" % n.get("v"), n.get("ln"))
        if kk == "Binary":
            op = n["op"]
            if op == "+":
                return self.ev(n["l"]) + self.ev(n["r"])
            if op == "-":
                return self.ev(n["l"]) - self.ev(n["r"])
            if op == "*":
                a, b = self.ev(n["l"]), self.ev(n["r"])
                for x, y in ((a, b), (b, a)):
                    if set(x.t) <= {()}:
                        return y.scale(x.t.get((), Fraction(0)))
                raise Unclassified("element-wise product of two array expressions", n.get("ln"))
            raise Unclassified("operator %s" % op, n.get("ln"))
        if kk == "MethodCall":
            nm = n["name"]
            if nm in TRANSPARENT and not n["args"]:
                return self.ev(n["recv"])
            if nm in ("t", "reversed_axes") and not n["args"]:
                return self.ev(n["recv"]).transpose(self.vectors)
            if nm == "dot" and len(n["args"]) == 1:
                a, b = self.ev(n["recv"]), self.ev(n["args"][0])
                return a.dot(b, self.vectors)
            if nm in ("add", "sub") and len(n["args"]) == 1:
                a, b = self.ev(n["recv"]), self.ev(n["args"][0])
                return a + b if nm == "add" else a - b
            getter = self.getter_field(n)
            if getter:
                if self.is_vector_ty(n):
                    self.vectors.add(getter)
                return NF.atom(getter)
            raise Unclassified("method `%s` is outside the dot/+/-/t vocabulary" % nm, n.get("ln"))
        raise Unclassified("expression kind %s" % kk, n.get("ln"))

    def getter_field(self, n):
        """self.mean() / self.components() style accessors resolved by name to the field they return (checked by the caller's table)"""
        recv = strip(n["recv"])
        while recv.get("k") == "Ref":
            recv = strip(recv["e"])
        if recv.get("k") == "Path" and recv.get("local") == self.self_local and not n["args"]:
            return None
        return None
