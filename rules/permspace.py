"""Results computed in the order of a permutation are put back through that permutation - once.

`for &i in order.iter() { ..; buf.push(f(x[i])) }` leaves `buf` in *sorted position* space: `buf[t]` belongs to row
`order[t]`.  Going back to row order is a scatter (`y[order[t]] = buf[t]`) or a gather through the inverse.  Reading
`buf[k]` with `k` a *value* of `order` applies the permutation a second time: `y[t] = buf[order[t]]` is the result of
row `order[order[t]]` - right exactly when the permutation is an involution (already sorted input, reversed input, a
swap of two rows: what small tests look like).

Positive evidence asked for: a buffer filled by `push` inside a loop over the elements of a local permutation `P`
(and never indexed there), and an `Index` on that buffer whose index is a loop / closure variable bound to the elements
of the same `P` (directly, or through `zip`)."""
from .core import RuleResult
from .facts import fn_key, fn_loc, walk, strip, peel_refs, pat_bindings, Render


def _iter_base(it):
    """(local id of the collection iterated by value/reference, adaptor names) for `p.iter()`, `&p`, `p.iter().copied()`, .."""
    cur = strip(it)
    while cur.get("k") == "Call" and len(cur["args"]) == 1:      # IntoIterator::into_iter(..)
        cur = strip(cur["args"][0])
    chain = []
    while cur.get("k") == "MethodCall":
        chain.append(cur["name"])
        cur = strip(cur["recv"])
    cur = peel_refs(cur)
    if cur.get("k") == "Path" and "local" in cur:
        return cur["local"], chain
    return None, chain


def make_rule(rid, select, what):
    def rule(ctx):
        from .c17 import for_loops
        res = RuleResult(rid, "a buffer filled in the order of a permutation is not read back through the same permutation's values in %s" % what)
        F = ctx.facts()
        n_fns = n_bufs = 0
        for fn in F.all_fns():
            if not select(fn) or fn.get("exp") or "tests" in fn["d"]["path"]:
                continue
            n_fns += 1
            c = fn["crate"]
            r = Render(c)
            key = fn_key(fn)
            loops = list(for_loops(fn["body"]))
            filled = {}     # buffer local -> permutation local
            for it, pat, body, node in loops:
                base, chain = _iter_base(it)
                if base is None or any(nm in chain for nm in ("enumerate", "zip", "rev", "map", "filter", "skip", "chain", "windows", "chunks")):
                    continue
                for y in walk(body):
                    if y.get("k") == "MethodCall" and y["name"] == "push" and peel_refs(y["recv"]).get("k") == "Path" and "local" in peel_refs(y["recv"]):
                        b = peel_refs(y["recv"])["local"]
                        if not any(z.get("k") == "Index" and peel_refs(z["e"]).get("local") == b for z in walk(body)):
                            filled[b] = (base, peel_refs(y["recv"]).get("name"))
            inits = {}
            for y in walk(fn["body"]):
                if y.get("k") == "LetStmt" and y.get("init") is not None and y["pat"].get("k") == "Bind":
                    inits[y["pat"]["local"]] = y["init"]

            def is_permutation(loc):
                # an index order: the result of an argsort, or a sequence of indices sorted by a key in this function
                init = inits.get(loc)
                if init is not None:
                    for z in walk(init):
                        nm = z.get("name") if z.get("k") == "MethodCall" else (c.dfn(strip(z["f"]).get("def")) or {}).get("name") if z.get("k") == "Call" and strip(z["f"]).get("k") == "Path" else None
                        if nm and ("argsort" in nm or "sort_ind" in nm or "sorted_ind" in nm or "permutation" in nm):
                            return True
                for z in walk(fn["body"]):
                    if z.get("k") == "MethodCall" and z["name"] in ("sort_by", "sort_unstable_by", "sort_by_key", "sort_unstable_by_key", "sort_by_cached_key", "shuffle") and peel_refs(z["recv"]).get("local") == loc:
                        return True
                return False
            for b, (perm, bname) in filled.items():
                if not is_permutation(perm):
                    continue
                n_bufs += 1
                res.instance("%s : `%s` filled in the order of a local sequence" % (key, bname))
                # variables bound to the *elements* of perm
                elems = set()
                binders = [(it, pat) for it, pat, body, node in loops]
                for y in walk(fn["body"]):
                    if y.get("k") == "MethodCall" and y["name"] in ("for_each", "map", "filter_map", "flat_map") and y["args"] and strip(y["args"][0]).get("k") == "Closure" and strip(y["args"][0])["params"]:
                        binders.append((y["recv"], strip(y["args"][0])["params"][0]))
                for it, pat in binders:
                    cur = strip(it)
                    while cur.get("k") == "Call" and len(cur["args"]) == 1:
                        cur = strip(cur["args"][0])
                    p0 = pat
                    while p0.get("k") == "Ref":
                        p0 = p0["pat"]
                    if cur.get("k") == "MethodCall" and cur["name"] == "zip" and cur["args"] and p0.get("k") == "Tuple" and len(p0["pats"]) == 2:
                        lb, lch = _iter_base(cur["recv"])
                        rb, rch = _iter_base(cur["args"][0])
                        if lb == perm and not any(nm in lch for nm in ("enumerate", "map", "rev")):
                            elems |= {x["local"] for x in pat_bindings(p0["pats"][0])}
                        if rb == perm and not any(nm in rch for nm in ("enumerate", "map", "rev")):
                            elems |= {x["local"] for x in pat_bindings(p0["pats"][1])}
                    else:
                        base, chain = _iter_base(it)
                        if base == perm and not any(nm in chain for nm in ("enumerate", "zip", "map", "rev", "windows", "chunks")):
                            elems |= {x["local"] for x in pat_bindings(p0)}
                bad = None
                for y in walk(fn["body"]):
                    if y.get("k") == "Index" and peel_refs(y["e"]).get("local") == b:
                        ix = peel_refs(y["i"])
                        if ix.get("k") == "Path" and ix.get("local") in elems:
                            bad = y
                if bad is not None:
                    res.violate("%s : permuted-buffer-read-through-permutation:%s" % (key, bname), "`%s`: `%s` was filled in the order of the permutation, so its t-th entry belongs to the t-th element of that order; indexing it with an *element* of the order applies the permutation twice - right only when the permutation is its own inverse" % (r.e(bad)[:40], bname), fn_loc(fn, bad.get("ln")))
                else:
                    res.ok()
        res.instance("%d functions scanned, %d buffers filled in the order of a local sequence" % (n_fns, n_bufs))
        if n_fns:
            res.ok()
        else:
            res.missing_anchor("functions of %s" % what)
        return res.finish(1)
    rule.__name__ = "rule_" + rid.replace("-", "_")
    return rule
