"""Arrays that are stored in a serialisable value are in standard (row-major) layout.

ndarray's Deserialize builds every array in standard layout, whatever layout the serialised array had.  The elements are
the same, so the restored value compares equal - but everything that walks the array in memory order (sum_axis over
contiguous lanes, as_slice_memory_order, pairwise / unrolled floating-point sums) adds in another order, and "bit-identical
predictions after a round trip" is gone.  A round trip is layout-neutral only for arrays that already are in standard
layout; so no array with a layout known to be non-standard may be put into a field of a serialised type.

Known-non-standard values (positive evidence only): `stack` / `concatenate` along an axis > 0 of two- or more-dimensional
parts (ndarray makes the stacking axis the outermost one in memory), `reversed_axes()` / `permuted_axes(..)` of an owned
array, `.t().to_owned()` / `.t().into_owned()` (to_owned keeps the strides of a contiguous view), constructors with an
`.f()` shape - and the result of a workspace function that returns one of these."""
from .core import RuleResult
from .facts import fn_key, fn_loc, walk, strip, peel_refs, pat_bindings, Render

PASS = {"unwrap", "expect", "unwrap_or_default", "into_shared", "into_owned_if_needed"}


def _inits(fn):
    out = {}
    for y in walk(fn["body"]):
        if y.get("k") == "LetStmt" and y.get("init") is not None and y["pat"].get("k") == "Bind":
            out[y["pat"]["local"]] = y["init"]
    return out


def _fn_index(F):
    idx = {}
    for fn in F.all_fns():
        d = fn["d"]
        idx[(d["krate"], d["path"], d["name"])] = fn
    return idx


class Layouts:
    def __init__(self, F):
        self.F = F
        self.idx = _fn_index(F)
        self.memo = {}

    def callee(self, c, pathnode):
        d = c.dfn(pathnode.get("inst")) if pathnode.get("inst") is not None else None
        d = d or c.dfn(pathnode.get("def"))
        if not d:
            return None, None
        return d, self.idx.get((d.get("krate"), d.get("path"), d.get("name")))

    def of_fn(self, g, depth):
        key = id(g)
        if key in self.memo:
            return self.memo[key]
        self.memo[key] = None        # recursion guard
        inits = _inits(g)
        vals = []
        t = strip(g["body"])
        while t.get("k") == "Block" and t.get("e") is not None:
            t = strip(t["e"])
        vals.append(t)
        for y in walk(g["body"]):
            if y.get("k") == "Ret" and y.get("e") is not None:
                vals.append(y["e"])
        out = None
        for v in vals:
            r_ = self.of(g, v, inits, depth + 1)
            if r_ and r_[0] == "nonstd":
                out = r_
                break
        self.memo[key] = out
        return out

    def of(self, fn, e, inits, depth=0):
        """('nonstd', why, node) or None"""
        c = fn["crate"]
        r = Render(c)
        e = peel_refs(e)
        if depth > 6 or not isinstance(e, dict):
            return None
        k = e.get("k")
        if k == "Block" and e.get("e") is not None:
            return self.of(fn, e["e"], inits, depth + 1)
        if k == "Match" and e.get("src") == "TryDesugar":
            sc = strip(e["scrut"])
            return self.of(fn, sc["args"][0], inits, depth + 1) if sc.get("k") == "Call" and sc.get("args") else None
        if k == "Path" and e.get("local") in inits:
            return self.of(fn, inits[e["local"]], inits, depth + 1)
        if k == "MethodCall":
            nm = e["name"]
            if nm in PASS:
                return self.of(fn, e["recv"], inits, depth + 1)
            d = c.dfn(e.get("def")) or {}
            if d.get("krate") == "ndarray":
                if nm in ("reversed_axes", "permuted_axes") and "ViewRepr" not in (c.ty(e.get("t")) or ""):
                    return ("nonstd", "`.%s()` of an owned array" % nm, e)
                if nm in ("to_owned", "into_owned"):
                    rv = peel_refs(e["recv"])
                    if rv.get("k") == "MethodCall" and rv["name"] in ("t", "reversed_axes") and self._ndim(c, e) >= 2:
                        return ("nonstd", "`.%s().%s()` (the copy keeps the transposed strides)" % (rv["name"], nm), e)
            return None
        if k == "Call":
            f = strip(e["f"])
            if f.get("k") != "Path":
                return None
            d, g = self.callee(c, f)
            if not d:
                return None
            nm = d.get("name")
            if nm in ("Ok", "Some") and e["args"]:
                return self.of(fn, e["args"][0], inits, depth + 1)
            if d.get("krate") == "ndarray" and nm in ("stack", "concatenate") and len(e["args"]) == 2:
                ax = r.e(e["args"][0]).replace(" ", "")
                if "Axis(" in ax and not ax.endswith("Axis(0)") and self._ndim(c, e) >= 2:
                    return ("nonstd", "`%s(%s, ..)`: the %s axis is made the outermost one in memory" % (nm, ax.split("::")[-1], "new" if nm == "stack" else "concatenation"), e)
                return None
            if d.get("krate") == "ndarray" and any(z.get("k") == "MethodCall" and z["name"] == "f" and (c.dfn(z.get("def")) or {}).get("krate") == "ndarray" for a in e["args"] for z in walk(a)):
                return ("nonstd", "constructed with an `.f()` (column-major) shape", e)
            if g is not None and g is not fn:
                s = self.of_fn(g, depth + 1)
                if s:
                    return ("nonstd", "result of `%s`: %s" % (nm, s[1]), e)
            return None
        return None

    @staticmethod
    def _ndim(c, e):
        t = c.ty(e.get("t")) or ""
        for kk in range(2, 7):
            if "Dim<[usize; %d]>" % kk in t or "Ix%d" % kk in t:
                return kk
        return 1 if ("Dim<[usize; 1]>" in t or "Ix1" in t) else 2 if "ArrayBase" in t else 0


def make_rule(rid, floor):
    def rule(ctx):
        res = RuleResult(rid, "no array with a known non-standard memory layout is stored in a field of a serialisable type (deserialisation restores every array in standard layout; layout-dependent summation orders would differ after a round trip)")
        F = ctx.facts("serde")
        if F is None:
            return res.finish(0)
        from .c19 import ser_impls
        ser = set(a.split("::")[-1] for (cr, a), d in ser_impls(F).items() if "ser" in d)
        L = Layouts(F)
        n = 0
        for fn in F.all_fns():
            d = fn["d"]
            if fn.get("exp") or "tests" in d["path"] or d["krate"].startswith("linfa_datasets"):
                continue
            c = fn["crate"]
            inits = None
            for y in walk(fn["body"]):
                fields = []
                adt = None
                if y.get("k") == "Struct" and y.get("fields"):
                    p_ = (c.dfn(y.get("def")) or {}).get("path", "")
                    segs = p_.split("::")
                    adt = next((s_ for s_ in (segs[-1], segs[-2] if len(segs) > 1 else None) if s_ in ser), None)
                    fields = [(f_["name"], f_["e"]) for f_ in y["fields"]]
                elif y.get("k") == "Call" and strip(y["f"]).get("k") == "Path":
                    dd = c.dfn(strip(y["f"]).get("def")) or {}
                    if str(dd.get("kind", "")).startswith("Ctor"):
                        segs = (dd.get("path") or "").split("::")
                        adt = next((s_ for s_ in (segs[-1], segs[-2] if len(segs) > 1 else None) if s_ in ser), None)
                        fields = [(str(i), a) for i, a in enumerate(y["args"])]
                if not adt:
                    continue
                for fname, e in fields:
                    t = c.ty(peel_refs(e).get("t")) or ""
                    if "ArrayBase" not in t or "ViewRepr" in t:
                        continue
                    if inits is None:
                        inits = _inits(fn)
                    n += 1
                    inst = "%s : %s.%s" % (fn_key(fn), adt, fname)
                    res.instance(inst)
                    v = L.of(fn, e, inits)
                    if v:
                        res.violate("%s : serialised-array-not-in-standard-layout:%s.%s" % (fn_key(fn), adt, fname), "the array stored in `%s.%s` is %s; ndarray's Deserialize restores arrays in standard layout, so a restored value sums / walks this array in another order than the original" % (adt, fname, v[1]), fn_loc(fn, v[2].get("ln")))
                    else:
                        res.ok()
        if n < floor:
            res.missing_anchor("array-valued fields of serialisable types in constructors (found %d)" % n)
        return res.finish(floor)
    return rule
