"""C04 — invalid hyperparameters are rejected before any training (DESIGN.md section 4, C04)."""
import re
from fractions import Fraction

from .core import RuleResult
from .facts import fn_key, fn_loc, strip, peel_refs, pat_bindings, Render, walk
from .regions import Region, parse_spec, EPS
from .sym import Tracer, Term, k, as_term, walk_terms

LEVEL = ("Static analysis of all ParamGuard implementors: (range) the accepted region of every check_ref, computed from its "
         "typed-HIR guard structure with an interval-set algebra, equals the documented range table for every parameter; "
         "(same) check is check_ref followed by an unchanged projection of self; (dom) every fit/fit_with/transform entry "
         "point on an unchecked builder is dominated by the check and returns its error; (forge) checked parameter types "
         "have no public fields and no public constructor from caller-supplied values; defaults lie inside the accepted "
         "region. Decides the verdict for every parameter value and combination at once.")
ASSUME = ["rustc name/type resolution; HIR faithfully dumped", "the documented range table in rules/c04.py (frozen from the repository's own docs, one source reference per row)",
          "NaN/infinities are outside the claim (the property speaks of finite values)"]

INT_TYPES = {"usize", "u8", "u16", "u32", "u64", "u128", "isize", "i8", "i16", "i32", "i64", "i128"}

# builder -> {parameter path: accepted region}. Source of each row in the trailing comment.
TABLE = {
    "KMeansParams": {"n_clusters": ">=1", "n_runs": ">=1", "tolerance": ">0", "max_n_iterations": ">=1"},  # errors.rs #[error] strings
    "DbscanParams": {"min_points": ">=2", "tolerance": ">0"},  # "min_points must be greater than 1", "tolerance must be greater than 0"
    "OpticsParams": {"min_points": ">=2", "tolerance": ">0"},  # error strings in check_ref
    "GmmParams": {"n_clusters": ">=1", "tolerance": ">0", "reg_covar": ">=0", "n_runs": ">=1", "max_n_iter": ">=1"},  # error strings
    "ElasticNetParamsBase": {"penalty": ">=0", "l1_ratio": "[0,1]", "tolerance": ">0", "max_iterations": ">=1"},  # hyperparams.rs `| Range |` table
    "LogisticRegressionParams": {"alpha": ">=0", "gradient_tolerance": ">0"},  # error.rs: "must be a positive, finite number" (alpha = 0 is the documented no-penalty setting)
    "TweedieRegressorParams": {"alpha": ">=0", "power": "<=0 | >=1"},  # "penalty should be positive"; power doc: 0, 1, (1,2), 2, 3
    "SvmParams": {"solver_params.eps": ">=0", "c.Some.0.0": ">0", "c.Some.0.1": ">0", "nu.Some.0.0": "(0,1]", "nu.Some.0.1": ">0"},  # error.rs strings; the second component of `nu` is nu itself (classification) or the C of nu-SVR ("C value (default 1.)")
    "DecisionTreeParams": {"min_impurity_decrease": ">=eps"},  # "should be greater than zero"
    "GaussianNbParams": {"var_smoothing": ">=0"},  # hyperparams.rs `| Range |` table
    "MultinomialNbParams": {"alpha": ">=0"},  # hyperparams.rs `| Range |` table
    "FtrlParams": {"l1_ratio": "[0,1]", "l2_ratio": "[0,1]", "alpha": ">=0", "beta": ">=0"},  # setter docs
    "PlsParams": {"tolerance": ">=0", "max_iter": ">=1"},  # errors.rs
    "PlsRegressionParams": {"tolerance": ">=0", "max_iter": ">=1"},
    "PlsCanonicalParams": {"tolerance": ">=0", "max_iter": ">=1"},
    "PlsCcaParams": {"tolerance": ">=0", "max_iter": ">=1"},
    "TSneParams": {"perplexity": ">=0", "approx_threshold": ">=0"},  # error names NegativePerplexity / NegativeApproximationThreshold
    "FastIcaParams": {"tol": ">=0"},  # "tolerance should be positive"
    "DiffusionMapParams": {"steps": ">=1", "embedding_size": ">=1"},  # StepsZero / EmbeddingTooSmall
    "RandomProjectionParams": {"params.Dimension.target_dim": ">=1", "params.Epsilon.eps": "(0,1)"},  # error.rs strings
    "PlattParams": {"maxiter": ">=1", "minstep": ">0", "sigma": ">=0"},  # PlattError variants
    "HierarchicalCluster": {"stopping.NumClusters.0": ">=1", "stopping.Distance.0": ">=0"},
    "CountVectorizerParams": {"n_gram_range.0": ">=1", "n_gram_range.1": ">=1", "document_frequency.0": "[0,1]", "document_frequency.1": "[0,1]"},  # setter doc: "must lie in 0..=1"
}
# cross-field relations that must be rejected (canonical: path op path)
RELATIONS = {
    "CountVectorizerParams": {("n_gram_range.0", ">", "n_gram_range.1"), ("document_frequency.1", "<", "document_frequency.0")},
}
# opaque fallible sub-checks (`?` on a call over parameters) that must be present
OPAQUE = {
    "SvmParams": {"check_ref"},          # delegates to the Platt guard
    # SerdeRegex::new compiles the tokenizer regex; the two state atoms reject a parameter set that was restored
    # without its (unserialisable) tokenizer function - not a range of a hyperparameter value
    "CountVectorizerParams": {"new", "state:tokenizer_deserialization_guard", "state:tokenizer_function"},
}
# interior mutation inside check_ref, allow-listed by symbol with a reason
MUT_ALLOW = {
    "CountVectorizerParams": {"split_regex": "caches the compiled regex; not a hyperparameter value"},
}


class Unclassified(Exception):
    pass


LOSSY_CONVERSIONS = {"to_f32", "to_i8", "to_i16", "to_i32", "to_i64", "to_isize", "to_u8", "to_u16", "to_u32", "to_u64", "to_usize", "round", "floor", "ceil", "trunc"}


class Guard:
    """Evaluates, for one parameter path `f`, the region of values of f on which the body returns Err,
    all other parameters being fixed at a valid witness."""

    def __init__(self, fn, f, witness, f_integer):
        self.fn = fn
        self.c = fn["crate"]
        self.f = f
        self.w = witness  # path -> value
        self.integer = f_integer
        self.env = {}     # local id -> path
        self.err = Region.empty(f_integer)
        self.ok = Region.empty(f_integer)
        self.paths_seen = {}
        self.opaque = set()
        self.relations = set()
        self.full = Region.full(f_integer, unsigned=f_integer)
        self.depth = 0
        self.affine = {}         # local id -> (path, c): the local holds `path - c` (unsigned subtraction before the tests)
        self.panics = Region.empty(f_integer)   # values of f on which check_ref neither accepts nor rejects but overflows
        self.lossy_locals = {}   # local id -> conversion name: bound to a narrowed copy of a parameter
        self.lossy_tests = set()  # (path, conversion): a range test evaluated on a narrowed copy
        self.bool_locals = {}    # local id -> Region: a verdict bound to a local (`let is_valid = match .. { .. }`)
        self.lin_locals = {}     # local id -> (a, b, others): the local holds a * f + b, the other parameters at their witnesses
        self.coef_params = set()  # other parameters whose witness value entered a guard through arithmetic

    # ---- arithmetic over parameters: a * f + b with every other parameter at its witness value
    def lin_of(self, n, depth=0):
        n = peel_refs(n)
        if depth > 8:
            return None
        c_ = self.const_of(n)
        if c_ is not None:
            return (Fraction(0), c_, frozenset())
        if n["k"] == "Path" and n.get("local") in self.lin_locals:
            return self.lin_locals[n["local"]]
        p_ = self.path_of(n)
        if p_ is not None:
            if p_ == self.f:
                return (Fraction(1), Fraction(0), frozenset())
            v_ = self.w.get(p_)
            if v_ is None:
                return None
            return (Fraction(0), Fraction(v_), frozenset([p_]))
        if n["k"] == "Unary" and n["op"] == "-":
            x = self.lin_of(n["e"], depth + 1)
            return None if x is None else (-x[0], -x[1], x[2])
        if n["k"] == "Binary" and n["op"] in ("+", "-", "*", "/"):
            x, y = self.lin_of(n["l"], depth + 1), self.lin_of(n["r"], depth + 1)
            if x is None or y is None:
                return None
            oth = x[2] | y[2]
            if n["op"] == "+":
                return (x[0] + y[0], x[1] + y[1], oth)
            if n["op"] == "-":
                return (x[0] - y[0], x[1] - y[1], oth)
            if n["op"] == "*":
                if x[0] != 0 and y[0] != 0:
                    return None
                return (x[0] * y[1] + y[0] * x[1], x[1] * y[1], oth)
            if y[0] != 0 or y[1] == 0:
                return None
            return (x[0] / y[1], x[1] / y[1], oth)
        return None

    # ---- narrowing conversions: a range test must look at the parameter itself
    def lossy(self, n):
        """name of a narrowing conversion applied to the operand n on its way from the parameter field, or None.
        f64/F -> f32 and float -> integer lose values (1e-50 becomes 0, 1 + 1e-12 becomes 1): the test then accepts
        or rejects by the rounded copy."""
        n = strip(n)
        while isinstance(n, dict):
            kk = n.get("k")
            if kk in ("Ref",) or (kk == "Unary" and n["op"] == "*"):
                n = strip(n["e"])
                continue
            if kk == "Cast":
                tt = (self.c.ty(n.get("t")) or "").strip()
                st = (self.c.ty(strip(n["e"]).get("t")) or "").strip().lstrip("&")
                src_float = st in ("f64", "F", "f32") or len(st) == 1
                if (tt == "f32" and st != "f32" and src_float) or (tt in INT_TYPES and src_float):
                    return "as " + tt
                n = strip(n["e"])
                continue
            if kk == "MethodCall":
                if n["name"] in LOSSY_CONVERSIONS and not n["args"]:
                    st = (self.c.ty(peel_refs(n["recv"]).get("t")) or "").strip().lstrip("&")
                    if not (n["name"] == "to_f32" and st == "f32") and st not in INT_TYPES:
                        return n["name"]
                if not n["args"] and n["name"] in ("unwrap", "as_ref", "clone", "abs", "to_f64"):
                    n = strip(n["recv"])
                    continue
                return None
            if kk == "Call" and len(n["args"]) == 1:
                f = strip(n["f"])
                d = self.c.dfn(f.get("def")) if f["k"] == "Path" else None
                if d and d["name"] in LOSSY_CONVERSIONS:
                    return d["name"]
                return None
            if kk == "Path" and "local" in n:
                return self.lossy_locals.get(n["local"])
            return None
        return None

    def note_lossy(self, path, n):
        cv = self.lossy(n)
        if cv is not None and path is not None:
            self.lossy_tests.add((path, cv))

    # ---- paths
    def path_of(self, n):
        n = peel_refs(n)
        while n["k"] == "Unary" and n["op"] == "*":
            n = peel_refs(n["e"])
        if n["k"] == "Path" and "local" in n:
            if n["local"] in self.env:
                return self.env[n["local"]]
            if n["name"] == "self":
                return ""
            return None
        if n["k"] == "Field":
            b = self.path_of(n["e"])
            if b is None:
                return None
            if b in ("", "0", "0.0") and n["name"] == "0":
                return b  # newtype wrappers of the builder
            if b in ("0", "0.0"):
                b = ""
            return (b + "." if b else "") + n["name"]
        if n["k"] == "MethodCall" and not n["args"] and n["name"] in ("as_ref", "unwrap", "clone"):
            return self.path_of(n["recv"])
        if n["k"] == "MethodCall" and not n["args"] and (n["name"] in LOSSY_CONVERSIONS or n["name"] == "to_f64"):
            return self.path_of(n["recv"])
        if n["k"] == "MethodCall" and not n["args"]:
            # an accessor named after a field of the parameter set (`self.tokenizer_function()`): the field itself (that such an
            # accessor returns its own field is R-C04-accessor's business)
            b = self.path_of(n["recv"])
            if b in ("", "0", "0.0"):
                d = self.c.dfn(n.get("inst", n.get("def"))) or {}
                adt = (d.get("self_adt") or "").split("::")[-1]
                for a in self.c.adts:
                    if (a.get("path") or a.get("name") or "").split("::")[-1] == adt and any(f_["name"] == n["name"] for v in a["variants"] for f_ in v["fields"]):
                        return n["name"]
        return None

    def note_path(self, p, node):
        if p not in self.paths_seen:
            self.paths_seen[p] = self.c.ty(node.get("t"))

    def const_of(self, n):
        n = peel_refs(n)
        if n["k"] == "Lit" and n["lk"] in ("int", "float"):
            try:
                return Fraction(re.sub(r"_?(f32|f64|usize|u8|u16|u32|u64|i8|i16|i32|i64|isize)$", "", n["v"].replace("_", "")))
            except ValueError:
                return None
        if n["k"] == "Unary" and n["op"] == "-":
            c = self.const_of(n["e"])
            return -c if c is not None else None
        d = None
        if n["k"] == "Call":
            f = strip(n["f"])
            d = self.c.dfn(f.get("def")) if f["k"] == "Path" else None
            if d and d["name"] == "zero" and not n["args"]:
                return Fraction(0)
            if d and d["name"] == "one" and not n["args"]:
                return Fraction(1)
            if d and d["name"] == "epsilon" and not n["args"]:
                return EPS
            if d and d["name"] in ("cast", "from", "from_f64", "from_f32") and len(n["args"]) == 1:
                return self.const_of(n["args"][0])
        if n["k"] == "MethodCall" and n["name"] == "unwrap":
            return self.const_of(n["recv"])
        return None

    def value_region(self, path, op, c, node):
        """Region over f of the atom `path op c`."""
        self.note_path(path, node)
        if path == self.f:
            return Region.cmp(op, c, self.integer).intersect(self.full)
        if path in self.w:
            r = Region.cmp(op, c)
            return self.full if r.contains(self.w[path]) else Region.empty(self.integer)
        raise Unclassified("no witness for parameter `%s`" % path)

    def mode_test(self, n):
        """`<other parameter> == <enum variant>` (or `!=`, or `matches!`-free equality with a unit variant path)"""
        n = strip(n)
        if n.get("k") != "Binary" or n["op"] not in ("==", "!="):
            return False
        for a, b in ((n["l"], n["r"]), (n["r"], n["l"])):
            pa = self.path_of(a)
            b0 = peel_refs(b)
            if pa is not None and pa != self.f and not self.f.startswith(pa + ".") and b0.get("k") == "Path" and "def" in b0 and self.const_of(b) is None:
                kind = str((self.c.dfn(b0["def"]) or {}).get("kind", ""))
                if kind.startswith("Ctor") or kind in ("Const", "AssocConst", "Variant"):
                    return True
        return False

    # ---- conditions -> Region over f where the condition is true
    def cond(self, n):
        n = strip(n)
        kk = n["k"]
        if kk == "Ref":
            return self.cond(n["e"])
        if kk == "Unary" and n["op"] == "!":
            return self.full.minus(self.cond(n["e"]))
        if kk == "Unary" and n["op"] == "*":
            return self.cond(n["e"])
        if kk == "Binary":
            op = n["op"]
            if op in ("||", "&&"):
                # `algorithm == Algorithm::Nipals && max_iter == 0`: a test of *another*, non-numeric parameter against one
                # of its variants.  The documented range of a parameter holds for every configuration of the others, so a
                # rejection that only applies in one mode is no rejection of the value: in a conjunction the whole guard is
                # "not always true" (empty), in a disjunction the mode test contributes nothing.
                lm, rm = self.mode_test(n["l"]), self.mode_test(n["r"])
                if lm or rm:
                    other = n["r"] if lm else n["l"]
                    if lm and rm:
                        return Region.empty(self.integer)
                    if op == "&&":
                        self.cond(other)          # still read (paths seen, relations, lossy tests)
                        return Region.empty(self.integer)
                    return self.cond(other)
            if op == "||":
                return self.cond(n["l"]).union(self.cond(n["r"]))
            if op == "&&":
                return self.cond(n["l"]).intersect(self.cond(n["r"]))
            if op in ("<", "<=", ">", ">=", "==", "!="):
                lp, rp = self.path_of(n["l"]), self.path_of(n["r"])
                lc, rc = self.const_of(n["l"]), self.const_of(n["r"])
                # a local that holds `param - c`: `local op k` is `param op k + c`
                l0, r0 = peel_refs(n["l"]), peel_refs(n["r"])
                if l0.get("k") == "Path" and l0.get("local") in self.affine and rc is not None:
                    ap, ac = self.affine[l0["local"]]
                    return self.value_region(ap, op, rc + ac, l0)
                if r0.get("k") == "Path" and r0.get("local") in self.affine and lc is not None:
                    ap, ac = self.affine[r0["local"]]
                    return self.value_region(ap, {"<": ">", ">": "<", "<=": ">=", ">=": "<=", "==": "==", "!=": "!="}[op], lc + ac, r0)
                flip = {"<": ">", ">": "<", "<=": ">=", ">=": "<=", "==": "==", "!=": "!="}
                if lp is not None and rc is not None:
                    self.note_lossy(lp, n["l"])
                    return self.value_region(lp, op, rc, peel_refs(n["l"]))
                if rp is not None and lc is not None:
                    self.note_lossy(rp, n["r"])
                    return self.value_region(rp, flip[op], lc, peel_refs(n["r"]))
                if lp is not None and rp is not None:
                    self.note_path(lp, peel_refs(n["l"]))
                    self.note_path(rp, peel_refs(n["r"]))
                    # cross-parameter relation: recorded and compared with the RELATIONS table; it does
                    # not restrict the single-parameter region (evaluated as "relation satisfied")
                    self.relations.add((lp, op, rp))
                    return Region.empty(self.integer)
                # `dist_fn.dist_to_rdist(tolerance) <= 0`: the test looks at a value *computed from* the parameter by some other
                # object's method - a converted copy, like `to_f32()`: what is accepted or rejected is the copy (its square
                # underflows, say), not the parameter
                for side, cst, op_ in ((n["l"], rc, op), (n["r"], lc, flip[op])):
                    s0 = peel_refs(side)
                    if cst is not None and s0.get("k") in ("MethodCall", "Call") and len(s0["args"]) == 1 and self.path_of(s0["args"][0]) is not None and (s0.get("k") == "Call" or self.path_of(s0["recv"]) != self.path_of(s0["args"][0])):
                        pth = self.path_of(s0["args"][0])
                        nm_ = s0["name"] if s0.get("k") == "MethodCall" else (self.c.dfn(strip(s0["f"]).get("def")) or {}).get("name", "?")
                        if nm_ not in ("cast", "from", "from_f64", "from_f32", "Some", "clone", "into"):
                            self.lossy_tests.add((pth, nm_))
                            return self.value_region(pth, op_, cst, peel_refs(s0["args"][0]))
                # `penalty * l1_ratio < 0`: arithmetic over parameters, linear in the parameter under analysis once the others
                # are at their witness values (analyse_check_ref repeats the analysis with the boundary values of those others)
                xl, xr = self.lin_of(n["l"]), self.lin_of(n["r"])
                if xl is not None and xr is not None and (xl[2] or xr[2] or xl[0] != 0 or xr[0] != 0):
                    a_, b_ = xl[0] - xr[0], xr[1] - xl[1]
                    self.coef_params |= set(xl[2] | xr[2])
                    if a_ == 0:
                        truth = {"<": 0 < b_, "<=": 0 <= b_, ">": 0 > b_, ">=": 0 >= b_, "==": b_ == 0, "!=": b_ != 0}[op]
                        return self.full if truth else Region.empty(self.integer)
                    op2 = op if a_ > 0 else flip[op]
                    return self.value_region(self.f, op2, b_ / a_, peel_refs(n["l"]))
                raise Unclassified("comparison with unrecognised operands: %s" % Render(self.c).e(n))
        if kk == "Path" and n.get("local") in self.bool_locals:
            return self.bool_locals[n["local"]]
        if kk == "Lit" and n.get("lk") == "bool":
            return self.full if str(n.get("v")) == "true" else Region.empty(self.integer)
        if kk == "Match" and n.get("src", "Normal") == "Normal":
            # a verdict computed by a match: `match *stopping { NumClusters(n) => n != 0, Distance(x) => !(x.is_negative() ..) }`
            path = self.path_of(n["scrut"])
            out, rest = Region.empty(self.integer), self.full
            for a in n["arms"]:
                m = self.pat(a["pat"], path)
                if m is None:
                    out = out.union(self.cond(a["body"]))
                    continue
                if m.is_empty():
                    continue
                if a.get("guard"):
                    m = m.intersect(self.cond(a["guard"]))
                out = out.union(m.intersect(rest).intersect(self.cond(a["body"])))
                rest = rest.minus(m)
            return out
        if kk in ("Field", "Path") and (self.c.ty(n.get("t")) or "") == "bool":
            # a boolean state flag of the builder (not a hyperparameter range): evaluated as "not raised", recorded
            p = self.path_of(n)
            if p is not None:
                self.opaque.add("state:" + p)
                return Region.empty(self.integer)
        if kk == "Call" and len(n["args"]) == 1 and self.path_of(n["args"][0]) is not None and (self.c.ty(n.get("t")) or "").strip() == "bool" and self.depth < 3:
            # a predicate of the same crate applied to one parameter (`at_least_one(self.0.n_runs)`): read through it
            f0 = strip(n["f"])
            di = f0.get("inst", f0.get("def")) if f0.get("k") == "Path" else None
            g = next((h for h in self.c.fns if h["def"] == di and h is not self.fn), None) if di is not None else None
            if g is None and f0.get("k") == "Path" and "def" in f0:
                g = next((h for h in self.c.fns if h["def"] == f0["def"] and h is not self.fn), None)
            if g is not None and len(g["params"]) == 1 and g["params"][0].get("k") == "Bind":
                sub = Guard(g, self.f, self.w, self.integer)
                sub.depth = self.depth + 1
                sub.env[g["params"][0]["local"]] = self.path_of(n["args"][0])
                body = strip(g["body"])
                while body.get("k") == "Block" and not body.get("stmts") and body.get("e") is not None:
                    body = strip(body["e"])
                reg = sub.cond(body)
                self.lossy_tests |= sub.lossy_tests
                self.opaque |= sub.opaque
                for p_, t_ in sub.paths_seen.items():
                    self.paths_seen.setdefault(p_, t_)
                return reg
        if kk == "MethodCall" and n["name"] in ("map_or", "is_some_and", "map_or_else") and n["args"] and strip(n["args"][-1]).get("k") == "Closure":
            # `c.to_u32().map_or(false, |c| c >= 1)`: the test runs on a narrowed copy of the parameter
            rv = peel_refs(n["recv"])
            if rv.get("k") == "MethodCall" and not rv["args"] and rv["name"] in LOSSY_CONVERSIONS and self.path_of(rv["recv"]) is not None:
                pth = self.path_of(rv["recv"])
                st = (self.c.ty(peel_refs(rv["recv"]).get("t")) or "").strip().lstrip("&")
                if not (rv["name"] == "to_f32" and st == "f32") and not (st in INT_TYPES and rv["name"] not in ("to_u8", "to_u16", "to_u32", "to_i8", "to_i16", "to_i32", "to_f32")):
                    self.lossy_tests.add((pth, rv["name"]))
                clo = strip(n["args"][-1])
                for b in (b for p_ in clo["params"] for b in pat_bindings(p_)):
                    self.env[b["local"]] = pth
                return self.cond(clo["body"])
        if kk == "MethodCall":
            name = n["name"]
            p = self.path_of(n["recv"])
            if p is not None and not n["args"] and name in ("is_none", "is_some"):
                ty = self.c.ty(peel_refs(n["recv"]).get("t")) or ""
                if "Option<" in ty and not any(x in ty for x in ("Option<f32>", "Option<f64>", "Option<usize>", "Option<u64>", "Option<F>", "Option<i32>", "Option<u32>")):
                    self.opaque.add("state:" + p)
                    return Region.empty(self.integer)
            if p is not None and not n["args"]:
                node = peel_refs(n["recv"])
                if name in ("is_negative", "is_sign_negative", "is_positive", "is_sign_positive", "is_zero"):
                    self.note_lossy(p, n["recv"])
                if name in ("is_negative", "is_sign_negative"):
                    return self.value_region(p, "<", Fraction(0), node)
                if name in ("is_positive", "is_sign_positive"):
                    # num_traits' `Signed::is_positive` of a *float* is the sign-bit test (true for +0.0); of an integer it is `> 0`
                    tyn = (self.c.ty(node.get("at", node.get("t"))) or "").lstrip("&").strip()
                    is_int = tyn in INT_TYPES
                    return self.value_region(p, ">" if (name == "is_positive" and is_int) else ">=", Fraction(0), node)
                if name in ("is_nan", "is_infinite"):
                    self.note_path(p, node)
                    return Region.empty(self.integer)
                if name == "is_finite":
                    self.note_path(p, node)
                    return self.full
                if name == "is_zero":
                    return self.value_region(p, "==", Fraction(0), node)
            if name == "contains" and len(n["args"]) == 1:
                rng = self.range_of(n["recv"])
                p = self.path_of(n["args"][0])
                if rng and p is not None:
                    lo, hi, hc = rng
                    self.note_lossy(p, n["args"][0])
                    node = peel_refs(n["args"][0])
                    return self.value_region(p, ">=", lo, node).intersect(self.value_region(p, "<=" if hc else "<", hi, node))
            if name in ("any", "all") and len(n["args"]) == 1:
                # elementwise condition over a collection-valued parameter: iter().any(|p| cond(p))
                base = n["recv"]
                while strip(base)["k"] == "MethodCall" and strip(base)["name"] in ("iter", "into_iter", "as_ref", "values"):
                    base = strip(base)["recv"]
                p = self.path_of(base)
                clo = strip(n["args"][0])
                if p is not None and clo["k"] == "Closure" and len(clo["params"]) == 1:
                    for b in pat_bindings(clo["params"][0]):
                        self.env[b["local"]] = p + "[*]"
                    self.w.setdefault(p + "[*]", Fraction(1, 2))
                    return self.cond(clo["body"])
            raise Unclassified("unrecognised guard atom: %s" % Render(self.c).e(n))
        if kk == "Block" and not n["stmts"] and n.get("e"):
            return self.cond(n["e"])
        if kk == "Let":
            m = self.pat(n["pat"], self.path_of(n["init"]))
            return m
        raise Unclassified("unrecognised condition: %s" % Render(self.c).e(n))

    def range_of(self, n):
        n = peel_refs(n)
        if n["k"] == "Call":
            f = strip(n["f"])
            d = self.c.dfn(f.get("def")) if f["k"] == "Path" else None
            if d and d["name"] == "new" and "RangeInclusive" in d["path"] and len(n["args"]) == 2:
                lo, hi = self.const_of(n["args"][0]), self.const_of(n["args"][1])
                if lo is not None and hi is not None:
                    return lo, hi, True
        if n["k"] == "Struct":
            d = self.c.dfn(n.get("def"))
            if d and d["path"].endswith("::Range"):
                fs = {x["name"]: self.const_of(x["e"]) for x in n["fields"]}
                if fs.get("start") is not None and fs.get("end") is not None:
                    return fs["start"], fs["end"], False
        return None

    # ---- patterns: region over f on which `pat` matches the value at `path` (binds locals)
    def pat(self, p, path):
        kk = p["k"]
        if path is None:
            raise Unclassified("pattern over a non-parameter value")
        if kk == "Bind":
            self.env[p["local"]] = path
            return self.full
        if kk == "Wild":
            return self.full
        if kk in ("Ref", "Box"):
            return self.pat(p["pat"], path)
        if kk == "Tuple":
            r = self.full
            for i, q in enumerate(p["pats"]):
                r = r.intersect(self.pat(q, "%s.%d" % (path, i)))
            return r
        if kk in ("TupleStruct", "Struct"):
            d = self.c.dfn(p.get("def"))
            variant = d["path"].split("::")[-1] if d else "?"
            sub = "%s.%s" % (path, variant)
            related = self.f.startswith(path + ".")
            if related and not self.f.startswith(sub + "."):
                # f lives under another variant of the same field: this arm cannot match
                self.bind_all(p, sub)
                return Region.empty(self.integer)
            r = self.full
            if kk == "TupleStruct":
                for i, q in enumerate(p["pats"]):
                    r = r.intersect(self.pat(q, "%s.%d" % (sub, i)))
            else:
                for fld in p["fields"]:
                    r = r.intersect(self.pat(fld["pat"], "%s.%s" % (sub, fld["name"])))
            if not related:
                return None  # unknown: depends on another parameter's variant
            return r
        if kk == "Lit":
            return self.value_region(path, "==", Fraction(p["v"]), p)
        if kk == "Path" and "def" in p:
            # a unit variant / constant of another, non-numeric parameter (`Algorithm::Svd => ..`): the arm is taken in that
            # mode whatever f is
            kind = str((self.c.dfn(p["def"]) or {}).get("kind", ""))
            if (kind.startswith("Ctor") or kind in ("Const", "AssocConst", "Variant")) and path != self.f:
                if self.f.startswith(path + "."):
                    return Region.empty(self.integer)      # f lives under a payload-carrying variant of this field
                return None
        raise Unclassified("unrecognised pattern kind %s" % kk)

    def bind_all(self, p, path):
        for b in pat_bindings(p):
            self.env[b["local"]] = path + ".?"

    # ---- control flow
    def classify_value(self, n):
        """'err' / 'ok' / None for a value expression that is syntactically Err(..) / Ok(..)."""
        n = strip(n)
        if n["k"] == "Call":
            f = strip(n["f"])
            d = self.c.dfn(f.get("def")) if f["k"] == "Path" else None
            if d and d["name"] == "Err" and "Result" in self.c.ty(n.get("t")):
                return "err"
            if d and d["name"] == "Ok" and "Result" in self.c.ty(n.get("t")):
                return "ok"
        return None

    def run_value(self, n, inp):
        """Evaluate an expression in tail (value) position for inputs `inp` (region over f)."""
        n = strip(n)
        if inp.is_empty():
            return
        kk = n["k"]
        cv = self.classify_value(n)
        if cv == "err":
            self.err = self.err.union(inp)
            return
        if cv == "ok":
            self.ok = self.ok.union(inp)
            return
        if kk == "Block":
            rest = inp
            for s in n["stmts"]:
                rest = self.run_stmt(s, rest)
            if n.get("e"):
                self.run_value(n["e"], rest)
            elif not rest.is_empty():
                raise Unclassified("block falls through without a value")
            return
        if kk == "If":
            c = strip(n["c"])
            t = self.cond(c)
            if t is None:
                # condition depends on another parameter's variant: both branches, same inputs
                self.run_value(n["then"], inp)
                if n.get("else"):
                    self.run_value(n["else"], inp)
                return
            self.run_value(n["then"], inp.intersect(t))
            if n.get("else"):
                self.run_value(n["else"], inp.minus(t))
            elif not inp.minus(t).is_empty():
                raise Unclassified("if without else in value position")
            return
        if kk == "Match" and n["src"] == "Normal":
            path = self.path_of(n["scrut"])
            rest = inp
            for a in n["arms"]:
                m = self.pat(a["pat"], path)
                if m is None:
                    # the pattern tests another parameter's variant: the arm is taken for any f - as far as its guard
                    # (`Some(start) if start.iter().any(..)`) allows
                    g_ = self.cond(a["guard"]) if a.get("guard") else None
                    self.run_value(a["body"], rest.intersect(g_) if g_ is not None else rest)
                    continue
                if m.is_empty():
                    continue
                if a.get("guard"):
                    m = m.intersect(self.cond(a["guard"]))
                self.run_value(a["body"], rest.intersect(m))
                rest = rest.minus(m)
            return
        if kk == "Ret":
            self.run_value(n["e"], inp)
            return
        if kk in ("MethodCall", "Call") and re.match(r"^(std::|core::)?(result::)?Result<\(\),", (self.c.ty(n.get("t")) or "").replace(" ", "")):
            # `self.validate_last()` in tail position of a `-> Result<(), E>` validator: `self.validate_last()?; Ok(())`
            opaque_before = set(self.opaque)
            handled, rest = self.helper_call(n, inp, n)
            if handled:
                self.ok = self.ok.union(rest)
                return
            self.opaque = opaque_before
        raise Unclassified("unrecognised tail expression: %s" % Render(self.c).e(n)[:120])

    def run_stmt(self, s, inp):
        """Returns the region that continues past the statement."""
        s = strip(s)
        kk = s["k"]
        if kk == "LetStmt":
            init = s.get("init")
            if init is not None:
                p = self.path_of(init)
                if p is not None:
                    self.pat(s["pat"], p)
                    cv = self.lossy(init)
                    if cv is not None:
                        for b in pat_bindings(s["pat"]):
                            self.lossy_locals[b["local"]] = cv
                    return inp
                i0 = strip(init)
                if i0.get("k") == "Match" and i0.get("src") == "TryDesugar":
                    return self.try_helper(i0, inp)
                if s["pat"].get("k") == "Bind" and (self.c.ty(i0.get("t")) or "").strip() == "bool" and i0.get("k") in ("Match", "Binary", "Unary", "If", "MethodCall"):
                    try:
                        reg = self.cond(i0)
                    except Unclassified:
                        reg = None
                    if reg is not None:
                        self.bool_locals[s["pat"]["local"]] = reg
                        return inp
                if i0.get("k") == "Binary" and i0["op"] in ("*", "+", "-", "/") and s["pat"].get("k") == "Bind" and (self.c.ty(i0.get("t")) or "").strip() not in INT_TYPES:
                    lin = self.lin_of(i0)
                    if lin is not None and (lin[2] or lin[0] != 0):
                        self.lin_locals[s["pat"]["local"]] = lin
                        return inp
                if i0.get("k") == "Binary" and i0["op"] == "-" and s["pat"].get("k") == "Bind":
                    ap, ac = self.path_of(i0["l"]), self.const_of(i0["r"])
                    ty = (self.c.ty(peel_refs(i0["l"]).get("t")) or "").strip().lstrip("&")
                    if ap is not None and ac is not None and ty in ("usize", "u8", "u16", "u32", "u64"):
                        # unsigned `param - c` evaluated before any test: for param < c it overflows (a panic with overflow
                        # checks, a wrap-around to a huge valid-looking value without)
                        self.affine[s["pat"]["local"]] = (ap, ac)
                        low = self.value_region(ap, "<", ac, peel_refs(i0["l"])).intersect(inp)
                        self.panics = self.panics.union(low)
                        return inp.minus(low)
                self.effect(init)
            return inp
        if kk == "If":
            t = self.cond(strip(s["c"]))
            if t is None:
                a = self.run_branch(s["then"], inp)
                b = self.run_branch(s["else"], inp) if s.get("else") else inp
                return a.intersect(b)
            a = self.run_branch(s["then"], inp.intersect(t))
            b = self.run_branch(s["else"], inp.minus(t)) if s.get("else") else inp.minus(t)
            return a.union(b)
        if kk == "Match" and s["src"] == "Normal":
            path = self.path_of(s["scrut"])
            rest = inp
            out = Region.empty(self.integer)
            unknown = False
            for a in s["arms"]:
                m = self.pat(a["pat"], path)
                if m is None:
                    unknown = True
                    g_ = self.cond(a["guard"]) if a.get("guard") else None
                    out = out.union(self.run_branch(a["body"], rest.intersect(g_) if g_ is not None else rest))
                    continue
                if m.is_empty():
                    continue
                if a.get("guard"):
                    m = m.intersect(self.cond(a["guard"]))
                out = out.union(self.run_branch(a["body"], rest.intersect(m)))
                rest = rest.minus(m)
            return out if not unknown else inp.minus(self.err)
        if kk == "Match" and s["src"] == "TryDesugar":
            return self.try_helper(s, inp)
        if kk == "Ret":
            self.run_value(s["e"], inp)
            return Region.empty(self.integer)
        if kk in ("Assign", "AssignOp", "MethodCall", "Call"):
            self.effect(s)
            return inp
        if kk == "Block":
            return self.run_branch(s, inp)
        raise Unclassified("unrecognised statement: %s" % Render(self.c).e(s)[:120])

    def run_branch(self, n, inp):
        n = strip(n)
        if n["k"] == "Block":
            rest = inp
            for s in n["stmts"]:
                rest = self.run_stmt(s, rest)
            if n.get("e"):
                rest = self.run_stmt(n["e"], rest)
            return rest
        return self.run_stmt(n, inp)

    def try_helper(self, m, inp):
        """`helper(..)?` where helper is a function of the same crate that validates (part of) the same parameters
        (`self.ensure_ranges()?`, `self.0.validate()?`): its rejected region is computed from its own body and removed
        from the inputs that continue. Anything else is an opaque fallible sub-check."""
        sc = strip(m["scrut"])
        inner = strip(sc["args"][0]) if sc.get("k") == "Call" and sc["args"] else None
        return self.helper_call(inner, inp, m)[1]

    def helper_call(self, inner, inp, m):
        """(handled, region that continues) for a call of a validation helper; `m` is the node recorded as an opaque
        sub-check when the callee is not one"""
        callee = None
        arg_paths = None
        if inner is not None and inner.get("k") in ("MethodCall", "Call") and self.depth < 3:
            di = inner.get("inst", inner.get("def")) if inner["k"] == "MethodCall" else strip(inner["f"]).get("inst", strip(inner["f"]).get("def"))
            recv_ok = False
            whole = False
            if inner["k"] == "MethodCall":
                recv_ok = self.path_of(inner["recv"]) == "" and not inner["args"]
            else:
                recv_ok = len(inner["args"]) == 1 and self.path_of(inner["args"][0]) == ""
                if recv_ok:
                    # `Self::validate(&self.0)?`: the whole set handed to a helper under another name
                    arg_paths, whole = [""], True
                if not recv_ok and inner["args"]:
                    # `validate_stopping(&self.0.stopping)?`: a free helper that is handed (parts of) the parameters
                    ps_ = [self.path_of(a) for a in inner["args"]]
                    if all(p_ is not None for p_ in ps_):
                        recv_ok, arg_paths = True, ps_
            if di is not None and recv_ok:
                callee = next((f for f in self.c.fns if f["def"] == di and f is not self.fn), None)
                if callee is not None and arg_paths is not None and not (len(callee["params"]) == len(arg_paths) and all(p_.get("k") in ("Bind", "Tuple", "Ref") for p_ in callee["params"])):
                    callee = None
                # only a pure validator (`-> Result<(), E>`) is read as part of the check; a fallible constructor that is handed
                # a parameter (`SerdeRegex::new(&self.0.expr)?`) stays the opaque sub-check it is
                if callee is not None and arg_paths is not None and not whole and not re.match(r"^(std::|core::)?(result::)?Result<\(\),", (callee.get("output") or "").replace(" ", "")):
                    callee = None
        if callee is None:
            self.effect(m)
            return False, inp
        sub = Guard(callee, self.f, self.w, self.integer)
        sub.depth = self.depth + 1
        if arg_paths is not None:
            for p_, path_ in zip(callee["params"], arg_paths):
                if p_.get("k") == "Bind":
                    sub.env[p_["local"]] = path_
                else:
                    # `fn validate_c((c1, c2): (F, F))`: the parts of the argument are the parts of the parameter
                    try:
                        sub.pat(p_, path_)
                    except Unclassified:
                        self.effect(m)
                        return False, inp
        try:
            sub.run_value(callee["body"], inp)
        except Unclassified as e:
            from .facts import walk as _walk
            import os as _os
            if _os.environ.get("C04_DEBUG"):
                print("C04_DEBUG try_helper %s: %s" % (callee["d"]["name"], e))
            numeric = False
            for y in _walk(callee["body"]):
                if y.get("k") == "Binary" and y["op"] in ("<", "<=", ">", ">=") and any(z.get("k") == "Path" and z.get("name") == "self" for z in _walk(y)):
                    numeric = True
                if y.get("k") == "MethodCall" and y["name"] in ("is_negative", "is_sign_negative", "is_positive", "contains", "is_zero") and any(z.get("k") == "Path" and z.get("name") == "self" for z in _walk(y)):
                    numeric = True
            if numeric:
                raise Unclassified("validation helper `%s`: %s" % (callee["d"]["name"], e))
            # a helper without range tests on the parameters (it compiles a regex, fills a cache): its own fallible calls
            # are the opaque sub-checks
            self.effect(callee["body"])
            # a cache that is keyed by the parameter it was computed from (`cached.text() == self.expr` decides whether the
            # fallible step is repeated) does not make the verdict depend on state: the step is skipped only when its
            # outcome for this very parameter value is already known
            _lets = {}
            for y in _walk(callee["body"]):
                if y.get("k") == "LetStmt" and y.get("init") is not None and y["pat"].get("k") == "Bind":
                    _lets[y["pat"]["local"]] = y["init"]
            keyed = False
            for y in _walk(callee["body"]):
                if y.get("k") == "Binary" and y["op"] == "==":
                    flds = set()
                    for side in (y["l"], y["r"]):
                        for z in _walk(side):
                            zz = [z]
                            if z.get("k") == "Path" and z.get("local") in _lets:
                                zz = list(_walk(_lets[z["local"]]))
                            for w in zz:
                                if w.get("k") == "Field" and peel_refs(w["e"]).get("k") == "Path" and peel_refs(w["e"]).get("name") == "self":
                                    tyw = self.c.ty(w.get("t")) or ""
                                    if "Option<" not in tyw and "RefCell<" not in tyw and tyw != "bool":
                                        flds.add(w["name"])
                    if flds:
                        keyed = True
            for y in (_walk(callee["body"]) if not keyed else []):
                if y.get("k") == "Field" and (self.c.ty(y.get("t")) or "") == "bool":
                    py = sub.path_of(y)
                    if py is not None:
                        self.opaque.add("state:" + py)
                if y.get("k") == "Field":
                    ty = self.c.ty(y.get("t")) or ""
                    if "Option<" in ty and not any(x in ty for x in ("Option<f32>", "Option<f64>", "Option<usize>", "Option<u64>", "Option<F>", "Option<i32>", "Option<u32>")):
                        py = sub.path_of(y)
                        if py is not None:
                            self.opaque.add("state:" + py)
                if y.get("k") == "MethodCall" and y["name"] in ("is_none", "is_some") and not y["args"]:
                    py = sub.path_of(y["recv"])
                    ty = self.c.ty(peel_refs(y["recv"]).get("t")) or ""
                    if py is not None and "Option<" in ty and not any(x in ty for x in ("Option<f32>", "Option<f64>", "Option<usize>", "Option<u64>", "Option<F>", "Option<i32>", "Option<u32>")):
                        self.opaque.add("state:" + py)
            return True, inp
        # an input that the helper rejects in one mode of another parameter and accepts in another mode (both branches of a
        # mode test are run with the same inputs) is not rejected for every configuration of the others: the documented range
        # of a parameter holds whatever the other parameters are, so only what no mode accepts counts as rejected
        rejected = sub.err.minus(sub.ok)
        self.err = self.err.union(rejected)
        sub.err = rejected
        self.relations |= sub.relations
        self.opaque |= sub.opaque
        self.lossy_tests |= sub.lossy_tests
        for p_, t_ in sub.paths_seen.items():
            self.paths_seen.setdefault(p_, t_)
        return True, inp.minus(sub.err)

    def effect(self, n):
        """A statement that is not a guard: record `?` on fallible calls as opaque sub-checks."""
        from .facts import walk
        for x in walk(n):
            if x.get("k") == "Match" and x.get("src") == "TryDesugar":
                sc = strip(x["scrut"])
                inner = strip(sc["args"][0]) if sc["k"] == "Call" and sc["args"] else None
                if inner is not None and inner["k"] in ("Call", "MethodCall"):
                    nm = inner["name"] if inner["k"] == "MethodCall" else (self.c.dfn(strip(inner["f"]).get("def")) or {}).get("name", "?")
                    self.opaque.add(nm)


def guard_impls(F):
    out = {}
    for fn in F.all_fns():
        d = fn["d"]
        if (d.get("trait") or "").endswith("ParamGuard") and d["name"] in ("check_ref", "check") and d.get("self_adt"):
            out.setdefault(d["self_adt"].split("::")[-1], {})[d["name"]] = fn
    return out


def field_is_integer(ty):
    return (ty or "").strip().lstrip("&") in INT_TYPES


def analyse_check_ref(fn, builder, table):
    """Returns (regions: path -> Region, info dict) or raises Unclassified."""
    # first pass with a permissive witness set to discover the parameter paths
    witness = {}
    for p, spec in table.items():
        witness[p] = None
    # discover types by a dry run on a fake field
    probe = Guard(fn, "\0", {p: Fraction(1) for p in table}, False)
    try:
        probe.run_value(fn["body"], probe.full)
    except Unclassified:
        pass
    types = dict(probe.paths_seen)
    for a in fn["crate"].adts:
        names = {f["name"]: f["ty"] for v in a["variants"] for f in v["fields"]}
        tops = [p for p in table if "." not in p]
        if tops and all(p in names for p in tops):
            for p in tops:
                types.setdefault(p, names[p])
    paths = [p for p in list(table) + [q for q in types if q not in table] if not p.endswith(".?")]
    wit = {}
    for p in paths:
        integer = field_is_integer(types.get(p))
        spec = table.get(p, "any")
        wit[p] = parse_spec(spec, integer).intersect(Region.full(integer, unsigned=integer)).witness()
    regions, rel, opaque = {}, set(), set()
    for p in paths:
        integer = field_is_integer(types.get(p))
        g = Guard(fn, p, {q: v for q, v in wit.items() if q != p}, integer)
        g.run_value(fn["body"], g.full)
        total = g.err.union(g.ok).union(g.panics)
        if not g.panics.is_empty():
            PANICS_FOUND.setdefault(id(fn), {})[p] = repr(g.panics)
        if not (total == g.full):
            raise Unclassified("paths do not cover the domain of `%s`: err=%s ok=%s" % (p, g.err, g.ok))
        got_ok = g.ok
        # guards that combine parameters arithmetically were evaluated with the others at one witness: the documented range of p
        # holds for *every* valid value of the others, so repeat with their boundary values and keep a region that differs
        for q in sorted(g.coef_params):
            if q == p or q not in wit:
                continue
            q_int = field_is_integer(types.get(q))
            q_reg = parse_spec(table.get(q, "any"), q_int).intersect(Region.full(q_int, unsigned=q_int))
            for alt in sorted(x for x in q_reg.boundary_points() if q_reg.contains(x)):
                w2 = {r_: v for r_, v in wit.items() if r_ != p}
                w2[q] = alt
                g2 = Guard(fn, p, w2, integer)
                try:
                    g2.run_value(fn["body"], g2.full)
                except Unclassified:
                    continue
                if not (g2.ok == got_ok) and (g2.err.union(g2.ok).union(g2.panics) == g2.full):
                    got_ok = g2.ok
                    break
        regions[p] = (got_ok, integer, types.get(p))
        rel |= g.relations
        opaque |= g.opaque
        LOSSY_FOUND.setdefault(id(fn), set()).update(g.lossy_tests)
    return regions, rel, opaque, wit


LOSSY_FOUND = {}
PANICS_FOUND = {}


def canon_rel(r):
    a, op, b = r
    flip = {"<": ">", ">": "<", "<=": ">=", ">=": "<="}
    # canonical: operator in {<, <=} direction-insensitive key
    if op in (">", ">="):
        return (b, flip[op], a)
    return r


def rule_range(ctx):
    res = RuleResult("R-C04-range", "accepted region of every check_ref (interval algebra over its guards) equals the documented range table")
    F = ctx.facts()
    impls = guard_impls(F)
    for builder in sorted(set(TABLE) | set(impls)):
        if builder not in impls or "check_ref" not in impls[builder]:
            res.missing_anchor("%s::check_ref" % builder)
            continue
        fn = impls[builder]["check_ref"]
        key = fn_key(fn)
        if builder not in TABLE:
            res.undecided("%s : undocumented-builder" % key, "ParamGuard implementor %s has no row in the documented range table (new builder: read it once, fail closed)" % builder, fn_loc(fn))
            continue
        table = TABLE[builder]
        try:
            regions, rel, opaque, wit = analyse_check_ref(fn, builder, table)
        except Unclassified as e:
            res.undecided("%s : unclassified-guard" % key, "guard structure not understood (fail closed): %s" % e, fn_loc(fn))
            continue
        for (lp_, cv_) in sorted(LOSSY_FOUND.get(id(fn), ())):
            res.instance("%s : %s tested on itself" % (key, lp_))
            res.violate("%s : test-on-converted-value:%s" % (key, lp_), "the range test of `%s` is evaluated on a narrowed copy (`%s`): values that round across the bound (1e-50 -> 0, 1 + 1e-12 -> 1) are accepted or rejected by the copy, not by the parameter" % (lp_, cv_), fn_loc(fn))
        for pp_, reg_ in sorted(PANICS_FOUND.get(id(fn), {}).items()):
            res.instance("%s : %s rejected without arithmetic on it" % (key, pp_))
            res.violate("%s : overflow-before-test:%s" % (key, pp_), "check_ref subtracts from the unsigned parameter `%s` before testing it: for %s the subtraction overflows - a panic with overflow checks, a wrap-around to a huge accepted value without - instead of the documented error" % (pp_, reg_), fn_loc(fn))
        for p in sorted(regions):
            got, integer, ty = regions[p]
            want = parse_spec(table.get(p, "any"), integer).intersect(Region.full(integer, unsigned=integer))
            res.instance("%s : %s" % (key, p))
            if got == want:
                res.ok()
                res.sample({"builder": builder, "param": p, "type": ty, "accepted": repr(got)})
            else:
                extra = got.minus(want)
                missing = want.minus(got)
                what = []
                if not extra.is_empty():
                    what.append("accepts %s outside the documented range" % extra)
                if not missing.is_empty():
                    what.append("rejects %s inside the documented range" % missing)
                res.violate("%s : %s" % (key, p),
                            "%s.%s: check_ref accepts %s, documented %s (%s)" % (builder, p, got, want, "; ".join(what)), fn_loc(fn),
                            {"accepted": repr(got), "documented": repr(want)})
        want_rel = set(canon_rel(r) for r in RELATIONS.get(builder, set()))
        got_rel = set(canon_rel(r) for r in rel)
        for r in sorted(want_rel | got_rel):
            res.instance("%s : relation %s %s %s" % (key, r[0], r[1], r[2]))
            if r in want_rel and r in got_rel:
                res.ok()
            elif r in want_rel:
                res.violate("%s : relation-missing:%s%s%s" % ((key,) + r), "documented cross-parameter constraint %s %s %s is not rejected" % r, fn_loc(fn))
            else:
                res.violate("%s : relation-extra:%s%s%s" % ((key,) + r), "undocumented cross-parameter rejection %s %s %s" % r, fn_loc(fn))
        for o in sorted(OPAQUE.get(builder, set()) | opaque):
            res.instance("%s : sub-check %s" % (key, o))
            if o in opaque and o in OPAQUE.get(builder, set()):
                res.ok()
            elif o in opaque:
                res.violate("%s : subcheck-extra:%s" % (key, o), "undocumented fallible sub-check `%s`" % o, fn_loc(fn))
            else:
                res.violate("%s : subcheck-missing:%s" % (key, o), "delegated sub-check `%s` is no longer performed" % o, fn_loc(fn))
    return res.finish(60)


def rule_same(ctx):
    res = RuleResult("R-C04-same", "check(self) == check_ref(&self) followed by an unchanged projection of self; no interior mutation in check_ref")
    F = ctx.facts()
    impls = guard_impls(F)
    for builder in sorted(impls):
        fns = impls[builder]
        if "check" not in fns or "check_ref" not in fns:
            res.missing_anchor("%s::check/check_ref" % builder)
            continue
        fn = fns["check"]
        key = fn_key(fn)
        tr = Tracer(fn).run()
        res.instance(key)
        calls = [e for e in tr.events if e.kind == "call"]
        chk = [e for e in calls if e.name == "check_ref" and e.recv is not None and k(e.recv) == "param:self"]
        other = [e for e in calls if e not in chk and e.name not in ("branch", "from_residual", "Ok", "Err", "from", "into")]
        tries = [e for e in tr.events if e.kind == "try"]
        # `if let Err(e) = self.check_ref() { return Err(e) }` / `match .. { Err(e) => return Err(e), .. }` is `?` written out
        if len(chk) == 1:
            cv0 = k(chk[0].val)
            for e in tr.events:
                if e.kind == "ret" and ("variant:Err.0(%s)" % cv0) in k(e.val) and k(e.val).startswith("call:Err(") and any(cv0 in g[1] for g in e.guards):
                    tries = tries + [chk[0]]
                    break
        assigns = [e for e in tr.events if e.kind in ("assign", "assignop")]
        rv = as_term(tr.result)
        proj_ok = False
        if rv is not None and rv.is_call("Ok") and len(rv.args) == 1:
            t = as_term(rv.args[0])
            while t is not None and (t.op.startswith("proj:") or t.op.startswith("field:") or t.op.startswith("variant:")) and t.args:
                t = as_term(t.args[0])
            proj_ok = t is not None and t.op == "param:self"
        # `match self.check_ref()[.map(|_| ())] { Ok(..) => Ok(<projection of self>), Err(e) => Err(e) }` is the same function
        if len(chk) == 1 and not assigns and not proj_ok and not [e for e in other if e.name not in ("map", "map_err", "and_then", "ok", "err", "is_ok", "is_err")]:
            cv0 = k(chk[0].val)

            def _alts(t):
                t = as_term(t)
                if t is None:
                    return []
                if t.op.startswith("<match@"):
                    return [a for x in t.args for a in _alts(x)]
                if t.op == "ite" and len(t.args) == 3:
                    return _alts(t.args[1]) + _alts(t.args[2])
                return [t]

            def _ok_proj(t):
                if not (t.is_call("Ok") and len(t.args) == 1):
                    return False
                u = as_term(t.args[0])
                while u is not None and (u.op.startswith("proj:") or u.op.startswith("field:") or u.op.startswith("variant:")) and u.args:
                    u = as_term(u.args[0])
                return u is not None and u.op == "param:self"
            A = _alts(tr.result)
            oks = [a for a in A if _ok_proj(a)]
            errs = [a for a in A if a.is_call("Err") and "variant:Err.0(" in k(a) and cv0 in k(a)]
            if len(A) >= 2 and oks and errs and len(oks) + len(errs) == len(A):
                proj_ok, other, tries = True, [], tries + [chk[0]]
        if len(chk) == 1 and not other and not assigns and proj_ok and any(k(t.val) == k(chk[0].val) for t in tries):
            res.ok()
            res.sample({"check": key, "shape": "self.check_ref()?; Ok(<projection of self>)"})
            shared = None
        else:
            shared = None
            PLUMBING = ("branch", "from_residual", "Ok", "Err", "Some", "map_or", "map_or_else", "map", "ok_or", "ok_or_else", "and_then", "into", "from", "map_err", "is_some", "is_none", "unwrap_or")
            if not chk and other and not assigns:
                # check and check_ref both take their verdict from the same private validation helper(s) and test nothing else
                trr0 = Tracer(fns["check_ref"]).run()
                ref_calls = sorted(set(e.name for e in trr0.events if e.kind == "call" and e.name not in PLUMBING))
                own_calls = sorted(set(e.name for e in other if e.name not in PLUMBING))
                from .facts import walk as _walk
                own_tests = [y for y in _walk(fn["body"]) if y.get("k") == "Binary" and y["op"] in ("<", "<=", ">", ">=", "==", "!=")]
                oks = [e for e in calls if e.name == "Ok" and e.args]
                proj2 = False
                for e in oks:
                    t = as_term(e.args[0])
                    while t is not None and (t.op.startswith("proj:") or t.op.startswith("field:") or t.op.startswith("variant:")) and t.args:
                        t = as_term(t.args[0])
                    proj2 = proj2 or (t is not None and t.op == "param:self")
                proj3 = "param:self" in k(tr.result)    # `self.0.validate().map(move |()| self.0)`: the projection sits in a closure
                if own_calls and own_calls == ref_calls and not own_tests and (proj_ok or proj2 or proj3):
                    shared = own_calls
        if shared:
            res.ok()
            res.sample({"check": key, "shape": "check and check_ref propagate the same validation helper(s) %s with `?`" % shared})
        elif shared is None and len(chk) == 1 and not other and not assigns and proj_ok and any(k(t.val) == k(chk[0].val) for t in tries):
            pass
        else:
            res.violate("%s : shape" % key,
                        "check is not `self.check_ref()?; Ok(<projection of self>)` (check_ref calls=%d, other calls=%s, writes=%d, returns projection=%s)" % (
                            len(chk), sorted(set(e.name for e in other)), len(assigns), proj_ok), fn_loc(fn))
        # interior mutation in check_ref
        fr = fns["check_ref"]
        trr = Tracer(fr).run()
        kr = fn_key(fr)
        res.instance(kr + " : writes")
        writes = []
        for e in trr.events:
            if e.kind in ("assign", "assignop"):
                writes.append((e.lhs, e))
            elif e.kind == "call" and e.name in ("borrow_mut", "set", "replace", "get_or_init", "lock", "write", "store", "fetch_add", "swap", "insert", "push"):
                if e.recv is not None and "param:self" in k(e.recv):
                    writes.append((k(e.recv), e))
        bad = []
        for lhs, e in writes:
            allowed = any(re.search(r"\b%s\b" % f, lhs) for f in MUT_ALLOW.get(builder, {}))
            if not allowed and ("param:self" in lhs or lhs.startswith("param:")):
                bad.append((lhs, e))
        if bad:
            for lhs, e in bad:
                res.violate("%s : interior-mutation:%s" % (kr, re.sub(r"@\d+", "", lhs)[:60]), "check_ref writes to the parameters: %s" % lhs, fn_loc(fr, e.node["ln"]))
        else:
            res.ok()
    return res.finish(46)


DOM_PLUMBING = ("Ok", "Err", "map_err", "from", "into", "branch", "from_residual", "from_output")

def dominated(tr, c0):
    """(True, how) when all work follows a successful check; (False, event) with the first piece of work that does
    not; the accepted shapes: `check()?` first / check().map|and_then(closure) [through map_err] / work only in the
    Ok arm of a match (if let) on the check / an Err arm that returns before the work"""
    calls = [e for e in tr.events if e.kind == "call" and e.name not in ("branch", "from_residual")]
    cv = k(c0.val)
    after = [e for e in calls if e.order > c0.order]
    work = [e for e in after if e.name not in DOM_PLUMBING]
    tried = [e for e in tr.events if e.kind == "try" and (k(e.val) == cv or cv in k(e.val))]
    if tried:
        t0 = tried[0]
        late = [e for e in work if e.order <= t0.order and e.closure_depth == 0]
        if not late:
            return True, "check_ref()? first"
    comb = [e for e in after if e.name in ("map", "and_then") and e.recv is not None and (k(e.recv) == cv or cv in k(e.recv))]
    if len(comb) == 1:
        outside = [e for e in work if e.closure_depth == 0 and e is not comb[0]]
        if not outside and (k(tr.result) == k(comb[0].val) or k(comb[0].val) in k(tr.result)):
            return True, "work inside check_ref().%s(|p| ..)" % comb[0].name

    def in_ok_arm(e):
        return any(g[0] == "+" and cv in g[1] and "~ Ok" in g[1].replace("std::result::Result::", "").replace("core::result::Result::", "") for g in e.guards)
    err_rets = [e for e in tr.events if e.kind in ("ret", "iret") and any(g[0] == "+" and cv in g[1] and "~ Err" in g[1].replace("std::result::Result::", "").replace("core::result::Result::", "") for g in e.guards)]
    loose = [e for e in work if e.closure_depth == 0 and not in_ok_arm(e)]
    if err_rets:
        r0 = min(e.order for e in err_rets)
        loose = [e for e in loose if e.order < r0]
    if not loose:
        return True, "work only where the check returned Ok (match / if let on its result)"
    return False, loose[0]



ENTRY_TRAITS = ("Fit", "FitWith", "Transformer", "Predict", "PredictInplace")


def rule_dom(ctx):
    res = RuleResult("R-C04-dom", "every fit/fit_with/transform entry point on an unchecked builder is dominated by check_ref/check and returns its error")
    F = ctx.facts()
    impls = guard_impls(F)
    builders = set(impls)
    entries = []
    for fn in F.all_fns():
        d = fn["d"]
        if d["name"] in ("check", "check_ref", "check_unwrap"):
            continue
        tr_name = (d.get("trait") or "").split("::")[-1]
        st = (d.get("self_adt") or "").split("::")[-1]
        blanket = d.get("pk") == "impl" and d["krate"] == "linfa" and d.get("self_ty") == "P" and tr_name in ENTRY_TRAITS
        returns_self = fn["output"].split("<")[0] == (d.get("self_adt") or "\0") or fn["output"] == d.get("self_ty")
        on_builder = st in builders and fn["vis"] == "pub" and not returns_self and (
            tr_name in ENTRY_TRAITS or (not d.get("trait") and re.match(r"^(fit|transform|predict)(_\w+)?$", d["name"]) is not None))
        if blanket or on_builder:
            entries.append(fn)
    PLUMBING = DOM_PLUMBING

    for fn in entries:
        key = fn_key(fn)
        tr = Tracer(fn).run()
        res.instance(key)
        calls = [e for e in tr.events if e.kind == "call" and e.name not in ("branch", "from_residual")]
        chk = [e for e in calls if e.name in ("check_ref", "check") and e.recv is not None and k(e.recv) == "param:self"]
        if not chk:
            # the check may sit in a private helper of the same crate that receives self (and possibly the work as a
            # closure): expand such helpers in place and look again
            tr2 = Tracer(fn, inline=ctx.inliner()).run()
            calls2 = [e for e in tr2.events if e.kind == "call" and e.name not in ("branch", "from_residual")]
            chk2 = [e for e in calls2 if e.name in ("check_ref", "check") and e.recv is not None and k(e.recv) == "param:self"]
            if chk2:
                c0 = chk2[0]
                before2 = [e for e in calls2 if e.order < c0.order and e.closure_depth == 0 and e.name not in PLUMBING]
                ok2, how2 = dominated(tr2, c0)
                if ok2 and not before2:
                    res.ok()
                    res.sample({"entry": key, "shape": "through a private helper: " + how2})
                else:
                    res.undecided("%s : helper-shape" % key, "the check sits in a helper whose shape (check first, then the work) could not be confirmed", fn_loc(fn))
                continue
            res.violate("%s : no-check" % key, "entry point on an unchecked builder never calls check_ref/check on self", fn_loc(fn))
            continue
        c0 = chk[0]
        before = [e for e in calls if e.order < c0.order]
        if before:
            res.violate("%s : work-before-check" % key, "calls %s before the parameters are checked" % sorted(set(e.name for e in before)), fn_loc(fn, before[0].node["ln"]))
            continue
        ok, how = dominated(tr, c0)
        if ok:
            res.ok()
            res.sample({"entry": key, "shape": how})
        else:
            res.violate("%s : not-dominated" % key, "`%s` runs although the check may have failed: it is neither after `check_ref()?`, nor inside `check_ref().map/and_then(..)`, nor in the Ok arm of a match on the check's result" % how.name, fn_loc(fn, how.node.get("ln")))
    return res.finish(8)


def strip_projections(s):
    """Remove qualified projections `<T as Trait>::Assoc` from a type string (they name associated
    types, not values of T)."""
    out = ""
    i = 0
    while i < len(s):
        if s[i] == "<" and (i == 0 or not (s[i - 1].isalnum() or s[i - 1] in "_>")):
            depth, j = 0, i
            while j < len(s):
                if s[j] == "<":
                    depth += 1
                elif s[j] == ">" and s[j - 1] != "-":
                    depth -= 1
                    if depth == 0:
                        break
                j += 1
            inner = s[i + 1:j]
            if " as " in inner:
                m = re.match(r"::\w+", s[j + 1:])
                i = j + 1 + (m.end() if m else 0)
                out += "PROJ"
                continue
        out += s[i]
        i += 1
    return out


def rule_forge(ctx):
    res = RuleResult("R-C04-forge", "checked parameter types cannot be constructed from caller-supplied values outside ParamGuard::check/check_ref")
    F = ctx.facts()
    impls = guard_impls(F)
    # Checked type of each builder = type of Ok payload of check: read from check's output type
    checked = {}
    for b, fns in impls.items():
        if "check" in fns:
            fn = fns["check"]
            # the returned projection's type
            tr = Tracer(fn).run()
            rv = as_term(tr.result)
            if rv is not None and rv.is_call("Ok") and rv.node is not None:
                arg = rv.node["args"][0]
                ty = fn["crate"].ty(arg.get("t"))
                checked[b] = ty.split("<")[0]
    adts = {}
    for c in F.crates.values():
        for a in c.adts:
            adts[(c.name, a["path"])] = a
    for b, ty in sorted(checked.items()):
        fn = impls[b]["check"]
        crate = fn["crate"]
        a = adts.get((crate.name, ty))
        if a is None:
            # tuple / primitive checked types are not forgeable concerns; fail closed only when it is an ADT we cannot find
            res.undecided("%s : checked-type-not-found" % b, "checked type %s of %s not found among the crate's ADTs" % (ty, b), fn_loc(fn))
            continue
        res.instance("%s -> %s : fields" % (b, ty.split("::")[-1]))
        pub_fields = [f["name"] for v in a["variants"] for f in v["fields"] if f["vis"] == "pub"]
        if a["kind"] == "struct" and pub_fields:
            res.violate("%s : pub-field:%s" % (ty.split("::")[-1], ",".join(pub_fields)), "checked type %s has public fields %s: it can be built or altered without check()" % (ty, pub_fields), "%s:%d" % (crate.files[a["file"]], a["line"]))
        else:
            res.ok()
        # public functions returning the checked type by value
        short = ty.split("::")[-1]
        for g in crate.fns:
            d = g["d"]
            if g["vis"] != "pub":
                continue
            out = strip_projections(g["output"])
            if not re.search(r"(^|[^\w&])%s(<|$|,|\)|>)" % re.escape(ty), out.replace("&" + ty, "").replace("&'a " + ty, "")):
                continue
            if re.match(r"^&", out.strip()):
                continue
            tname = (d.get("trait") or "").split("::")[-1]
            if tname in ("ParamGuard", "Clone", "Default", "Deserialize", "Deserializer", "Visitor") or d["name"] in ("clone",):
                if tname == "Default":
                    res.info.append("%s: Default impl builds the checked type from constants (accepted when inside the region; see defaults rule)" % short)
                continue
            if "Result<" in out and tname == "":
                pass
            # does it take caller-supplied values?
            res.instance("%s : pub fn %s returns %s" % (b, fn_key(g), short))
            if out.startswith("std::result::Result<") and d["name"] in ("check",):
                continue
            res.violate("%s : pub-constructor:%s" % (short, fn_key(g)), "public function %s returns the checked type %s by value outside ParamGuard" % (fn_key(g), short), fn_loc(g))
    return res.finish(23)


def rule_default(ctx):
    res = RuleResult("R-C04-default", "every constant a constructor stores into a checked parameter struct lies inside the accepted region of that parameter")
    F = ctx.facts()
    impls = guard_impls(F)
    for builder in sorted(impls):
        fns = impls[builder]
        if "check_ref" not in fns or "check" not in fns or builder not in TABLE:
            continue
        try:
            regions, rel, opaque, wit = analyse_check_ref(fns["check_ref"], builder, TABLE[builder])
        except Unclassified:
            continue
        tr = Tracer(fns["check"]).run()
        rv = as_term(tr.result)
        if rv is None or not rv.is_call("Ok") or rv.node is None:
            continue
        vty = fns["check"]["crate"].ty(rv.node["args"][0].get("t")).split("<")[0]
        crate = fns["check"]["crate"]
        for g in crate.fns:
            gd = Guard(g, "\0", {}, False)
            for n in walk(g["body"]):
                if n.get("k") != "Struct":
                    continue
                d = crate.dfn(n.get("def"))
                if not d or not (d["path"] == vty or d["path"].endswith("::" + vty.split("::")[-1])):
                    continue
                for f in n["fields"]:
                    if f["name"] not in regions:
                        continue
                    c = gd.const_of(f["e"])
                    if c is None:
                        continue
                    got, integer, ty = regions[f["name"]]
                    inst = "%s : %s = %s in %s" % (builder, f["name"], c, fn_key(g))
                    res.instance(inst)
                    if got.contains(c):
                        res.ok()
                        res.sample({"builder": builder, "param": f["name"], "default": str(c), "accepted": repr(got)})
                    else:
                        res.violate("%s : default-outside-range:%s" % (builder, f["name"]), "%s stores %s into `%s`, outside the accepted region %s: the default builder does not pass its own check" % (fn_key(g), c, f["name"], got), fn_loc(g, n.get("ln")))
    return res.finish(20)


VALUE_CHANGING = {"filter", "max", "min", "clamp", "abs", "round", "floor", "ceil", "trunc", "rem", "rem_euclid", "pow", "powi", "powf", "sqrt", "recip", "signum",
                  "saturating_sub", "saturating_add", "wrapping_sub", "wrapping_add", "checked_sub", "checked_add", "take", "skip", "truncate", "retain", "dedup", "sort", "and_then",
                  "next_power_of_two", "exp", "ln", "neg", "not",
                  "to_lowercase", "to_uppercase", "to_ascii_lowercase", "to_ascii_uppercase", "make_ascii_lowercase", "make_ascii_uppercase", "trim", "trim_start", "trim_end",
                  "trim_matches", "replace", "replacen", "nfkd", "nfkc", "nfc", "nfd", "strip_prefix", "strip_suffix", "rev", "sort_unstable", "sort_by", "sort_by_key", "reverse"}


def builder_methods(F, impls):
    """inherent methods of the ParamGuard builders that take self by value: (builder, fn)"""
    out = []
    for fn in F.all_fns():
        d = fn["d"]
        adt = (d.get("self_adt") or "").split("::")[-1]
        if adt in impls and not d.get("trait") and fn["params"] and fn["params"][0].get("name") == "self" and "&" not in (fn["inputs"][0] if fn.get("inputs") else ""):
            out.append((adt, fn))
    return out


def _assigned_fields(fn):
    """[(field path below self.0, value node)] for every `self.0.<..> = value` in a setter"""
    out = []
    for x in walk(fn["body"]):
        if x.get("k") == "Assign":
            l = strip(x["l"])
            names = []
            while l.get("k") == "Field":
                names.insert(0, l["name"])
                l = strip(l["e"])
            if l.get("k") == "Path" and l.get("name") == "self" and names and names[0] == "0":
                out.append((".".join(n_ for n_ in names if n_ != "0"), x["r"], x))
    return out


def _destructures(m):
    """a match that only takes an enum value apart: every arm pattern is a variant / binding / wildcard, no guards, no literals"""
    def ok(p):
        k_ = p.get("k")
        if k_ in ("Ref", "Box"):
            return ok(p["pat"])
        if k_ in ("Bind", "Wild", "Path"):
            return True
        if k_ in ("TupleStruct", "Tuple"):
            return all(ok(q) for q in p.get("pats", []))
        if k_ == "Struct":
            return all(ok(f_["pat"]) for f_ in p.get("fields", []))
        if k_ == "Or":
            return all(ok(q) for q in p.get("pats", []))
        return False
    return all(not a.get("guard") and ok(a["pat"]) for a in m["arms"])


def rule_setter(ctx, rid="R-C04-setter", only=None, floor=60):
    """What the check judges is what the caller set: a builder method stores the value it was given (possibly wrapped:
    Some(v), a tuple / variant of its arguments, v.to_string(), an element-wise conversion) - it does not clamp, filter,
    round or otherwise replace it, because the range check would then accept or reject a value the caller never passed."""
    res = RuleResult(rid, "every builder method stores its arguments unchanged (no clamp / filter / rounding / case folding / arithmetic between the argument and the stored field)%s" % ("" if only is None else " [%s]" % ", ".join(sorted(only))))
    F = ctx.facts()
    impls = guard_impls(F)
    n = 0
    for adt, fn in builder_methods(F, impls):
        if only is not None and adt not in only:
            continue
        c = fn["crate"]
        params = set(b["local"] for p_ in fn["params"][1:] for b in pat_bindings(p_))
        # the elements of an argument that is mapped over are the argument too: `words.iter().map(|t| t.to_string().to_lowercase())`
        grew = True
        while grew:
            grew = False
            for y in walk(fn["body"]):
                if y.get("k") == "MethodCall" and y["args"] and any(z.get("k") == "Path" and z.get("local") in params for z in walk(y["recv"])):
                    for a in y["args"]:
                        a0 = strip(a)
                        if a0.get("k") == "Closure":
                            for b in (b for p_ in a0["params"] for b in pat_bindings(p_)):
                                if b["local"] not in params:
                                    params.add(b["local"])
                                    grew = True
        # a local computed from an argument (`let max_distance = match self.0.method { Ward => max_distance * max_distance, _ => max_distance };`)
        # is the argument as far as "stored unchanged" goes: its initialiser is read together with the stored expression
        derived = {}
        for y in walk(fn["body"]):
            if y.get("k") == "LetStmt" and y.get("init") is not None and y["pat"].get("k") == "Bind" and any(z.get("k") == "Path" and z.get("local") in params for z in walk(y["init"])):
                derived[y["pat"]["local"]] = y["init"]
        for fld, val, node in _assigned_fields(fn):
            n += 1
            key = "%s : %s" % (fn_key(fn), fld)
            res.instance(key)
            bad = None
            exprs, seen_d = [val], set()
            for e_ in exprs:
                for y in walk(e_):
                    if y.get("k") == "Path" and y.get("local") in derived and y["local"] not in seen_d:
                        seen_d.add(y["local"])
                        exprs.append(derived[y["local"]])
            for y in (z for e_ in exprs for z in walk(e_)):
                if y.get("k") == "MethodCall" and y["name"] in VALUE_CHANGING and any(z.get("k") == "Path" and z.get("local") in params for z in walk(y["recv"])):
                    bad = "`.%s(..)`" % y["name"]
                    break
                if y.get("k") == "Binary" and y["op"] in ("+", "-", "*", "/", "%") and any(z.get("k") == "Path" and z.get("local") in params for z in walk(y)):
                    bad = "arithmetic `%s`" % y["op"]
                    break
                if y.get("k") in ("If", "Match") and y.get("src", "Normal") == "Normal" and any(z.get("k") == "Path" and z.get("local") in params for z in walk(y.get("c") or y.get("scrut"))):
                    if y.get("k") == "Match" and _destructures(y):
                        continue        # `match tokenizer { Function(fp) => Some(fp), Regex(..) => None }`: the argument taken apart by variant
                    bad = "a branch on the argument"
                    break
            if bad:
                res.violate("%s : setter-changes-value" % key, "the builder method `%s` passes its argument through %s before storing it in `%s`: the value that is checked and used is not the one the caller set" % (fn["d"]["name"], bad, fld), fn_loc(fn, node["ln"]))
            else:
                res.ok()
    if n < floor:
        res.missing_anchor("builder setters (found %d assignments)" % n)
    return res.finish(floor)


def make_setter_value_rule(rid, only, floor):
    def rule(ctx):
        return rule_setter(ctx, rid=rid, only=set(only), floor=floor)
    rule.__name__ = "rule_setter_" + rid.split("-")[1].lower()
    return rule


def rule_carry(ctx, rid="R-C04-carry", only=None, floor=2):
    """A builder method that rebuilds the parameter set (because a type parameter changes: with_rng) carries every field
    over: a field that is not copied from `self` silently falls back to a default, and an invalid value set before the
    call is no longer there to be rejected."""
    res = RuleResult(rid, "builder methods that rebuild the parameter struct copy every field from self (or set it from their own arguments)%s" % ("" if only is None else " [%s]" % ", ".join(sorted(only))))
    F = ctx.facts()
    impls = guard_impls(F)
    adts = {}
    for c in F.crates.values():
        for a in c.adts:
            adts[a["path"].split("::")[-1]] = a
            adts[(c.name, a["path"])] = a
    methods = builder_methods(F, impls)
    by_name = {}
    ctor = {}
    for fn in F.all_fns():
        d = fn["d"]
        adt = (d.get("self_adt") or "").split("::")[-1]
        if adt in impls and not d.get("trait"):
            by_name.setdefault((adt, d["name"]), fn)
    n = 0
    nseen = 0
    for adt, fn in methods:
        if only is not None and adt not in only:
            continue
        nseen += 1
        c = fn["crate"]
        body = strip(fn["body"])
        tail = strip(body["e"]) if body.get("k") == "Block" and body.get("e") is not None else body
        if tail.get("k") == "Path" and tail.get("name") == "self":
            if only is not None:
                res.instance("%s : returns self" % fn_key(fn))
                res.ok()
            continue
        if (fn["params"][0].get("mode") or "").endswith("Mut)"):
            continue
        out_ty = fn.get("output") or ""
        if adt not in out_ty:
            continue
        n += 1
        key = fn_key(fn)
        params = set(b["local"] for p_ in fn["params"][1:] for b in pat_bindings(p_))

        aliases = set()
        destructured = {}     # local bound by `let Valid { n_clusters, covar_type: ct, .. } = self.0;` -> field name
        for y in walk(fn["body"]):
            if y.get("k") == "LetStmt" and y.get("init") is not None and y["pat"].get("k") in ("Struct", "TupleStruct"):
                i0 = peel_refs(y["init"])
                t0 = i0
                while t0.get("k") == "Field":
                    t0 = peel_refs(t0["e"])
                if t0.get("k") == "Path" and t0.get("name") == "self":
                    pats = [y["pat"]]
                    while pats:
                        q = pats.pop()
                        if q.get("k") == "Struct":
                            for f_ in q["fields"]:
                                bs_ = list(pat_bindings(f_["pat"]))
                                if f_["pat"].get("k") == "Bind" and len(bs_) == 1:
                                    destructured[bs_[0]["local"]] = f_["name"]
                                else:
                                    pats.append(f_["pat"])
                        elif q.get("k") == "TupleStruct":
                            if len(q.get("pats") or []) == 1 and q["pats"][0].get("k") == "Bind" and i0.get("k") == "Path":
                                aliases.add(q["pats"][0]["local"])      # `let Params(current) = self;`: current is self.0
                            pats.extend(q.get("pats") or [])

        def provenance(e):
            """('self', field) / ('arg', None) / ('other', text)"""
            e0 = peel_refs(e)
            if e0.get("k") == "Path" and e0.get("local") in destructured:
                return ("self", destructured[e0["local"]])
            if e0.get("k") == "Path" and e0.get("local") in aliases:
                return ("self", "")
            names = []
            t = e0
            while t.get("k") == "Field":
                names.insert(0, t["name"])
                t = peel_refs(t["e"])
            if t.get("k") == "Path" and t.get("local") in aliases and names:
                return ("self", ".".join(names))
            if t.get("k") == "Path" and t.get("name") == "self" and names and names[0] == "0":
                return ("self", ".".join(x for x in names if x != "0"))
            if any(z.get("k") == "Path" and z.get("local") in params for z in walk(e0)):
                return ("arg", None)
            if e0.get("k") == "Path" and "def" in e0 and (c.dfn(e0["def"]) or {}).get("name") == "None":
                return ("none", "None")
            return ("other", Render(c).e(e0)[:40])
        carried = {}     # field -> provenance
        lits = [x for x in walk(tail) if x.get("k") == "Struct" and x.get("fields")]
        chain = []
        t = tail
        while t.get("k") == "MethodCall":
            chain.insert(0, t)
            t = strip(t["recv"])
        if lits and not chain:
            lit = lits[0]
            for f in lit["fields"]:
                carried[f["name"]] = provenance(f["e"])
            if lit.get("base") is not None:
                carried["<base>"] = provenance(lit["base"])
            valid = adts.get((c.dfn(lit.get("def")) or {}).get("path", "").split("::")[-1])
        elif t.get("k") == "Call":
            # constructor + setters
            f0 = strip(t["f"])
            d0 = c.dfn(f0.get("def")) if f0.get("k") == "Path" else None
            g = by_name.get((adt, d0["name"])) if d0 else None
            if g is None:
                res.instance(key)
                res.undecided("%s : rebuild-form" % key, "the constructor this method rebuilds the parameters with was not found", fn_loc(fn))
                continue
            glits = [x for x in walk(g["body"]) if x.get("k") == "Struct" and x.get("fields")]
            if not glits:
                res.instance(key)
                res.undecided("%s : rebuild-form" % key, "constructor %s does not build the parameter struct with a literal" % g["d"]["name"], fn_loc(fn))
                continue
            gparams = [b["local"] for p_ in g["params"] for b in pat_bindings(p_)]
            valid = adts.get((g["crate"].dfn(glits[0].get("def")) or {}).get("path", "").split("::")[-1])
            for f in glits[0]["fields"]:
                v = peel_refs(f["e"])
                if v.get("k") == "Path" and v.get("local") in gparams and gparams.index(v["local"]) < len(t["args"]):
                    carried[f["name"]] = provenance(t["args"][gparams.index(v["local"])])
                else:
                    carried[f["name"]] = ("default", Render(g["crate"]).e(v)[:30])
            for call in chain:
                sg = by_name.get((adt, call["name"]))
                if sg is None:
                    continue
                sparams = [b["local"] for p_ in sg["params"][1:] for b in pat_bindings(p_)]
                for fld, val, _ in _assigned_fields(sg):
                    v = peel_refs(val)
                    src = None
                    for z in walk(v):
                        if z.get("k") == "Path" and z.get("local") in sparams and sparams.index(z["local"]) < len(call["args"]):
                            src = call["args"][sparams.index(z["local"])]
                    carried[fld] = provenance(src) if src is not None else ("other", "constant")
        else:
            res.instance(key)
            res.undecided("%s : rebuild-form" % key, "the way this method rebuilds the parameter set was not understood", fn_loc(fn))
            continue
        if valid is None:
            res.instance(key)
            res.undecided("%s : valid-struct" % key, "the checked parameter struct was not found", fn_loc(fn))
            continue
        for v_ in valid["variants"]:
            for f in v_["fields"]:
                fname = f["name"]
                if "PhantomData" in (f.get("ty") or ""):
                    continue
                res.instance("%s : field %s" % (key, fname))
                pv = carried.get(fname)
                if pv is None and "<base>" in carried and carried["<base>"][0] == "self":
                    res.ok()
                elif pv is None or pv[0] == "default":
                    res.violate("%s : field-reset:%s" % (key, fname), "`%s` rebuilds the parameter set without carrying `%s` over from self: the field falls back to %s, so a value set before the call (valid or not) is silently lost" % (fn["d"]["name"], fname, pv[1] if pv else "a default"), fn_loc(fn))
                elif pv[0] == "none" and any(v[0] == "arg" for v in carried.values()):
                    res.ok()        # mode switch: one alternative is set from the argument, the other one cleared
                elif pv[0] == "none":
                    res.violate("%s : field-reset:%s" % (key, fname), "`%s` rebuilds the parameter set with `%s` = None instead of the value held by self" % (fn["d"]["name"], fname), fn_loc(fn))
                elif pv[0] == "self" and pv[1] != fname:
                    res.violate("%s : field-from-other-field:%s" % (key, fname), "`%s` is rebuilt from `self.%s`" % (fname, pv[1]), fn_loc(fn))
                elif pv[0] == "other":
                    res.violate("%s : field-reset:%s" % (key, fname), "`%s` rebuilds the parameter set with `%s` = %s instead of the value held by self" % (fn["d"]["name"], fname, pv[1]), fn_loc(fn))
                else:
                    res.ok()
    if only is None and n < 2:
        res.missing_anchor("rebuilding builder methods (with_rng of GmmParams and RandomProjectionParams; found %d)" % n)
    if only is not None and nseen < floor:
        res.missing_anchor("builder methods of %s (found %d)" % (", ".join(sorted(only)), nseen))
    return res.finish(floor)


def make_carry_rule(rid, only, floor):
    def rule(ctx):
        return rule_carry(ctx, rid=rid, only=set(only), floor=floor)
    rule.__name__ = "rule_carry_" + rid.split("-")[1].lower()
    return rule


ALL_CRATES = {"linfa", "linfa_bayes", "linfa_clustering", "linfa_elasticnet", "linfa_ftrl", "linfa_hierarchical", "linfa_ica", "linfa_kernel", "linfa_linear", "linfa_logistic",
              "linfa_nn", "linfa_pls", "linfa_preprocessing", "linfa_reduction", "linfa_svm", "linfa_trees", "linfa_tsne", "linfa_datasets"}


def c19_regex_default():
    from .c19 import make_regex_text_rule
    return make_regex_text_rule("R-C04-regextext", "default")


def rule_from(ctx):
    """`fit` on an unchecked parameter set returns *the check's error*, converted through `E: From<P::Error>`.  An error enum
    that has a variant made to hold the parameter error (`InvalidParams(KMeansParamsError)`) keeps it there: a hand-written
    `From` that turns it into something else (a string inside another variant) makes `fit` report another error than `check`
    - and another one than the sibling error types that still wrap it."""
    res = RuleResult("R-C04-from", "a hand-written `From<A> for B` whose target enum has a variant holding an `A` builds that variant")
    F = ctx.facts()
    idx = {}
    for c in F.crates.values():
        for a in c.adts:
            idx[a["path"].split("::")[-1]] = a

    def short_ty(t):
        t = (t or "").strip().lstrip("&").strip()
        return t.split("<")[0].split("::")[-1]
    n = 0
    for fn in F.all_fns():
        d = fn["d"]
        if d["name"] != "from" or not (d.get("trait") or "").endswith("From") or "tests" in d["path"] or not d.get("self_adt"):
            continue
        if not fn["inputs"]:
            continue
        src_ty = short_ty(fn["inputs"][0])
        tgt = idx.get(short_ty(d["self_adt"]))
        if tgt is None or len(tgt.get("variants") or []) < 2:
            continue
        holders = [v["name"] for v in tgt["variants"] if len(v["fields"]) == 1 and short_ty(v["fields"][0].get("ty")) == src_ty]
        if not holders:
            continue
        n += 1
        c = fn["crate"]
        key = fn_key(fn)
        res.instance("%s : %s -> %s::%s" % (key, src_ty, short_ty(d["self_adt"]), "/".join(holders)))
        if fn.get("exp"):
            res.ok()          # generated (thiserror's #[from]): wraps by construction
            continue
        built = set()
        for y in walk(fn["body"]):
            if y.get("k") == "Call" and strip(y["f"]).get("k") == "Path":
                dd = c.dfn(strip(y["f"]).get("def")) or {}
                if str(dd.get("kind", "")).startswith("Ctor"):
                    built.add(dd.get("name"))
        if built & set(holders):
            res.ok()
        elif built:
            res.violate("%s : from-bypasses-wrapping-variant:%s" % (key, holders[0]), "`%s` has the variant `%s` for a `%s`, but this conversion builds `%s`: the error a caller gets from `fit` is no longer the error `check` returns" % (short_ty(d["self_adt"]), holders[0], src_ty, sorted(built)[0]), fn_loc(fn))
        else:
            res.undecided("%s : from-body" % key, "what the conversion builds was not recognised (fail closed)", fn_loc(fn))
    if n < 5:
        res.missing_anchor("From impls into error enums with a wrapping variant (found %d)" % n)
    return res.finish(5)


def _shortcut_rule():
    from . import shortcut
    return shortcut.make_rule("R-C04-shortcut", ALL_CRATES, 15)


def rules(tier):
    from . import carry
    return [rule_range, rule_same, rule_dom, rule_forge, rule_default, rule_setter, rule_carry,
            c19_regex_default(),
            carry.make_clone_rule("R-C04-clone", ALL_CRATES, 40), carry.make_setter_rule("R-C04-override", ALL_CRATES, 60),
            carry.make_accessor_rule("R-C04-accessor", ALL_CRATES, 80), carry.make_ctor_rule("R-C04-ctor", ALL_CRATES, 30),
            _shortcut_rule(), rule_from]
