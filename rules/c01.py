"""C01 — k-fold splitting: structural clauses (see DESIGN.md section 4, C01)."""
import re

from .core import RuleResult
from .facts import fn_key, fn_loc, walk, strip, peel_refs, pat_bindings, Render
from .sym import Tracer, Slice, Poly, Term, Tup, k, as_poly, as_term, walk_terms

LEVEL = ("Static analysis (typed-HIR symbolic value numbering) of DatasetBase::{iter_fold, fold, cross_validate, "
         "cross_validate_single} and ChunksIter::next: the in-place block permutation around the user closure is paired "
         "and undone on every path, records/targets are permuted and sliced with the same sample-space operands, the "
         "fold size derives from a sample count, scores are accumulated once per (fold, model) and divided by k, "
         "fit/eval errors are propagated. Decides these necessary structural conditions for all (n, k) at once; "
         "does not decide numeric block boundaries or multiset equality of rows.")
ASSUME = ["rustc name/type resolution and HIR construction", "linfa-facts driver dumps HIR faithfully",
          "ndarray slice/split/swap primitives behave as documented"]

SLICE_READONLY = {"split_at", "split_at_mut", "len", "iter", "get", "first", "last", "to_vec", "is_empty", "as_ptr",
                  "chunks", "windows", "iter_mut", "as_mut_ptr", "to_owned", "into", "unwrap", "expect", "clone"}
SELECTION = {"axis_chunks_iter", "axis_chunks_iter_mut", "concatenate", "swap", "select", "split_at", "slice", "slice_mut",
             "slice_axis_inplace", "slice_axis", "slice_axis_mut", "index_axis", "index_axis_move", "index_axis_mut",
             "collapse_axis", "split_off", "truncate", "index", "slice_move", "slice_collapse", "remove_index",
             "exact_chunks", "axis_iter", "skip", "take", "step_by", "rev"}


def contains(v, pred):
    for t in walk_terms(v):
        if isinstance(t, Term) and pred(t):
            return True
    return False


def is_self_field(t, name):
    return t.op == "field:" + name and t.args and isinstance(t.args[0], Term) and t.args[0].op == "param:self"


def family(v):
    """'records' / 'targets' / None: which of the dataset's parallel containers a value derives from."""
    # follow the receiver spine only (first operand): scalar operands such as a fold size may
    # legitimately be computed from the other container
    seen = 0
    while v is not None and seen < 40:
        seen += 1
        if isinstance(v, Slice):
            v = v.root_term
            continue
        if isinstance(v, Poly):
            v = v.single_term()
            continue
        if not isinstance(v, Term):
            return None
        if is_self_field(v, "records") or (v.is_call("records") and v.args and k(v.args[0]) == "param:self"):
            return "records"
        if is_self_field(v, "targets") or (v.is_call("as_targets", "as_targets_mut", "targets") and v.args and k(v.args[0]) == "param:self"):
            return "targets"
        v = v.args[0] if v.args else None
    return None


def the_fn(res, F, name, adt, krate="linfa", trait=None):
    fns = F.find_fns(name=name, self_adt=adt, krate=krate, trait=trait)
    if not fns:
        res.missing_anchor("%s::%s" % (adt, name))
    return fns


def slice_mutations(tr):
    """Events that may permute/overwrite a raw-buffer slice."""
    out = []
    for e in tr.events:
        if e.kind == "call" and isinstance(e.recv, Slice) and e.name not in SLICE_READONLY:
            out.append(e)
        elif e.kind in ("assign", "assignop") and e.lhs.startswith("slice("):
            out.append(e)
    return out


def gkey(e):
    return tuple((g[0], g[1]) for g in e.guards)


def _user_closure_in_local_closure(fn):
    """the user's closure (a parameter) is called from inside a closure defined in the function (`let fit_on_tail = |..| fit_closure(..)`):
    the tracer records that call once, at the definition, outside every loop - the order of events it reports is not the
    order of execution"""
    from .facts import pat_bindings as _pb, walk as _w, strip as _s
    pids = {b["local"] for p_ in fn["params"] for b in _pb(p_)}
    for y in _w(fn["body"]):
        if y.get("k") == "Closure":
            for z in _w(y["body"]):
                if z.get("k") == "Call" and _s(z["f"]).get("k") == "Path" and _s(z["f"]).get("local") in pids:
                    return True
    return False


def rule_pair(ctx):
    res = RuleResult("R-C01-pair", "in-place block swaps before the user closure are undone after it on every path (iter_fold)")
    F = ctx.facts()
    for fn in the_fn(res, F, "iter_fold", "DatasetBase"):
        tr = Tracer(fn, inline=ctx.inliner()).run()
        key = fn_key(fn)
        if _user_closure_in_local_closure(fn):
            res.instance("%s : call of the closure parameter" % key)
            res.undecided("%s : closure-call-in-local-closure" % key, "the user's closure is called through a closure defined in the function: where that runs relative to the swaps is not modelled (fail closed)", fn_loc(fn))
            continue
        ccalls = [e for e in tr.events if e.kind == "call" and e.callee_local in tr.param_locals]
        if len(ccalls) != 1:
            res.undecided("%s : closure-call" % key, "expected exactly one call of the user closure, found %d" % len(ccalls), fn_loc(fn))
            continue
        cc = ccalls[0]
        res.instance("%s : call of closure parameter `%s`" % (key, tr.param_locals[cc.callee_local]))
        loop = cc.loops[-1][1] if cc.loops else None
        muts = slice_mutations(tr)
        pre, post = [], []
        outside = []
        for e in muts:
            same_loop = (e.loops[-1][1] is loop) if (e.loops and loop is not None) else (not e.loops and loop is None)
            if e.kind == "call" and e.name == "swap_with_slice" and len(e.args) == 1 and isinstance(e.args[0], Slice):
                op = ("swap", frozenset([e.recv.key(), e.args[0].key()]), gkey(e), e.recv.root)
                res.instance("%s : swap %s <-> %s guard=%s" % (key, e.recv.key(), e.args[0].key(), [g for _, g in gkey(e)]))
                res.sample({"fn": key, "swap": sorted(op[1]), "guard": [g for _, g in gkey(e)], "side": "pre" if e.order < cc.order else "post"})
                if not same_loop:
                    # a swap outside the iteration that calls the closure belongs to another protocol than "exchange before the
                    # fit, exchange back after it" (a carried arrangement that is restored once after the loop): whether that
                    # protocol restores the buffers is not what this rule models
                    outside.append(e)
                    continue
                (pre if e.order < cc.order else post).append(op)
            else:
                what = e.name if e.kind == "call" else "element assignment"
                res.violate("%s : unclassified-mutation:%s" % (key, what),
                            "raw buffer of records/targets is mutated by `%s`, an idiom this rule cannot pair (fail closed)" % what,
                            fn_loc(fn, e.node["ln"]))
        if outside:
            res.undecided("%s : swap-outside-iteration" % key, "buffer swaps outside the fold iteration that calls the closure: another restoration protocol than the per-iteration exchange, not modelled (fail closed)", fn_loc(fn, outside[0].node["ln"]))
            continue
        if not pre:
            res.undecided("%s : no-permutation" % key, "no in-place permutation found before the closure call", fn_loc(fn))
        # pairing: per storage root, the post sequence must be the reverse of the pre sequence
        roots = sorted(set(o[3] for o in pre + post))
        for r in roots:
            a = [o[:3] for o in pre if o[3] == r]
            b = [o[:3] for o in post if o[3] == r]
            if a == list(reversed(b)):
                res.ok()
            else:
                res.violate("%s : unpaired:%s" % (key, short_root(r)),
                            "swaps on %s before the closure call are not undone after it: pre=%s post=%s" % (
                                short_root(r), [sorted(x[1]) for x in a], [sorted(x[1]) for x in b]), fn_loc(fn))
        # no early exit between the closure call and the end of the iteration
        last = max([e.order for e in muts] + [cc.order])
        first = min([e.order for e in muts] + [cc.order])
        for e in tr.events:
            if e.kind in ("ret", "break", "continue", "try") and first < e.order < last:
                res.violate("%s : early-exit:%s" % (key, e.kind), "`%s` between permutation and restoration" % e.kind, fn_loc(fn, e.node["ln"]))
        res.ok()
    return res.finish(5)


def short_root(r):
    m = re.search(r"field:(\w+)", r)
    return m.group(1) if m else r[:40]


def width_atom(fam):
    return "call:nfeatures(param:self)" if fam == "records" else "call:ntargets(param:self)"


def rows_of(p, fam):
    """Divide a raw-buffer length/offset by the container's per-row width; None if not a multiple."""
    if p is None:
        return None
    if not p.t:
        return p
    return p.divide_by_atom(width_atom(fam))


def norm_key(s, tr=None):
    s = re.sub(r"@\d+", "@", s)
    s = re.sub(r"mut:\w+\.", "mut:", s)
    s = re.sub(r"local:\w+#\d+", "local", s)
    s = re.sub(r"field:records\(param:self\)|call:records\(param:self\)", "ROOT", s)
    s = re.sub(r"call:as_targets(_mut)?\(field:targets\(param:self\)\)|call:as_targets(_mut)?\(param:self\)|field:targets\(param:self\)|call:targets\(param:self\)", "ROOT", s)
    s = s.replace("call:nfeatures(param:self)", "WIDTH").replace("call:ntargets(param:self)", "WIDTH")
    return s


def family_sequences(tr):
    """Per family, the ordered list of selection operations (name + normalised operands)."""
    seqs = {"records": [], "targets": []}
    for e in tr.events:
        if e.kind == "call" and e.name in SELECTION:
            vals = ([e.recv] if e.recv is not None else []) + list(e.args)
            fam = None
            for v in vals:
                fam = fam or (family(v) if v is not None else None)
            # an adaptor applied to the zip of both containers' sequences (`a.chunks().zip(b.chunks()).take(k)`) selects
            # from both at once
            both = False
            spine = vals[0] if vals else None
            hops = 0
            while isinstance(spine, Term) and hops < 12:
                hops += 1
                if spine.is_call("zip") and len(spine.args) == 2:
                    fa, fb = family(spine.args[0]), family(spine.args[1])
                    if fa and fb and fa != fb:
                        both = True
                    break
                spine = spine.args[0] if spine.args else None
            if both:
                for f_ in ("records", "targets"):
                    seqs[f_].append((e.name, tuple(norm_key(k(v)) for v in vals), e))
            elif fam:
                seqs[fam].append((e.name, tuple(norm_key(k(v)) for v in vals), e))
        elif e.kind == "index":
            fam = family(e.base)
            if fam:
                seqs[fam].append(("index", (norm_key(k(e.base)), norm_key(k(e.idx))), e))
    return seqs


def rule_agree(ctx):
    res = RuleResult("R-C01-agree", "records and targets are permuted / chunked / sliced with the same sample-space operands")
    F = ctx.facts()
    # (a) iter_fold: raw-buffer regions, normalised by the per-row width of their container
    for fn in the_fn(res, F, "iter_fold", "DatasetBase"):
        tr = Tracer(fn, inline=ctx.inliner()).run()
        key = fn_key(fn)
        per = {"records": [], "targets": []}
        for e in tr.events:
            if e.kind != "call":
                continue
            regs = []
            if isinstance(e.recv, Slice) and e.name in ("split_at", "split_at_mut", "swap_with_slice"):
                regs.append(e.recv)
                regs.extend(a for a in e.args if isinstance(a, Slice))
                extra = [as_poly(a) for a in e.args if not isinstance(a, Slice)]
            else:
                continue
            fam = family(regs[0].root_term)
            if fam is None:
                res.undecided("%s : unknown-root" % key, "slice operation on a buffer that is neither records nor targets: %s" % regs[0].root, fn_loc(fn, e.node["ln"]))
                continue
            sig = [e.name]
            bad = False
            for r in regs:
                o, l = rows_of(r.off, fam), rows_of(r.len, fam) if r.len is not None else "?"
                if o is None or l is None:
                    bad = True
                sig.append((o.key() if isinstance(o, Poly) else o, l.key() if isinstance(l, Poly) else l))
            for p in extra:
                q = rows_of(p, fam)
                if q is None:
                    bad = True
                sig.append(q.key() if q is not None else None)
            if bad:
                res.violate("%s : not-row-multiple:%s:%s" % (key, fam, e.name),
                            "%s buffer is cut at an offset/length that is not a multiple of its own row width (%s): %s" % (
                                fam, width_atom(fam), [r.key() for r in regs]), fn_loc(fn, e.node["ln"]))
            per[fam].append(tuple(sig))
            res.instance("%s : %s %s %s" % (key, fam, e.name, sig[1:]))
        if per["records"] == per["targets"] and per["records"]:
            res.ok()
            res.sample({"fn": key, "row-space ops (both containers)": [str(x) for x in per["records"][:4]]})
        else:
            res.violate("%s : records-vs-targets" % key,
                        "records and targets buffers are cut/swapped with different row-space operands: records=%s targets=%s" % (per["records"], per["targets"]), fn_loc(fn))
        # training views: rows + offset rows == nsamples, same for both containers; block == chunk size of validation
        views = {}
        for e in tr.events:
            if e.kind == "call" and e.name == "from_shape" and len(e.args) == 2 and isinstance(e.args[1], Slice):
                fam = family(e.args[1].root_term)
                shape = e.args[0]
                rows = None
                if isinstance(shape, Tup):
                    rows = as_poly(shape.items[0])
                else:
                    t = as_term(shape)
                    if t is not None and t.is_call("nsamples") and len(t.args) == 2:
                        rows = as_poly(t.args[1])
                off = rows_of(e.args[1].off, fam) if fam else None
                views[fam] = (rows, off, e)
                res.instance("%s : training view of %s rows=%s offset_rows=%s" % (key, fam, k(rows), k(off)))
        ns = None
        for fam in ("records", "targets"):
            if fam not in views:
                res.undecided("%s : no-train-view:%s" % (key, fam), "training view over the %s buffer not recognised (fail closed)" % fam, fn_loc(fn))
                continue
            rows, off, e = views[fam]
            if rows is None or off is None:
                res.violate("%s : train-view-shape:%s" % (key, fam), "cannot read rows/offset of the training view", fn_loc(fn, e.node["ln"]))
                continue
            total = rows + off
            t = total.single_term()
            if t is not None and t.is_call("nsamples") and k(t.args[0]) == "param:self":
                res.ok()
            else:
                res.violate("%s : train-view-rows:%s" % (key, fam),
                            "training view rows (%s) + offset rows (%s) is not self.nsamples()" % (rows.key(), off.key()), fn_loc(fn, e.node["ln"]))
        if "records" in views and "targets" in views and views["records"][1] is not None and views["targets"][1] is not None:
            if views["records"][1] == views["targets"][1] and views["records"][0] == views["targets"][0]:
                res.ok()
            else:
                res.violate("%s : train-view-mismatch" % key, "training views of records and targets differ in rows/offset", fn_loc(fn))
            # validation chunk size == block size
            sc = [e for e in tr.events if e.kind == "call" and e.name == "sample_chunks"]
            if len(sc) == 1 and as_poly(sc[0].args[0]) == views["records"][1]:
                res.ok()
                res.instance("%s : validation chunk size == block size (%s)" % (key, views["records"][1].key()))
            else:
                res.violate("%s : chunk-size" % key, "validation chunks are not cut with the fold block size", fn_loc(fn))
    # (b) fold and ChunksIter::next: same selection sequence on both containers
    for name, adt in (("fold", "DatasetBase"), ("next", "ChunksIter")):
        for fn in the_fn(res, F, name, adt):
            tr = Tracer(fn, inline=ctx.inliner()).run()
            key = fn_key(fn)
            seqs = family_sequences(tr)
            a = [(n, ops) for n, ops, _ in seqs["records"]]
            b = [(n, ops) for n, ops, _ in seqs["targets"]]
            for x in a:
                res.instance("%s : records %s%s" % (key, x[0], list(x[1])))
            for x in b:
                res.instance("%s : targets %s%s" % (key, x[0], list(x[1])))
            # the two containers must undergo the same selections; the order in which the statements are written
            # (records first, then targets, or interleaved) carries no meaning, so the comparison is on multisets
            sa, sb = sorted(a, key=repr), sorted(b, key=repr)
            if a and sa == sb:
                res.ok()
                res.sample({"fn": key, "selection ops on both containers": [x[0] for x in a]})
            elif not a and not b:
                res.undecided("%s : selection-ops" % key, "no selection operations on the records / targets containers recognised", fn_loc(fn))
            else:
                a, b = sa, sb
                # find first difference
                diff = next((i for i in range(min(len(a), len(b))) if a[i] != b[i]), min(len(a), len(b)))
                res.violate("%s : selection-mismatch" % key,
                            "records and targets are selected differently (op #%d): records=%s targets=%s" % (
                                diff, a[diff] if diff < len(a) else None, b[diff] if diff < len(b) else None),
                            fn_loc(fn, (seqs["records"] + seqs["targets"])[0][2].node["ln"] if (a or b) else None))
    # (c) fold: validation is chunk 0, training is every other chunk (an open-ended `[1..]`)
    for fn in the_fn(res, F, "fold", "DatasetBase"):
        tr = Tracer(fn, inline=ctx.inliner()).run()
        key = fn_key(fn)
        for e in tr.events:
            if e.kind == "index" and isinstance(e.idx, Term) and e.idx.op.startswith("struct:std::ops::Range") and "call:axis_chunks_iter" in k(e.base):
                inst = "%s : training part = chunks[%s]" % (key, k(e.idx)[16:60])
                res.instance(inst)
                fields = {a.op[1:]: a.args[0] for a in e.idx.args if isinstance(a, Term) and a.op.startswith("=")}
                start = as_poly(fields.get("start")) if fields.get("start") is not None else None
                open_ended = e.idx.op.endswith("RangeFrom")
                full = False
                if "end" in fields:
                    t = as_term(fields["end"])
                    full = t is not None and t.is_call("len") and "call:axis_chunks_iter" in k(t)
                if start is not None and start.const_value() == 1 and (open_ended or full):
                    res.ok()
                else:
                    res.violate("%s : training-not-complement" % key, "the training part is built from chunks[%s], not from every chunk but the validation one: samples of the tail (n not divisible by k) vanish from every training set" % k(e.idx)[16:80], fn_loc(fn, e.node["ln"]))
    return res.finish(22)


SAMPLE_COUNT_CALLS = {"nsamples", "nrows"}


def is_sample_count(tr, v, node_hint=None):
    """(ok, why). v is the numerator of `<v> / k`."""
    t = as_term(v)
    if t is None:
        return False, "numerator %s is not a single count" % k(v)
    if t.is_call(*SAMPLE_COUNT_CALLS):
        return True, t.name
    if t.is_call("len_of") and len(t.args) == 2 and "Axis(0)" in k(t.args[1]) or (t.is_call("len_of") and "lit" not in k(t.args[1]) and re.search(r"\b0\b", k(t.args[1]))):
        return True, "len_of(Axis(0))"
    if t.is_call("len") and t.node is not None:
        recv_ty = tr.ty(t.node["recv"], adjusted=False)
        recv_ty2 = tr.ty(t.node["recv"], adjusted=True)
        for ty in (recv_ty, recv_ty2):
            if "ndarray::ArrayBase<" in ty:
                if re.search(r"ndarray::Dim<\[usize; 1\]>>\s*$", ty.strip().rstrip("&")):
                    return True, "len() of a 1-D array"
                return False, "len() of an array whose dimension is not provably 1 (%s) counts elements, not samples" % ty
        return False, "len() of %s" % recv_ty
    if t.op.startswith("proj:0") and t.args and as_term(t.args[0]) is not None and as_term(t.args[0]).is_call("dim"):
        return True, "dim().0"
    return False, "numerator %s is not a sample count" % t.key()


def rule_count(ctx):
    res = RuleResult("R-C01-count", "the fold size (numerator of `.. / k`) derives from a sample count")
    F = ctx.facts()
    for name in ("fold", "iter_fold"):
        for fn in the_fn(res, F, name, "DatasetBase"):
            tr = DivTracer(fn, inline=ctx.inliner()).run()
            key = fn_key(fn)
            divs = [e for e in tr.events if e.kind == "div" and k(e.r) == "param:k"]
            if not divs:
                res.undecided("%s : no-fold-size" % key, "no `<count> / k` found; cannot identify the fold size (fail closed)", fn_loc(fn))
            for e in divs:
                ok, why = is_sample_count(tr, e.l)
                res.instance("%s : fold size = %s / k" % (key, k(e.l)))
                res.sample({"fn": key, "fold_size": "%s / k" % k(e.l), "verdict": why})
                if ok:
                    res.ok()
                else:
                    res.violate("%s : fold-size-numerator" % key, "fold size is computed from something that is not the sample count: %s" % why, fn_loc(fn, e.node["ln"]))
    # ChunksIter: block i is rows [i*size, (i+1)*size) and iteration stops after len_of(axis)/size blocks
    for fn in the_fn(res, F, "next", "ChunksIter"):
        key = fn_key(fn)
        tr = DivTracer(fn, inline=ctx.inliner()).run()
        cuts = [e for e in tr.events if e.kind == "call" and e.name in ("slice_axis_inplace", "slice_axis", "slice_axis_mut") and len(e.args) == 2]
        if len(cuts) < 2:
            res.missing_anchor("the two slice_axis_inplace cuts of ChunksIter::next (found %d)" % len(cuts))
        idx_atom, size_atom = "field:idx(param:self)", "field:size(param:self)"
        for i, e in enumerate(cuts):
            res.instance("%s : cut #%d bounds" % (key, i))
            rng = None
            for t in walk_terms(e.args[1]):
                if isinstance(t, Term) and t.op == "struct:std::ops::Range":
                    rng = dict((a.op[1:], a.args[0]) for a in t.args if isinstance(a, Term) and a.op.startswith("=") and a.args)
            lo, hi = (as_poly(rng.get("start")), as_poly(rng.get("end"))) if rng else (None, None)
            want_lo = Poly.atom(Term(idx_atom)) * Poly.atom(Term(size_atom))
            if lo is None or hi is None:
                res.undecided("%s : block-bounds:#%d" % (key, i), "cannot read the block bounds as a half-open range (fail closed): %s" % k(e.args[1])[:80], fn_loc(fn, e.node["ln"]))
            elif lo == want_lo and (hi - lo) == Poly.atom(Term(size_atom)):
                res.ok()
                res.sample({"fn": key, "block": "[idx*size, (idx+1)*size)"})
            else:
                res.violate("%s : block-bounds:#%d" % (key, i), "validation block %d is cut as [%s, %s); the k-th block must be the consecutive rows [idx*size, (idx+1)*size)" % (i, k(rng.get("start"))[:60], k(rng.get("end"))[:60]), fn_loc(fn, e.node["ln"]))
        # stop test: idx == len_of(axis) / size
        res.instance("%s : stops after len/size blocks" % key)
        want_q = "bin:/(call:len_of(field:records(param:self), field:axis(param:self)), field:size(param:self))"
        nones = []      # (guard key, True when None is produced under the guard, False when under its negation)
        for e in tr.events:
            if e.kind == "ret" and as_term(e.val) is not None and as_term(e.val).op.endswith("None") and e.guards:
                g = e.guards[-1]
                nones.append((g[1], g[0] == "+"))
        for t in walk_terms(tr.result):
            if isinstance(t, Term) and t.op == "ite" and len(t.args) == 3:
                for pos, branch in ((True, t.args[1]), (False, t.args[2])):
                    bt = as_term(branch)
                    if bt is not None and bt.op.endswith("None") and not bt.args:
                        nones.append((t.args[0].op[5:] if isinstance(t.args[0], Term) else "", pos))
        okstop = False
        for gkey, positive in nones:
            if want_q in gkey and idx_atom in gkey and (("== 0" in gkey and positive) or ("!= 0" in gkey and not positive)):
                okstop = True
        if okstop:
            res.ok()
        else:
            res.violate("%s : stop-test" % key, "iteration does not stop exactly when idx == len_of(axis) / size%s" % ("" if nones else " (no `None` result recognised)"), fn_loc(fn), undecided=not nones)
    return res.finish(5)


class DivTracer(Tracer):
    def ev_Binary(self, n):
        if n["op"] == "/":
            l = self.ev(n["l"])
            r = self.ev(n["r"])
            self.emit("div", l=l, r=r, node=n)
            return Term("bin:/", (l, r))
        return Tracer.ev_Binary(self, n)


def rule_mean(ctx):
    res = RuleResult("R-C01-mean", "cross_validate adds each fold's evaluation once per (fold, model) and returns accumulator / k")
    F = ctx.facts()
    for fn in the_fn(res, F, "cross_validate", "DatasetBase"):
        tr = DivTracer(fn, inline=ctx.inliner()).run()
        key = fn_key(fn)
        # 1. result is Ok(acc / conv(k))
        rv = tr.result
        t = as_term(rv)
        ok = False
        acc = None
        if t is not None and t.op == "callv@%s" % t.op.split("@")[-1] or (t is not None and (t.is_call("Ok") or "Ok" in t.op)):
            inner = t.args[-1] if t.args else None
            it = as_term(inner)
            if it is not None and it.op == "bin:/":
                acc, div = it.args
                atoms = [x.op for x in walk_terms(div) if isinstance(x, Term) and x.op.startswith(("param:", "local:", "loopvar:", "cparam:", "field:"))]
                if atoms == ["param:k"] or set(atoms) == {"param:k"}:
                    ok = True
                    res.ok()
                    res.instance("%s : returns Ok(%s / %s)" % (key, short(k(acc)), k(div)))
                else:
                    res.violate("%s : divisor" % key, "returned score is divided by %s, not by a conversion of the fold count k" % k(div), fn_loc(fn))
                    ok = None
        if ok is False:
            # positive evidence: an Ok(..) is returned and nothing in the function divides (no `/`, `/=`, div, mean): the
            # sum over the folds is returned as the score
            divides = [e for e in tr.events if e.kind == "div" or (e.kind == "assignop" and "/" in str(getattr(e, "op", ""))) or (e.kind == "call" and e.name in ("div", "div_assign", "mean", "mean_axis", "recip"))]
            from .facts import walk as _w
            divides_hir = [y for y in _w(fn["body"]) if (y.get("k") in ("Binary", "AssignOp") and y.get("op") == "/")]
            if t is not None and (t.is_call("Ok") or "Ok" in t.op) and not divides and not divides_hir:
                res.violate("%s : no-division" % key, "cross_validate returns `%s` and divides nowhere: the returned score is the sum over the folds, not their mean" % short(k(rv)), fn_loc(fn))
            else:
                res.undecided("%s : no-division" % key, "returned value is not `Ok(<accumulator> / k)`: %s" % short(k(rv)), fn_loc(fn))
        # 2. accumulation sites
        adds = [e for e in tr.events if e.kind == "call" and e.name == "add_assign"]
        eval_calls = [e for e in tr.events if e.kind == "call" and e.callee_local in tr.param_locals and tr.param_locals[e.callee_local] == "eval"]
        if len(eval_calls) != 1:
            res.undecided("%s : eval-calls" % key, "expected one call of the `eval` closure, found %d" % len(eval_calls), fn_loc(fn))
        evalval = eval_calls[0].val if eval_calls else None
        per_model = [e for e in adds if evalval is not None and e.args and contains(e.args[0], lambda x: x is evalval or x.key() == evalval.key())]
        per_fold = [e for e in adds if e not in per_model]
        if len(per_fold) == 1 and len(per_model) == 1:
            o, i = per_fold[0], per_model[0]
            # per fold: one element of the collected per-fold results is added, inside a loop or a folding closure
            ok_elem = k(o.args[0]).startswith(("loopvar:", "cparam:")) if o.args else False
            if o.loops and ok_elem:
                res.ok()
                res.instance("%s : per-fold add_assign of one per-fold result into the accumulator" % key)
            else:
                res.violate("%s : fold-accumulation" % key, "per-fold evaluation is not added once per element of the per-fold results", fn_loc(fn, o.node["ln"]))
            # per model: destination row indexed by the model counter, source = eval(...)
            ik = k(i.recv)
            src = k(i.args[0])
            counters = [x.op for x in walk_terms(i.recv) if isinstance(x, Term) and x.op.startswith(("loopvar:", "cparam:"))]
            paired = False
            if ik.startswith(("loopvar:", "cparam:")):
                # `for (model, mut row) in models.iter().zip(scores.axis_iter_mut(Axis(0)))`: the row comes paired with its model
                from .c17 import for_loops as _fl
                from .facts import walk as _w2
                for it_, pat_, body_, node_ in _fl(fn["body"]):
                    if any(z is i.node for z in _w2(body_)):
                        nms = [z["name"] for z in _w2(it_) if z.get("k") == "MethodCall"]
                        if "zip" in nms and any(nm in nms for nm in ("axis_iter_mut", "rows_mut", "outer_iter_mut", "genrows_mut")) and not any(nm in nms for nm in ("rev", "skip", "cycle", "step_by")):
                            paired = True
            if i.loops and ("index_axis_mut" in ik or "index(" in ik or "row_mut" in ik) and counters:
                res.ok()
                res.instance("%s : per-model add_assign into row %s" % (key, counters[0]))
            elif paired:
                res.ok()
                res.instance("%s : per-model add_assign into the row zipped with its model" % key)
            elif not ("index_axis_mut" in ik or "index(" in ik or "row_mut" in ik):
                res.undecided("%s : model-accumulation" % key, "destination of the per-model add_assign not recognised: %s (fail closed)" % short(ik), fn_loc(fn, i.node["ln"]))
            else:
                res.violate("%s : model-accumulation" % key, "per-model evaluation is not added to the row of its own model index: %s" % short(ik), fn_loc(fn, i.node["ln"]))
            res.ok()
        else:
            res.undecided("%s : accumulation-sites" % key, "expected one per-fold and one per-model add_assign, found %d/%d" % (len(per_fold), len(per_model)), fn_loc(fn))
        # 3. eval is applied to (prediction of this model on this fold's validation records, this fold's validation targets)
        if eval_calls:
            e = eval_calls[0]
            a0, a1 = (k(e.args[0]), k(e.args[1])) if len(e.args) == 2 else ("", "")
            if "call:predict(loopvar:model" in a0.replace("proj:1(", "") or re.search(r"call:predict\([^,]*loopvar", a0):
                pass
            pred_ok = re.search(r"call:predict\(.*loopvar:\w+.*call:records\((cparam:valid|proj:1\(cparam)", a0) is not None
            tgt_ok = re.search(r"call:targets\((cparam:valid|proj:1\(cparam)", a1) is not None
            res.instance("%s : eval(%s, %s)" % (key, short(a0), short(a1)))
            if pred_ok and tgt_ok:
                res.ok()
            else:
                res.violate("%s : eval-arguments" % key, "eval is not applied to (model.predict(valid.records()), valid.targets()): (%s, %s)" % (short(a0), short(a1)), fn_loc(fn, e.node["ln"]))
        # 4. folds come from iter_fold(k, ..) on self
        itf = [e for e in tr.events if e.kind == "call" and e.name == "iter_fold"]
        if len(itf) == 1 and k(itf[0].recv) == "param:self" and k(itf[0].args[0]) == "param:k":
            res.ok()
            res.instance("%s : folds from self.iter_fold(k, ..)" % key)
        else:
            res.violate("%s : fold-source" % key, "folds are not produced by self.iter_fold(k, ..)", fn_loc(fn))
    for fn in the_fn(res, F, "cross_validate_single", "DatasetBase"):
        tr = Tracer(fn, inline=ctx.inliner()).run()
        key = fn_key(fn)
        cv = [e for e in tr.events if e.kind == "call" and e.name == "cross_validate"]
        if len(cv) == 1 and k(cv[0].recv) == "param:self" and [k(a) for a in cv[0].args[:2]] == ["param:k", "param:parameters"]:
            res.ok()
            res.instance("%s : delegates to self.cross_validate(k, parameters, ..)" % key)
        else:
            res.violate("%s : delegation" % key, "does not delegate to cross_validate(k, parameters, ..)", fn_loc(fn))
        ec = [e for e in tr.events if e.kind == "call" and e.callee_local in tr.param_locals]
        if len(ec) == 1 and [k(a) for a in ec[0].args] == ["cparam:a", "cparam:b"] or (len(ec) == 1 and all(k(a).startswith("cparam:") for a in ec[0].args) and len(set(k(a) for a in ec[0].args)) == 2):
            res.ok()
        else:
            res.violate("%s : eval-forwarding" % key, "the user's eval closure is not applied to the two forwarded arguments", fn_loc(fn))
    return res.finish(6)


def short(s, n=110):
    return s if len(s) <= n else s[:n] + "…"


PANICKY = {"unwrap", "expect", "unwrap_or", "unwrap_or_default", "unwrap_or_else", "ok", "unwrap_unchecked", "is_ok", "is_err", "unwrap_err"}


def rule_err(ctx):
    res = RuleResult("R-C01-err", "Results of Fit::fit and of eval in cross_validate are propagated, never unwrapped/defaulted")
    F = ctx.facts()
    for fn in the_fn(res, F, "cross_validate", "DatasetBase"):
        tr = Tracer(fn, inline=ctx.inliner()).run()
        key = fn_key(fn)
        fits = [e for e in tr.events if e.kind == "call" and e.name == "fit" and e.d and (e.d.get("trait") or "").endswith("Fit")]
        evals = [e for e in tr.events if e.kind == "call" and e.callee_local in tr.param_locals and tr.param_locals[e.callee_local] == "eval"]
        if not fits:
            res.missing_anchor("Fit::fit call in cross_validate")
        srcs = [(e, "fit") for e in fits] + [(e, "eval") for e in evals]
        for e, what in srcs:
            res.instance("%s : Result of %s" % (key, what))
        fallible_keys = [(e.val.key(), what, e) for e, what in srcs]
        for e in tr.events:
            if e.kind == "call" and e.name in PANICKY and e.recv is not None:
                rk = k(e.recv)
                for fk, what, src in fallible_keys:
                    if fk in rk:
                        res.violate("%s : %s-result-%s" % (key, what, e.name),
                                    "the Result of %s is consumed by `%s` instead of being propagated" % (what, e.name), fn_loc(fn, e.node["ln"]))
        # positive: a `?` is applied to (a value derived from) eval's result, to the collected fits, and to the collected folds
        tries = [e for e in tr.events if e.kind == "try"]
        tkeys = [k(e.val) for e in tries]
        for fk, what, src in fallible_keys:
            if what == "eval":
                if any(fk in tk for tk in tkeys):
                    res.ok()
                else:
                    res.violate("%s : eval-not-propagated" % key, "no `?` on the result of eval", fn_loc(fn, src.node["ln"]))
            else:
                # the closure handed to iter_fold must return the collected Result of the fits
                itf = [e for e in tr.events if e.kind == "call" and e.name == "iter_fold"]
                okc = False
                for c in itf:
                    for a in c.args:
                        t = as_term(a)
                        if t is not None and t.op.startswith("closure#") and t.args and fk in k(t.args[0]) and "call:collect" in k(t.args[0]):
                            okc = "Result<" in tr.ty(t.node["body"])
                if okc:
                    res.ok()
                else:
                    # not finding the idiom `parameters.iter().map(|p| p.fit(train)).collect::<Result<..>>()` is not evidence
                    # of a swallowed error (a helper with `?` in a loop does the same): the positive evidence is a Result
                    # consumed by unwrap / ok / unwrap_or above
                    res.undecided("%s : fit-not-collected" % key, "per-fold fit results were not found collected into a Result returned by the fold closure (fail closed)", fn_loc(fn, src.node["ln"]))
        if any(t == "cparam:models" or "cparam:models" in t or "proj:0(cparam" in t for t in tkeys):
            res.ok()
            res.instance("%s : `?` on the per-fold fit results" % key)
        else:
            res.undecided("%s : models-not-propagated" % key, "no `?` on the per-fold fit results found inside an evaluation closure (fail closed)", fn_loc(fn))
        if any("call:collect" in t and "call:iter_fold" in t for t in tkeys):
            res.ok()
            res.instance("%s : `?` on the collected per-fold evaluations" % key)
        else:
            res.undecided("%s : folds-not-propagated" % key, "no `?` on collected per-fold evaluations found (fail closed)", fn_loc(fn))
    return res.finish(3)


def rule_cover(ctx):
    """fold(): training part + validation part = all samples.  The chunk lists are the complete sequences produced by
    axis_chunks_iter; if they are shortened (take / skip / filter / step_by) the left-over rows must be put back - as a
    chunk that is appended unconditionally, or under a test that says exactly 'rows are left over' (nsamples compared
    with k * fold_size).  Any other test (a remainder test, a length test of something else) drops the left-over rows
    from every training set for some (n, k)."""
    from .layout import with_parents
    res = RuleResult("R-C01-cover", "fold() builds its training and validation parts from chunk lists that cover every sample (no truncated chunk sequence without the left-over rows put back)")
    F = ctx.facts()
    fns = [f for f in F.all_fns() if f["d"]["krate"] == "linfa" and f["d"]["name"] == "fold" and (f["d"].get("self_adt") or "").endswith("DatasetBase")]
    if not fns:
        res.missing_anchor("DatasetBase::fold")
    for fn in fns:
        c = fn["crate"]
        key = fn_key(fn)
        r = Render(c)
        lists = {}      # local -> (LetStmt, truncating adaptors)
        for n in walk(fn["body"]):
            if n.get("k") == "LetStmt" and n.get("init") is not None and n["pat"].get("k") == "Bind":
                names = []
                e = strip(n["init"])
                while e.get("k") == "MethodCall":
                    names.append(e["name"])
                    e = strip(e["recv"])
                gen = next((g for g in ("axis_chunks_iter", "exact_chunks", "axis_chunks_iter_mut", "exact_chunks_mut") if g in names), None)
                if gen is not None and "collect" in names:
                    i0, i1 = names.index("collect"), names.index(gen)
                    trunc = [x for x in names[i0 + 1:i1] if x in ("take", "skip", "filter", "step_by", "take_while", "skip_while", "filter_map")]
                    if gen.startswith("exact_chunks"):
                        trunc.append(gen)       # exact_chunks yields only whole chunks: the short last one is dropped
                    lists[n["pat"]["local"]] = (n, trunc, n["pat"]["name"])
        if len(lists) < 2:
            res.instance("%s : chunk lists" % key)
            res.undecided("%s : chunk-lists" % key, "the record and target chunk lists of fold were not found (found %d)" % len(lists), fn_loc(fn))
            continue
        for loc, (let, trunc, nm) in sorted(lists.items()):
            res.instance("%s : chunk list `%s`" % (key, nm))
            if not trunc:
                res.ok()
                continue
            # pushes that put the left-over rows back
            pushes = []
            for x, anc in with_parents(fn["body"]):
                if x.get("k") == "MethodCall" and x["name"] in ("push", "extend", "insert") and peel_refs(x["recv"]).get("local") == loc:
                    conds = [a for a in anc if a.get("k") == "If"]
                    loops = [a for a in anc if a.get("k") == "Loop"]
                    if not loops:
                        pushes.append((x, conds))
            if not pushes:
                res.violate("%s : chunks-truncated:%s" % (key, nm), "the chunk list `%s` is shortened by `%s` and the left-over rows are never put back: they are missing from every training set" % (nm, trunc[0]), fn_loc(fn, let["ln"]))
                continue
            ok_ = False
            why = None
            for x, conds in pushes:
                if not conds:
                    ok_ = True
                    continue
                cond = strip(conds[-1]["c"])
                txt = r.e(cond)
                has_n = "nsamples" in txt or "nrows" in txt or "len_of" in txt
                has_prod = any(y.get("k") == "Binary" and y["op"] == "*" for y in walk(cond))
                has_rem = any(y.get("k") == "Binary" and y["op"] == "%" for y in walk(cond))
                if cond.get("k") == "Binary" and cond["op"] in (">", "<", "!=", ">=", "<=") and has_n and has_prod and not has_rem:
                    ok_ = True
                else:
                    why = txt
            if ok_:
                res.ok()
            else:
                res.violate("%s : tail-chunk-condition:%s" % (key, nm), "the chunk list `%s` is shortened by `%s` and the left-over rows are put back only when `%s`, which is not the test 'rows are left over' (nsamples against k * fold_size): for some (n, k) the tail is dropped from every training set" % (nm, trunc[0], (why or "")[:80]), fn_loc(fn, let["ln"]))
    return res.finish(2)


def rule_width(ctx):
    """iter_fold cuts the raw record and target buffers in rows of nfeatures() / ntargets() values.  Those widths must be
    read from the arrays that are cut: a width taken from anything else that can disagree with the array (the list of
    names, a cached count) tears samples apart as soon as the two differ.  Path-enumerating influence analysis of the two
    accessors: on every path the returned value depends on the container (or is a constant chosen by its dimensionality)."""
    from .influence import Influence
    res = RuleResult("R-C01-width", "the counts used to cut raw buffers and to normalise (DatasetBase::ntargets, nfeatures, nsamples) are read from the target / record arrays on every path, never from the name lists or the weights")
    F = ctx.facts()
    want = {"ntargets": "self.targets", "nfeatures": "self.records", "nsamples": "self.records"}
    found = 0
    for fn in F.all_fns():
        d = fn["d"]
        if d["krate"] != "linfa" or d["name"] not in want or not (d.get("self_adt") or "").endswith("DatasetBase"):
            continue
        if d["name"] == "nsamples" and not (d.get("trait") or "").endswith("Records"):
            continue
        found += 1
        key = fn_key(fn)
        inf = Influence(fn)
        inf.run()
        res.instance("%s : %d return paths" % (key, len(inf.returns)))
        bad = None
        for srcs, node, path in inf.returns:
            foreign = sorted(x for x in srcs if x.startswith("self.") and x != want[d["name"]])
            if foreign:
                bad = (foreign, path)
                break
        if bad:
            res.violate("%s : width-from:%s" % (key, ",".join(bad[0])), "on the path %s the value returned by `%s` depends on %s, not on the array whose raw buffer is cut with it: after with_targets / with_records the two can disagree and the block swaps of iter_fold tear samples apart" % (" / ".join(bad[1][-2:]) or "(straight)", d["name"], ", ".join(bad[0])), fn_loc(fn))
        elif not inf.returns:
            res.undecided("%s : no-return-path" % key, "no return path found", fn_loc(fn))
        else:
            res.ok()
    if found < 2:
        res.missing_anchor("DatasetBase::ntargets / nfeatures (found %d)" % found)
    return res.finish(2)


def rule_chunks(ctx):
    """`fold` cuts records and targets into blocks of n / k rows: `axis_chunks_iter` yields as many blocks as it takes to
    cover all rows - k, k + 1 or more (n = 5, k = 3: five blocks of one row).  Training and validation set together are all
    samples only if every block stays in the list the training sets are concatenated from."""
    res = RuleResult("R-C01-chunks", "`fold` drops no block of the lists it cuts the records and targets into (no truncate / pop / drain on them)")
    F = ctx.facts()
    for fn in the_fn(res, F, "fold", "DatasetBase"):
        c = fn["crate"]
        r = Render(c)
        key = fn_key(fn)
        lists = {}
        for y in walk(fn["body"]):
            if y.get("k") == "LetStmt" and y.get("init") is not None and y["pat"].get("k") == "Bind" and any(z.get("k") == "MethodCall" and z["name"] in ("axis_chunks_iter", "axis_chunks_iter_mut", "exact_chunks", "axis_iter") for z in walk(y["init"])):
                lists[y["pat"]["local"]] = y["pat"]["name"]
        # a validation part is one block of n / k rows.  The *rest* of a `split_at(Axis(0), n / k)` has n - n / k rows: as a
        # validation part (a two-fold shortcut that hands out both halves) it holds the left-over rows that are documented to
        # be training-only whenever k does not divide n
        tails_ = {}
        for y in walk(fn["body"]):
            if y.get("k") == "LetStmt" and y.get("init") is not None and y["pat"].get("k") == "Tuple" and len(y["pat"]["pats"]) == 2 and any(z.get("k") == "MethodCall" and z["name"] == "split_at" for z in [peel_refs(y["init"])]):
                for b in pat_bindings(y["pat"]["pats"][1]):
                    tails_[b["local"]] = b["name"]
        if tails_:
            res.instance("%s : validation parts of a direct split" % key)
            bad_t = None
            for y in walk(fn["body"]):
                if y.get("k") == "Tup" and len(y["es"]) == 2:
                    used = [z for z in walk(y["es"][1]) if z.get("k") == "Path" and z.get("local") in tails_]
                    if used:
                        bad_t = (y, tails_[used[0]["local"]])
            if bad_t:
                res.violate("%s : validation-is-the-rest-of-a-split:%s" % (key, bad_t[1]), "a (training, validation) pair takes its validation part from `%s`, the rest of a split at n / k: it has n - n / k rows, the left-over rows included, where every validation part is one block of n / k rows" % bad_t[1], fn_loc(fn, bad_t[0].get("ln")))
            else:
                res.ok()
        if not lists:
            res.instance("%s : block lists" % key)
            res.undecided("%s : block-lists" % key, "no list bound to the blocks of axis_chunks_iter (fail closed)", fn_loc(fn))
            continue
        for loc, nm in sorted(lists.items()):
            res.instance("%s : block list `%s`" % (key, nm))
            bad = [y for y in walk(fn["body"]) if y.get("k") == "MethodCall" and peel_refs(y["recv"]).get("local") == loc and y["name"] in ("truncate", "pop", "clear", "drain", "remove", "swap_remove", "retain", "resize", "split_off", "dedup")]
            # a block that is taken out with `remove(i)` and put back with `insert(i, ..)` at the same index in the same loop body
            # leaves the list as it was for the next iteration
            put_back = [y for y in walk(fn["body"]) if y.get("k") == "MethodCall" and peel_refs(y["recv"]).get("local") == loc and y["name"] == "insert" and len(y["args"]) == 2]
            if bad and all(b_["name"] == "remove" for b_ in bad) and len(put_back) == len(bad) and all(r.e(peel_refs(b_["args"][0])) == r.e(peel_refs(p_["args"][0])) and (p_.get("ln") or 0) > (b_.get("ln") or 0) for b_, p_ in zip(bad, put_back)):
                bad = []
            if bad and bad[0]["name"] == "split_off":
                res.undecided("%s : block-list-split:%s" % (key, nm), "`%s`: whether the split-off blocks all come back is not decided" % r.e(bad[0])[:40], fn_loc(fn, bad[0].get("ln")))
            elif bad:
                res.violate("%s : block-list-shortened:%s" % (key, nm), "`%s` removes blocks from the list the training sets are built from: with n mod k > n / k the rows are spread over more than k + 1 blocks, and the rows of the removed ones are in no training and no validation set" % r.e(bad[0])[:50], fn_loc(fn, bad[0].get("ln")))
            else:
                res.ok()
    return res.finish(2)


def rules(tier):
    return [rule_chunks, rule_pair, rule_agree, rule_count, rule_mean, rule_err, rule_width, rule_cover]
