"""Compile-time witness for C19: a generated harness crate (outside /repo and /verif) that names every
serialisable workspace type at f32 and f64 and requires `T: Serialize + DeserializeOwned`. It is only
type-checked (`cargo check`), never run. A derive whose bounds can never be met (so the type is not
actually serialisable) fails here with the offending type named in the compiler's message."""
import json
import os
import re
import shutil
import subprocess
import tempfile

from .core import VERIF, REPO, CACHE

# bound trait (last path segment) -> concrete instantiations to try, keyed by the float type in use
BOUND_MAP = [
    (r"linfa::Float$|num_traits::Float|ndarray::NdFloat|linfa_linalg|Float$", ["{F}"]),
    (r"Distance<", ["linfa_nn::distance::L2Dist"]),
    (r"NearestNeighbour$", ["linfa_nn::CommonNearestNeighbour"]),
    (r"rand::Rng$|Rng$|RngCore$", ["rand_xoshiro::Xoshiro256Plus"]),
    (r"Label$", ["usize"]),
    (r"inner::Inner$|Inner$", None),  # handled specially (K1 dense, K2 sparse)
    (r"^std::cmp::|^std::clone::|^std::hash::|^std::fmt::|^std::default::", ["usize"]),
    (r"ProjectionMethod$", ["linfa_reduction::random_projection::GaussianRandomProjection", "linfa_reduction::random_projection::SparseRandomProjection"]),
]


def crate_dirs(repo):
    out = subprocess.run(["cargo", "metadata", "--offline", "--no-deps", "--format-version", "1"], cwd=repo,
                         capture_output=True, text=True, env=dict(os.environ, CARGO_NET_OFFLINE="true"))
    m = json.loads(out.stdout)
    return {p["name"]: (os.path.dirname(p["manifest_path"]), "serde" in p["features"]) for p in m["packages"]}


def pub_path(c, adt, F):
    """A path under which the ADT is nameable from outside its crate, or None."""
    return None


def instantiate(adt, impl, flt):
    """List of concrete type-argument lists for the ADT's generic parameters (or None if unknown)."""
    gens = [g for g in adt["generics"] if not g.startswith("'")]
    if not gens:
        return [[]]
    preds = impl.get("preds", [])
    choices = []
    for g in gens:
        bounds = [p.split(": ", 1)[1] for p in preds if p.startswith(g + ": ") and "Sized" not in p and "serde" not in p]
        opt = None
        for b in bounds:
            for rx, vals in BOUND_MAP:
                if re.search(rx, b):
                    if vals is None:
                        opt = ["ndarray::Array2<{F}>"] if g == "K1" else ["sprs::CsMat<{F}>"]
                    else:
                        opt = vals
                    break
            if opt:
                break
        if opt is None:
            if g in ("F", "A"):
                opt = ["{F}"]
            elif g in ("L",):
                opt = ["usize"]
            elif g.isupper() and len(g) > 2:   # const generic such as MULTI_TASK
                opt = ["true", "false"]
            elif not bounds:
                opt = ["{F}"]
            else:
                return None
        choices.append([o.replace("{F}", flt) for o in opt])
    combos = [[]]
    for ch in choices:
        combos = [c + [x] for c in combos for x in ch]
    return combos[:4]


def generate(F, repo, exported):
    """exported: {(crate, adt_path): public path}. Returns (dir, list of (type_expr, key))."""
    dirs = crate_dirs(repo)
    d = tempfile.mkdtemp(prefix="linfa-witness-")
    os.makedirs(os.path.join(d, "src"))
    deps = []
    for name, (path, has_serde) in sorted(dirs.items()):
        if has_serde:
            deps.append('%s = { path = "%s", features = ["serde"] }' % (name, path))
    cargo = """[package]
name = "linfa-serde-witness"
version = "0.0.0"
edition = "2021"

[lib]
path = "src/lib.rs"

[dependencies]
serde = { version = "1.0", features = ["derive"] }
ndarray = { version = "0.15", features = ["serde"] }
sprs = { version = "=0.11.1", default-features = false, features = ["serde"] }
rand_xoshiro = { version = "0.6", features = ["serde1"] }
%s

[workspace]
""" % "\n".join(deps)
    with open(os.path.join(d, "Cargo.toml"), "w") as f:
        f.write(cargo)
    shutil.copy(os.path.join(repo, "Cargo.lock"), os.path.join(d, "Cargo.lock"))
    lines = ["#![allow(unused, non_snake_case)]", "fn both<T: serde::Serialize + serde::de::DeserializeOwned>() {}", ""]
    items = []
    n = 0
    for (crate, path), (pubpath, adt, impl) in sorted(exported.items()):
        for flt in ("f64", "f32"):
            combos = instantiate(adt, impl, flt)
            if combos is None:
                items.append((None, "%s::%s" % (crate, path), "cannot instantiate generics %s" % adt["generics"]))
                break
            for args in combos:
                ty = pubpath + ("::<%s>" % ", ".join(args) if args else "")
                n += 1
                lines.append("pub fn w%d() { both::<%s>(); } // %s::%s" % (n, ty, crate, path))
                items.append((ty, "%s::%s" % (crate, path), None))
            if not [g for g in adt["generics"] if not g.startswith("'")]:
                break
    with open(os.path.join(d, "src", "lib.rs"), "w") as f:
        f.write("\n".join(lines) + "\n")
    return d, items


def check(d):
    tgt = os.path.join(CACHE, "witness-target")
    env = dict(os.environ, CARGO_NET_OFFLINE="true", CARGO_TARGET_DIR=tgt)
    p = subprocess.run(["cargo", "check", "--offline", "--message-format", "short"], cwd=d, capture_output=True, text=True, env=env)
    return p.returncode, p.stderr
