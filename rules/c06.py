"""C06 - kernel matrices and agglomerative clustering: the structural clauses.

The property equates matrix entries with a kernel function and a labelling with the outcome of a merge replay; as a whole
it quantifies over values.  Decided here are the clauses that are relations between pieces of the code: which rows feed
the entry stored at (i, j); how the neighbour graph is built (self slot, diagonal, buffers in step, symmetrised); which
relation stops the merge replay and where it stands relative to the merge; what a merge removes and inserts; where the
labels come from; that every view of the kernel dispatches to the view of the same name and that the upper triangle is
the strict one in all three storages."""
from .core import RuleResult
from .facts import fn_key, fn_loc, fn_file, walk, children, strip, peel_refs, pat_bindings, Render
from .facts import lit_float, lit_number
from .c17 import for_loops, tuple_positions

LEVEL = ("Static analysis of linfa-kernel and linfa-hierarchical. Decided: (entries) the cell (i, j) of the dense matrix and the "
         "stored value of the sparse one are KernelMethod::distance of rows i and j of the records, for the configured method, "
         "over all rows; (method) the Gaussian arm is exp of a negated sum of squared differences of the two operands, the "
         "polynomial arm adds its first and raises to its second parameter, every arm uses both operands; (adjacency) the "
         "neighbour query asks for k + 1 points, the point itself is dropped and added once as the diagonal, the three CSR "
         "buffers advance together, the row pointer is pushed once per row, the matrix is square over the rows and is "
         "symmetrised with its own transpose; (stop) the merge replay stops on `clusters <= requested` / `dissimilarity >= "
         "threshold`, tested before the merge; (merge) a merge removes the two clusters of the step and inserts their union "
         "under a fresh id that starts at n and advances by one; (labels) the label vector has one slot per sample and "
         "receives the running index of the cluster for every member; (linkage) the linkage runs on the -ln transform of the "
         "kernel's strict upper triangle with the kernel's size and the configured method; (views) every Kernel accessor "
         "dispatches to the Inner method of its own name in both arms, the three to_upper_triangle impls keep col > row, "
         "Kernel::new / view / to_owned keep the variant and the configured method. Not decided: numerical equality, "
         "positive semidefiniteness, the neighbour sets themselves, the linkage algorithm (kodama), tie handling.")
ASSUME = ["rustc resolution/typeck; HIR faithfully dumped", "kodama::linkage returns the steps in merge order with clusters numbered n, n+1, .. (its documented contract)",
          "sprs::CsMatBase::new_from_unsorted(shape, indptr, indices, data) has the documented argument order"]


# ---------------------------------------------------------------- helpers
def inits_of(fn):
    out = {}
    for y in walk(fn["body"]):
        if y.get("k") == "LetStmt" and y.get("init") is not None and y["pat"].get("k") == "Bind":
            out[y["pat"]["local"]] = y["init"]
    return out


def param_locals(fn):
    return [b["local"] for p_ in fn["params"] for b in pat_bindings(p_)]


def resolve(e, inits, depth=0):
    """follow plain locals to their initialisers (value-preserving wrappers peeled)"""
    e = peel_refs(e)
    while e.get("k") == "Path" and e.get("local") in inits and depth < 6:
        e = peel_refs(inits[e["local"]])
        depth += 1
    return e


def through(e, names):
    """peel method calls in `names` (and unwrap / expect / view) off the receiver chain"""
    e = peel_refs(e)
    while e.get("k") == "MethodCall" and e["name"] in names:
        e = peel_refs(e["recv"])
    return e


def walk_prune(n, stop):
    """walk n without descending into the nodes of `stop` (identity)"""
    if any(n is s for s in stop):
        return
    yield n
    for ch in children(n):
        for y in walk_prune(ch, stop):
            yield y


def local_of(e):
    e = peel_refs(e)
    return e.get("local") if e.get("k") == "Path" else None


def callee_name(c, n):
    if n.get("k") == "Call":
        f = strip(n["f"])
        if f.get("k") == "Path":
            return (c.dfn(f.get("def")) or {}).get("name")
    return None


def kfns(F, name, krate, file_part=None):
    return [f for f in F.all_fns() if f["d"]["krate"] == krate and f["d"]["name"] == name and "tests" not in f["d"]["path"] and (file_part is None or file_part in fn_file(f))]


def is_rowcount(e, inits, ds_local):
    e = resolve(e, inits)
    if e.get("k") != "MethodCall" or local_of(e["recv"]) != ds_local:
        return False
    if e["name"] == "nrows":
        return True
    return e["name"] == "len_of" and e["args"] and "Axis(0)" in _r(e["args"][0])


_REND = [None]


def _r(e):
    return _REND[0].e(e).replace(" ", "")


def range_bounds(it):
    it = peel_refs(it)
    if it.get("k") == "Struct" and it.get("fields"):
        fs = {f_["name"]: f_["e"] for f_ in it["fields"]}
        if "start" in fs and "end" in fs:
            return fs["start"], fs["end"]
    return None


# ---------------------------------------------------------------- entries
def rule_entries(ctx):
    """K[i][j] = k(x_i, x_j): whatever the kernel function computes, the two rows fed to it are the rows the cell is
    indexed by, and every cell is visited."""
    res = RuleResult("R-C06-entries", "the value stored for the pair (i, j) is KernelMethod::distance of rows i and j of the records, for the method that was passed in, over all rows")
    F = ctx.facts()
    dn = kfns(F, "dense_from_fn", "linfa_kernel")
    sp = kfns(F, "sparse_from_fn", "linfa_kernel")
    if not dn or not sp:
        res.missing_anchor("linfa_kernel::dense_from_fn / sparse_from_fn")
        return res.finish(2)

    def distance_site(fn, body):
        c = fn["crate"]
        for y in walk(body):
            if y.get("k") == "Assign":
                rr = peel_refs(y["r"])
                if rr.get("k") == "MethodCall" and rr["name"] == "distance" and "KernelMethod" in ((c.dfn(rr.get("def")) or {}).get("path") or ""):
                    yield y, rr

    def row_index(e, inits, ds):
        e = resolve(e, inits)
        if e.get("k") == "MethodCall" and e["name"] == "row" and local_of(e["recv"]) == ds and e["args"]:
            return local_of(e["args"][0])
        return None

    for fn in dn:
        c = fn["crate"]
        _REND[0] = Render(c)
        key = fn_key(fn)
        inits = inits_of(fn)
        ps = param_locals(fn)
        ds, meth = ps[0], ps[1]
        loops = list(for_loops(fn["body"]))
        sites = list(distance_site(fn, fn["body"]))
        res.instance("%s : cell and rows agree" % key)
        if not sites or len(loops) < 2:
            res.undecided("%s : shape" % key, "no `matrix[(i, j)] = method.distance(..)` inside two loops (fail closed)", fn_loc(fn))
            continue
        bad = False
        cells = []
        for asg, call in sites:
            l = peel_refs(asg["l"])
            idx = peel_refs(l["i"]) if l.get("k") == "Index" else {}
            if idx.get("k") != "Tup" or len(idx["es"]) != 2:
                res.undecided("%s : cell" % key, "the assigned place is not `matrix[(i, j)]` (fail closed)", fn_loc(fn, asg.get("ln")))
                bad = True
                break
            p, q = local_of(idx["es"][0]), local_of(idx["es"][1])
            ra, rb = row_index(call["args"][0], inits, ds), row_index(call["args"][1], inits, ds)
            if None in (p, q, ra, rb):
                res.undecided("%s : operands" % key, "cell index or row arguments are not plain loop variables (fail closed)", fn_loc(fn, asg.get("ln")))
                bad = True
                break
            cells.append((p, q))
            if local_of(call["recv"]) != meth:
                res.violate("%s : kernel-method-ignored" % key, "the entry is computed with `%s`, not with the method passed in" % _REND[0].e(call["recv"])[:40], fn_loc(fn, call.get("ln")))
                bad = True
                break
            if ra == rb:
                res.violate("%s : kernel-of-a-row-with-itself" % key, "both arguments of distance() are the same row: the entry (i, j) is k(x_i, x_i)", fn_loc(fn, call.get("ln")))
                bad = True
                break
            if p == q:
                res.violate("%s : cell-index-repeated" % key, "the value is stored on the diagonal cell for every pair", fn_loc(fn, asg.get("ln")))
                bad = True
                break
            if {ra, rb} != {p, q}:
                res.violate("%s : entry-of-other-pair" % key, "the cell is indexed by other variables than the rows fed to distance()", fn_loc(fn, asg.get("ln")))
                bad = True
                break
        if bad:
            continue
        res.ok()
        # coverage: both loops over all rows, or a triangle that is mirrored
        res.instance("%s : all cells visited" % key)
        rngs = {}
        for it, pat, body, node in loops:
            bs = [b["local"] for b in pat_bindings(pat)]
            rb_ = range_bounds(it)
            if len(bs) == 1 and rb_:
                rngs[bs[0]] = rb_
        p, q = cells[0]
        if p not in rngs or q not in rngs:
            res.undecided("%s : ranges" % key, "the loops are not plain ranges (fail closed)", fn_loc(fn))
            continue

        def full(v):
            s, e = rngs[v]
            s = peel_refs(s)
            return s.get("k") == "Lit" and str(s.get("v")) == "0" and is_rowcount(e, inits, ds)
        if full(p) and full(q):
            res.ok()
        else:
            part = q if full(p) else p
            s, e = rngs[part]
            s0 = peel_refs(s)
            starts_at_other = local_of(s0) in (p, q) or (s0.get("k") == "Binary" and local_of(s0["l"]) in (p, q))
            mirrored = (q, p) in cells and (p, q) in cells
            if starts_at_other and is_rowcount(e, inits, ds) and full(p if part == q else q):
                if mirrored:
                    res.ok()
                else:
                    res.violate("%s : triangle-not-mirrored" % key, "only the pairs of one triangle are computed and the other triangle is not assigned: the matrix is not symmetric", fn_loc(fn))
            else:
                ee = resolve(e, inits)
                if peel_refs(s).get("k") == "Lit" and str(peel_refs(s).get("v")) != "0":
                    res.violate("%s : rows-skipped" % key, "a loop over the rows starts at %s" % peel_refs(s).get("v"), fn_loc(fn))
                elif ee.get("k") == "Binary" and ee["op"] == "-":
                    res.violate("%s : rows-skipped" % key, "a loop over the rows ends at `%s`" % _REND[0].e(ee)[:30], fn_loc(fn))
                else:
                    res.undecided("%s : coverage" % key, "loop bounds `%s..%s` not classified (fail closed)" % (_REND[0].e(s)[:20], _REND[0].e(e)[:20]), fn_loc(fn))
    for fn in sp:
        c = fn["crate"]
        _REND[0] = Render(c)
        key = fn_key(fn)
        inits = inits_of(fn)
        ps = param_locals(fn)
        if len(ps) < 4:
            res.undecided("%s : signature" % key, "unexpected parameters (fail closed)", fn_loc(fn))
            continue
        ds, kk, meth, nn = ps[0], ps[1], ps[2], ps[3]
        res.instance("%s : stored value and rows agree" % key)
        loops = list(for_loops(fn["body"]))
        outer = next((l for l in loops if through(l[0], ()).get("k") == "MethodCall" and through(l[0], ()).get("name") == "enumerate"
                      and peel_refs(through(l[0], ())["recv"]).get("name") in ("outer_iterator_mut", "outer_iterator")), None)
        if outer is None:
            res.undecided("%s : outer" % key, "no loop over `outer_iterator_mut().enumerate()` (fail closed)", fn_loc(fn))
            continue
        opos = tuple_positions(outer[1])
        i_loc = next((l for l, p_ in opos.items() if p_ == (0,)), None)
        v_loc = next((l for l, p_ in opos.items() if p_ == (1,)), None)
        inner = next((l for l in for_loops(outer[2]) if local_of(through(l[0], ("iter_mut", "iter", "into_iter"))) == v_loc), None)
        if inner is None or i_loc is None:
            res.undecided("%s : inner" % key, "no loop over the entries of the outer line (fail closed)", fn_loc(fn))
            continue
        ipos = tuple_positions(inner[1])
        j_loc = next((l for l, p_ in ipos.items() if p_ == (0,)), None)
        val_loc = next((l for l, p_ in ipos.items() if p_ == (1,)), None)
        sites = list(distance_site(fn, inner[2]))
        if len(sites) != 1 or j_loc is None:
            res.undecided("%s : store" % key, "no single `*val = method.distance(..)` in the inner loop (fail closed)", fn_loc(fn))
            continue
        asg, call = sites[0]
        ra, rb = row_index(call["args"][0], inits, ds), row_index(call["args"][1], inits, ds)
        if local_of(asg["l"]) != val_loc:
            res.undecided("%s : place" % key, "the assigned place is not the entry of the inner loop (fail closed)", fn_loc(fn, asg.get("ln")))
        elif local_of(call["recv"]) != meth:
            res.violate("%s : kernel-method-ignored" % key, "the entry is computed with `%s`, not with the method passed in" % _REND[0].e(call["recv"])[:40], fn_loc(fn, call.get("ln")))
        elif ra is not None and ra == rb:
            res.violate("%s : kernel-of-a-row-with-itself" % key, "both arguments of distance() are the same row: the entry (i, j) is k(x_i, x_i)", fn_loc(fn, call.get("ln")))
        elif {ra, rb} == {i_loc, j_loc}:
            res.ok()
        elif None in (ra, rb):
            res.undecided("%s : operands" % key, "row arguments are not plain loop variables (fail closed)", fn_loc(fn, call.get("ln")))
        else:
            res.violate("%s : entry-of-other-pair" % key, "the rows fed to distance() are not the line index and the stored index of the entry", fn_loc(fn, call.get("ln")))
        # the pattern comes from adjacency_matrix(dataset, k, nn_algo), and it is what is returned
        res.instance("%s : pattern from adjacency_matrix(dataset, k, nn)" % key)
        data_loc = local_of(peel_refs(through(outer[0], ())["recv"])["recv"]) if peel_refs(through(outer[0], ())["recv"]).get("recv") is not None else None
        adj = resolve({"k": "Path", "local": data_loc}, inits) if data_loc is not None else {}
        if callee_name(c, adj) != "adjacency_matrix" or len(adj.get("args") or []) != 3:
            res.undecided("%s : pattern" % key, "the matrix that is filled does not come from adjacency_matrix(..) (fail closed)", fn_loc(fn))
        else:
            a0, a1, a2 = adj["args"]
            k1 = peel_refs(a1)
            if local_of(a0) != ds or local_of(a2) != nn:
                res.undecided("%s : pattern-args" % key, "adjacency_matrix is not called with the records and the neighbour index passed in (fail closed)", fn_loc(fn, adj.get("ln")))
            elif local_of(a1) == kk:
                tail = strip(fn["body"]).get("e")
                if tail is not None and local_of(tail) == data_loc:
                    res.ok()
                else:
                    res.undecided("%s : result" % key, "the filled matrix is not what is returned (fail closed)", fn_loc(fn))
            elif k1.get("k") in ("Binary", "Lit"):
                res.violate("%s : neighbour-count-altered" % key, "adjacency_matrix is asked for `%s` neighbours instead of the configured k" % _REND[0].e(k1)[:20], fn_loc(fn, adj.get("ln")))
            else:
                res.undecided("%s : pattern-k" % key, "neighbour count argument not classified (fail closed)", fn_loc(fn, adj.get("ln")))
    return res.finish(4)


# ---------------------------------------------------------------- KernelMethod::distance
def rule_method(ctx):
    res = RuleResult("R-C06-method", "KernelMethod::distance: the Gaussian arm is exp of a negated sum of squared differences of the two operands; the polynomial arm adds its first and raises to its second parameter; every arm uses both operands")
    F = ctx.facts()
    fns = [f for f in kfns(F, "distance", "linfa_kernel") if (f["d"].get("self_adt") or "").endswith("KernelMethod")]
    if not fns:
        res.missing_anchor("KernelMethod::distance")
        return res.finish(3)
    fn = fns[0]
    c = fn["crate"]
    r = Render(c)
    key = fn_key(fn)
    ps = param_locals(fn)
    a_loc, b_loc = ps[1], ps[2]
    m = next((y for y in walk(fn["body"]) if y.get("k") == "Match" and y.get("src", "Normal") == "Normal"), None)
    if m is None:
        res.missing_anchor("the match over the kernel method in KernelMethod::distance")
        return res.finish(3)
    seen = 0
    for arm in m["arms"]:
        pat = arm["pat"]
        while pat.get("k") == "Ref":
            pat = pat["pat"]
        vname = (c.dfn(pat.get("def")) or {}).get("name")
        if vname not in ("Gaussian", "Linear", "Polynomial"):
            continue
        seen += 1
        body = arm["body"]
        inits = {}
        for y in walk(body):
            if y.get("k") == "LetStmt" and y.get("init") is not None and y["pat"].get("k") == "Bind":
                inits[y["pat"]["local"]] = y["init"]
        used = set(y.get("local") for y in walk(body) if y.get("k") == "Path")
        res.instance("%s : %s uses both operands" % (key, vname))
        if a_loc in used and b_loc in used:
            res.ok()
        else:
            res.violate("%s : kernel-of-one-operand:%s" % (key, vname), "the %s arm does not use both rows: k(a, b) does not depend on one of them" % vname, fn_loc(fn, body.get("ln")))
            continue
        binds = tuple_positions(pat)
        if vname == "Gaussian":
            res.instance("%s : Gaussian exponent is a negated sum of squares" % key)
            ex = next((y for y in walk(body) if y.get("k") == "MethodCall" and y["name"] == "exp"), None)
            if ex is None:
                res.undecided("%s : gaussian-exp" % key, "no exp() in the Gaussian arm (fail closed)", fn_loc(fn, body.get("ln")))
                continue
            sq_ok = [None]

            def squares(e):
                """True when e is a sum over (x - y)^2 of the zipped operands"""
                e = peel_refs(e)
                clo = None
                zp = None
                cur = e
                while cur.get("k") == "MethodCall":
                    if cur["name"] in ("map", "fold") and cur["args"] and strip(cur["args"][-1]).get("k") == "Closure":
                        clo = strip(cur["args"][-1])
                    if cur["name"] == "zip":
                        zp = cur
                    cur = peel_refs(cur["recv"])
                if clo is None or zp is None:
                    return None
                roots = {local_of(through(zp["recv"], ("iter", "into_iter", "view"))), local_of(through(zp["args"][0], ("iter", "into_iter", "view")))}
                if roots != {a_loc, b_loc}:
                    return "operands"
                pl = [b["local"] for p_ in clo["params"] for b in pat_bindings(p_)][-2:]
                bd = peel_refs(clo["body"])
                while bd.get("k") == "Block" and bd.get("e") is not None and not bd["stmts"]:
                    bd = peel_refs(bd["e"])

                def diff(x):
                    x = peel_refs(x)
                    if x.get("k") == "Binary" and {local_of(x["l"]), local_of(x["r"])} == set(pl):
                        return x["op"]
                    return None
                # acc + d*d (fold) or d*d (map)
                if bd.get("k") == "Binary" and bd["op"] == "+" and len(clo["params"]) == 2 and diff(bd["l"]) is None:
                    bd = peel_refs(bd["r"])
                if bd.get("k") == "Binary" and bd["op"] == "*":
                    ops = (diff(bd["l"]), diff(bd["r"]))
                elif bd.get("k") == "MethodCall" and bd["name"] in ("powi", "powf") and bd["args"] and lit_float(peel_refs(bd["args"][0]).get("v")) == 2.0:
                    ops = (diff(bd["recv"]),) * 2
                else:
                    return None
                if ops == ("-", "-"):
                    return True
                if None in ops:
                    return None
                return "factors"

            def sign(e, depth=0):
                e = peel_refs(e)
                k_ = e.get("k")
                if depth > 8:
                    return None
                if k_ == "Unary" and e["op"] == "-":
                    s = sign(e["e"], depth + 1)
                    return None if s is None else -s
                if k_ == "Binary" and e["op"] in ("/", "*"):
                    a, b = sign(e["l"], depth + 1), sign(e["r"], depth + 1)
                    return None if None in (a, b) else a * b
                if k_ == "Lit":
                    return -1 if str(e.get("v")).startswith("-") else 1
                if k_ == "Path" and e.get("local") in binds:
                    return 1            # the bandwidth (documented positive)
                if k_ == "Path" and e.get("local") in inits:
                    return sign(inits[e["local"]], depth + 1)
                if k_ == "MethodCall" and e["name"] in ("sum", "fold", "map"):
                    v = squares(e)
                    sq_ok[0] = v
                    return 1 if v is True else None
                if k_ == "MethodCall" and e["name"] in ("sqrt", "abs"):
                    return sign(e["recv"], depth + 1) and 1
                if k_ == "Call" and callee_name(c, e) in ("one", "cast", "from") :
                    return 1
                return None
            s = sign(ex["recv"])
            if sq_ok[0] == "factors":
                res.violate("%s : squared-distance-malformed" % key, "the summed term is not the square of the difference of the two operands' components", fn_loc(fn, body.get("ln")))
            elif sq_ok[0] == "operands":
                res.violate("%s : kernel-of-one-operand:Gaussian" % key, "the zipped operands are not the two rows", fn_loc(fn, body.get("ln")))
            elif s == -1:
                res.ok()
            elif s == 1:
                res.violate("%s : gaussian-exponent-positive" % key, "the exponent `%s` is not negated: the entry grows with the distance, the diagonal is the minimum instead of the maximum and the matrix is not positive semidefinite" % r.e(ex["recv"])[:40], fn_loc(fn, ex.get("ln")))
            else:
                res.undecided("%s : gaussian-form" % key, "exponent `%s` not classified (fail closed)" % r.e(ex["recv"])[:40], fn_loc(fn, ex.get("ln")))
        elif vname == "Polynomial":
            res.instance("%s : Polynomial(constant, degree) roles" % key)
            pw = next((y for y in walk(body) if y.get("k") == "MethodCall" and y["name"] in ("powf", "powi", "pow")), None)
            p0 = next((l for l, p_ in binds.items() if p_ == (0,)), None)
            p1 = next((l for l, p_ in binds.items() if p_ == (1,)), None)
            if pw is None or not pw["args"] or p0 is None or p1 is None:
                res.undecided("%s : polynomial-form" % key, "no power in the polynomial arm (fail closed)", fn_loc(fn, body.get("ln")))
                continue
            conv = next((y for y in walk(body) if (y.get("k") == "MethodCall" and y["name"] in ("to_i32", "to_i64", "to_u32", "to_usize", "to_isize", "round", "trunc", "floor", "ceil") and local_of(y["recv"]) == p1)
                         or (y.get("k") == "Cast" and local_of(y["e"]) == p1)), None)
            if conv is not None and any(y.get("k") == "MethodCall" and y["name"] in ("powi", "pow") for y in walk(body)):
                exact = any(y.get("k") == "MethodCall" and y["name"] == "fract" for y in walk(body)) or any(
                    y.get("k") == "Binary" and y["op"] == "==" and p1 in (local_of(y["l"]), local_of(y["r"])) for y in walk(body))
                if exact:
                    res.undecided("%s : polynomial-integer-path" % key, "an integer power is taken behind a test of the degree that was not evaluated (fail closed)", fn_loc(fn, conv.get("ln")))
                else:
                    res.violate("%s : degree-truncated" % key, "the degree is converted to an integer (`%s`) and used as an integer power: the conversion truncates, so Polynomial(c, 2.5) is computed as degree 2" % r.e(conv)[:30], fn_loc(fn, conv.get("ln")))
                continue
            expo = local_of(pw["args"][0])
            base_locals = set(y.get("local") for y in walk(pw["recv"]) if y.get("k") == "Path")
            added = any(y.get("k") == "Binary" and y["op"] == "+" and p0 in (local_of(y["l"]), local_of(y["r"])) for y in walk(pw["recv"]))
            if expo == p1 and added and p1 not in base_locals:
                res.ok()
            elif expo == p0 and p1 in base_locals:
                res.violate("%s : polynomial-roles-swapped" % key, "the documented Polynomial(constant, degree) raises to its first and adds its second parameter", fn_loc(fn, pw.get("ln")))
            elif expo == p1 and not added:
                res.violate("%s : polynomial-constant-dropped" % key, "the constant of Polynomial(constant, degree) is not added to the inner product", fn_loc(fn, pw.get("ln")))
            else:
                res.undecided("%s : polynomial-roles" % key, "`%s` not classified (fail closed)" % r.e(pw)[:50], fn_loc(fn, pw.get("ln")))
    if seen < 3:
        res.missing_anchor("the three arms of KernelMethod::distance (found %d)" % seen)
    return res.finish(5)


# ---------------------------------------------------------------- adjacency_matrix
def rule_adjacency(ctx):
    """The pattern of the sparse kernel: i ~ j iff one is among the other's k nearest, plus the diagonal.  The index answers
    a query for a stored point with the point itself first, so k + 1 are asked for, the point is dropped and the diagonal
    is pushed explicitly; CSR needs data / indices in step and one row pointer per row; `one is among the other's` is the
    union with the transpose."""
    res = RuleResult("R-C06-adjacency", "adjacency_matrix asks for k + 1 neighbours, drops the point itself and adds the diagonal once, keeps the CSR buffers in step with one row pointer per row, builds a square matrix over the rows and symmetrises it with its own transpose")
    F = ctx.facts()
    fns = kfns(F, "adjacency_matrix", "linfa_kernel")
    if not fns:
        res.missing_anchor("linfa_kernel::sparse::adjacency_matrix")
        return res.finish(6)
    fn = fns[0]
    c = fn["crate"]
    r = Render(c)
    _REND[0] = r
    key = fn_key(fn)
    inits = inits_of(fn)
    ps = param_locals(fn)
    ds, kk = ps[0], ps[1]
    ctor = next((y for y in walk(fn["body"]) if callee_name(c, y) in ("new_from_unsorted", "new", "new_csc", "try_new") and len(y.get("args") or []) == 4), None)
    loops = list(for_loops(fn["body"]))
    outer = next((l for l in loops if any(y.get("k") == "MethodCall" and y["name"] == "k_nearest" for y in walk(l[2])) and any(y.get("k") == "MethodCall" and y["name"] == "enumerate" for y in walk(l[0]))), None)
    if ctor is None or outer is None:
        res.missing_anchor("the row loop with k_nearest and the CSR constructor in adjacency_matrix")
        return res.finish(6)
    indptr, indices, data = [local_of(a) for a in ctor["args"][1:4]]
    opos = tuple_positions(outer[1])
    m_loc = next((l for l, p_ in opos.items() if p_ == (0,)), None)
    # (a) the query size
    res.instance("%s : query for k + 1" % key)
    kn = next(y for y in walk(outer[2]) if y.get("k") == "MethodCall" and y["name"] == "k_nearest")
    q = peel_refs(kn["args"][1]) if len(kn["args"]) >= 2 else {}
    q = resolve(q, inits) if q.get("k") == "Path" and q.get("local") != kk else q

    def lit1(e):
        e = peel_refs(e)
        return e.get("k") == "Lit" and str(e.get("v")) == "1"
    if q.get("k") == "Binary" and q["op"] == "+" and ((local_of(q["l"]) == kk and lit1(q["r"])) or (local_of(q["r"]) == kk and lit1(q["l"]))):
        res.ok()
    elif local_of(q) == kk:
        res.violate("%s : query-without-self-slot" % key, "k_nearest is asked for k points: the point itself is among them and is dropped, so every row gets k - 1 neighbours", fn_loc(fn, kn.get("ln")))
    elif q.get("k") == "Binary" and kk in (local_of(q.get("l")), local_of(q.get("r"))):
        res.violate("%s : query-size:%s" % (key, q["op"]), "k_nearest is asked for `%s` points instead of k + 1" % r.e(q)[:20], fn_loc(fn, kn.get("ln")))
    else:
        res.undecided("%s : query-size" % key, "the query size `%s` was not classified (fail closed)" % r.e(q)[:30], fn_loc(fn, kn.get("ln")))
    # inner loop over the neighbours
    nb_loc = next((y["pat"]["local"] for y in walk(outer[2]) if y.get("k") == "LetStmt" and y["pat"].get("k") == "Bind" and y.get("init") is not None and any(z is kn for z in walk(y["init"]))), None)
    inner = next((l for l in for_loops(outer[2]) if local_of(through(l[0], ("iter", "into_iter", "iter_mut"))) == nb_loc and nb_loc is not None), None)
    if inner is None:
        res.undecided("%s : neighbour-loop" % key, "no loop over the result of k_nearest (fail closed)", fn_loc(fn))
        return res.finish(6)
    ipos = tuple_positions(inner[1])
    i_loc = next((l for l, p_ in ipos.items() if p_ == (1,)), None)

    def pushes(root, buf, stop=()):
        return [y for y in walk_prune(root, stop) if y.get("k") == "MethodCall" and y["name"] == "push" and local_of(y["recv"]) == buf]
    # (b) diagonal once, self dropped
    res.instance("%s : diagonal once, the point itself dropped" % key)
    diag = [y for y in pushes(outer[2], indices, stop=(inner[3],)) if local_of(y["args"][0]) == m_loc]
    npush = [y for y in pushes(inner[2], indices) if local_of(y["args"][0]) == i_loc]
    guard = None          # True: guarded by m != i; False: no guard; None: some other condition
    if npush:
        conds = []
        for y in walk(inner[2]):
            if y.get("k") == "If" and any(z is npush[0] for z in walk(y["then"])):
                conds.append((strip(y["c"]), True))
            elif y.get("k") == "If" and y.get("else") is not None and any(z is npush[0] for z in walk(y["else"])):
                conds.append((strip(y["c"]), False))
        # `if m == i { continue; }` before the push
        skip = any(y.get("k") == "If" and strip(y["c"]).get("k") == "Binary" and strip(y["c"])["op"] == "==" and {local_of(strip(y["c"])["l"]), local_of(strip(y["c"])["r"])} == {m_loc, i_loc}
                   and any(z.get("k") == "Continue" for z in walk(y["then"])) for y in walk(inner[2]))
        if not conds:
            guard = True if skip else False
        elif len(conds) == 1 and conds[0][0].get("k") == "Binary" and {local_of(conds[0][0]["l"]), local_of(conds[0][0]["r"])} == {m_loc, i_loc}:
            op, pos = conds[0][0]["op"], conds[0][1]
            guard = True if (op == "!=" and pos) or (op == "==" and not pos) else None
            if (op == "==" and pos) or (op == "!=" and not pos):
                guard = "inverted"
    if not npush:
        res.undecided("%s : neighbour-push" % key, "no `indices.push(neighbour)` in the neighbour loop (fail closed)", fn_loc(fn))
    elif guard == "inverted":
        res.violate("%s : only-self-kept" % key, "the neighbour loop keeps the point itself and drops the neighbours", fn_loc(fn, npush[0].get("ln")))
    elif len(diag) == 1 and guard is True:
        res.ok()
    elif len(diag) == 1 and guard is False:
        res.violate("%s : self-not-dropped" % key, "the diagonal is pushed explicitly and the point itself is not filtered out of its own neighbours: the row holds the diagonal twice and k + 1 further slots", fn_loc(fn, npush[0].get("ln")))
    elif len(diag) == 0 and guard is True:
        res.violate("%s : diagonal-missing" % key, "the point itself is dropped from its neighbours and no diagonal entry is pushed", fn_loc(fn))
    elif len(diag) > 1:
        res.violate("%s : diagonal-twice" % key, "the diagonal entry of a row is pushed %d times" % len(diag), fn_loc(fn, diag[1].get("ln")))
    else:
        res.undecided("%s : self-handling" % key, "diagonal pushes: %d, guard: %s (fail closed)" % (len(diag), guard), fn_loc(fn))
    # (c) buffers in step
    res.instance("%s : indices / data / counter advance together" % key)
    added = None
    ptr_pushes = pushes(outer[2], indptr)
    if ptr_pushes:
        added = local_of(ptr_pushes[-1]["args"][0])
    out_of_step = None
    n_sites = 0
    for blk in walk(outer[2]):
        if blk.get("k") != "Block":
            continue
        direct = [strip(s) for s in blk["stmts"]] + ([strip(blk["e"])] if blk.get("e") is not None else [])
        ni = sum(1 for s in direct if s.get("k") == "MethodCall" and s["name"] == "push" and local_of(s["recv"]) == indices)
        nd = sum(1 for s in direct if s.get("k") == "MethodCall" and s["name"] == "push" and local_of(s["recv"]) == data)
        na = sum(1 for s in direct if s.get("k") == "AssignOp" and s["op"] == "+" and local_of(s["l"]) == added and lit1(s["r"]))
        if ni or nd or na:
            n_sites += 1
            if not (ni == nd == na):
                out_of_step = (blk, ni, nd, na)
    if added is None or n_sites == 0:
        res.undecided("%s : buffers" % key, "pushes on the CSR buffers not found (fail closed)", fn_loc(fn))
    elif out_of_step:
        res.violate("%s : buffers-out-of-step" % key, "a block pushes %d indices, %d values and advances the counter %d times: row pointers, indices and values no longer describe the same entries" % out_of_step[1:], fn_loc(fn, out_of_step[0].get("ln")))
    else:
        res.ok()
    # (d) one row pointer per row
    res.instance("%s : one row pointer per row" % key)
    in_inner = pushes(inner[2], indptr)
    direct_ptr = pushes(outer[2], indptr, stop=(inner[3],))
    first = [y for y in pushes(fn["body"], indptr, stop=(outer[3],))]
    if in_inner:
        res.violate("%s : row-pointer-per-neighbour" % key, "the row pointer is pushed inside the neighbour loop", fn_loc(fn, in_inner[0].get("ln")))
    elif len(direct_ptr) == 1 and len(first) == 1 and str(peel_refs(first[0]["args"][0]).get("v")) == "0":
        res.ok()
    elif len(direct_ptr) == 0:
        res.violate("%s : row-pointer-missing" % key, "no row pointer is pushed per row", fn_loc(fn))
    else:
        res.undecided("%s : row-pointers" % key, "%d per row, %d before the loop (fail closed)" % (len(direct_ptr), len(first)), fn_loc(fn))
    # (e) square over the rows
    res.instance("%s : square over the rows" % key)
    shp = peel_refs(ctor["args"][0])
    if shp.get("k") == "Tup" and len(shp["es"]) == 2 and all(is_rowcount(e, inits, ds) for e in shp["es"]):
        res.ok()
    elif shp.get("k") == "Tup" and len(shp["es"]) == 2 and any(is_rowcount(e, inits, ds) for e in shp["es"]):
        res.violate("%s : not-square" % key, "the adjacency matrix is built with shape `%s`" % r.e(shp)[:40], fn_loc(fn, ctor.get("ln")))
    else:
        res.undecided("%s : shape" % key, "shape `%s` not classified (fail closed)" % r.e(shp)[:40], fn_loc(fn, ctor.get("ln")))
    # (f) symmetrised with its own transpose
    res.instance("%s : symmetrised" % key)
    tail = strip(fn["body"]).get("e")
    binop = next((y for y in walk(fn["body"]) if callee_name(c, y) == "csmat_binop" and len(y["args"]) == 3), None)
    transposes = [y for y in walk(fn["body"]) if y.get("k") == "MethodCall" and y["name"] in ("transpose_view", "transpose_into", "transpose_mut", "t")]
    mat0 = next((y["pat"]["local"] for y in walk(fn["body"]) if y.get("k") == "LetStmt" and y["pat"].get("k") == "Bind" and y.get("init") is not None and any(z is ctor for z in walk(y["init"]))), None)
    if binop is not None and transposes:
        l0 = local_of(through(binop["args"][0], ("view",)))
        t0 = resolve(through(binop["args"][1], ("view",)), inits)
        troot = local_of(through(t0, ("to_other_storage", "transpose_view", "transpose_into", "view", "to_owned", "to_csr", "to_csc")))
        clo = strip(binop["args"][2])
        cb = peel_refs(clo["body"]) if clo.get("k") == "Closure" else {}
        while cb.get("k") == "Block" and not cb["stmts"] and cb.get("e") is not None:
            cb = peel_refs(cb["e"])
        adds = (cb.get("k") == "MethodCall" and cb["name"] in ("add", "max")) or (cb.get("k") == "Binary" and cb["op"] == "+")
        reaches = tail is not None and any(z is binop for z in walk(resolve(tail, inits))) or (tail is not None and resolve(tail, inits) is binop)
        if l0 == mat0 and troot == mat0 and adds and reaches:
            res.ok()
        elif l0 is not None and local_of(through(binop["args"][1], ("view",))) == l0:
            res.violate("%s : combined-with-itself" % key, "the matrix is combined with itself, not with its transpose: the neighbour relation stays one-directional", fn_loc(fn, binop.get("ln")))
        elif l0 is not None and troot is not None and l0 == troot and not adds:
            res.violate("%s : symmetrised-by-intersection" % key, "the matrix and its transpose are combined with `%s`: a pair stays only when each point is among the other's neighbours" % r.e(cb)[:30], fn_loc(fn, binop.get("ln")))
        else:
            res.undecided("%s : symmetrisation" % key, "the combination with the transpose was not recognised (fail closed)", fn_loc(fn, binop.get("ln")))
    elif not transposes and tail is not None:
        res.violate("%s : not-symmetrised" % key, "the neighbour graph is returned as built, never combined with its transpose: j among the nearest of i does not give an entry (j, i)", fn_loc(fn))
    else:
        res.undecided("%s : symmetrisation" % key, "no csmat_binop with the transpose (fail closed)", fn_loc(fn))
    return res.finish(6)


# ---------------------------------------------------------------- hierarchical
def _hier(F):
    for fn in F.all_fns():
        d = fn["d"]
        if d["krate"] == "linfa_hierarchical" and d["name"] == "transform" and (d.get("self_adt") or "").endswith("ValidHierarchicalCluster") and any(callee_name(fn["crate"], y) == "linkage" for y in walk(fn["body"])):
            return fn
    return None


def _steps_loop(fn, inits):
    c = fn["crate"]
    for l in for_loops(fn["body"]):
        it = through(l[0], ("iter", "into_iter"))
        if it.get("k") == "MethodCall" and it["name"] == "steps":
            return l
    return None


def _self_field(e):
    e = peel_refs(e)
    if e.get("k") == "Field" and peel_refs(e["e"]).get("k") == "Path" and peel_refs(e["e"]).get("name") == "self":
        return e["name"]
    return None


def _cluster_map(loop_body):
    for y in walk(loop_body):
        if y.get("k") == "MethodCall" and y["name"] == "remove" and local_of(y["recv"]) is not None:
            return local_of(y["recv"])
    return None


def rule_stop(ctx):
    """Exactly min(requested, n) clusters: the replay stops as soon as the number of clusters *before* the next merge is
    <= the request.  Every merge below the threshold: it stops at the first step whose dissimilarity is >= the threshold."""
    res = RuleResult("R-C06-stop", "the merge replay stops on `clusters.len() <= requested` / `step.dissimilarity >= threshold`, and the test stands before the merge")
    F = ctx.facts()
    fn = _hier(F)
    if fn is None:
        res.missing_anchor("ValidHierarchicalCluster::transform (the one calling kodama::linkage)")
        return res.finish(3)
    c = fn["crate"]
    r = Render(c)
    key = fn_key(fn)
    inits = inits_of(fn)
    # the dissimilarities of successive merges are not ascending for every linkage (centroid and median linkage produce
    # inversions): a binary search over the steps (`partition_point`, `binary_search_by`) is a search on an unsorted sequence
    for y in walk(fn["body"]):
        if y.get("k") == "MethodCall" and y["name"] in ("partition_point", "binary_search_by", "binary_search_by_key", "binary_search") and any(z.get("k") == "Field" and z["name"] == "dissimilarity" for a in y["args"] for z in walk(a)):
            res.instance("%s : %s over the steps" % (key, y["name"]))
            res.violate("%s : binary-search-over-merge-steps" % key, "`%s`: the dissimilarities of successive merges are not monotone for every linkage method on offer (centroid / median linkage invert), so the first step at or above the threshold is not found by bisection: merges above the threshold are replayed or merges below it are dropped" % r.e(y)[:60], fn_loc(fn, y.get("ln")))
    # the labels come out of the replay of the linkage: no result is returned before the linkage was computed (a shortcut
    # "the threshold exceeds every possible dissimilarity" is wrong for linkages whose merge heights grow beyond the pairwise
    # dissimilarities - Ward)
    link = next((y for y in walk(fn["body"]) if y.get("k") == "Call" and (c.dfn(strip(y["f"]).get("def")) or {}).get("name") == "linkage"), None)
    if link is not None:
        for y in walk(fn["body"]):
            if y.get("k") == "Ret" and y.get("e") is not None and (y.get("ln") or 0) < (link.get("ln") or 0):
                e0 = peel_refs(y["e"])
                nm0 = (c.dfn(strip(e0["f"]).get("def")) or {}).get("name") if e0.get("k") == "Call" and strip(e0["f"]).get("k") == "Path" else None
                if nm0 not in ("Err", "from_residual"):
                    res.instance("%s : result before the linkage" % key)
                    from .layout import with_parents as _wp
                    guards = []
                    for y2, anc2 in _wp(fn["body"]):
                        if y2 is y:
                            guards = [a for a in anc2 if a.get("k") in ("If", "Match")]
                    on_threshold = any((z.get("k") in ("Path", "TupleStruct") and (c.dfn(z.get("def")) or {}).get("name") == "Distance") or (z.get("k") == "Field" and z["name"] == "stopping") for g_ in guards for z in walk(g_.get("c") or g_.get("scrut") or g_))
                    on_method = any(z.get("k") == "Field" and z["name"] == "method" for g_ in guards for z in walk(g_))
                    if not on_threshold or on_method:
                        # trivial inputs (no or one observation, at least as many clusters requested as there are points) have
                        # answers that need no linkage; a shortcut on the threshold that also looks at the linkage method may be right
                        res.undecided("%s : shortcut-before-linkage" % key, "`%s` returns labels before the linkage is computed; that these are the labels the replay would give is not decided" % r.e(y)[:60], fn_loc(fn, y.get("ln")))
                        continue
                    res.violate("%s : labels-without-linkage" % key, "`%s` returns labels before the linkage is computed: the merge heights of Ward linkage exceed the largest pairwise dissimilarity, so no bound on the inputs decides the clustering" % r.e(y)[:60], fn_loc(fn, y.get("ln")))
    lp = _steps_loop(fn, inits)
    if lp is None:
        res.missing_anchor("the loop over the linkage steps")
        return res.finish(3)
    step_loc = next((b["local"] for b in pat_bindings(lp[1])), None)
    cmap = _cluster_map(lp[2])
    m = next((y for y in walk(lp[2]) if y.get("k") == "Match" and y.get("src", "Normal") == "Normal" and _self_field(y["scrut"]) == "stopping"), None)
    FLIP = {"<": ">", "<=": ">=", ">": "<", ">=": "<=", "==": "==", "!=": "!="}
    # the same tests written as one `if let Criterion::X(v) = self.stopping { if <comparison> { break } }` per criterion
    iflets = []
    counter = None
    if m is None:
        body0 = strip(lp[2])
        stmts0 = list(body0.get("stmts") or []) + ([body0["e"]] if body0.get("e") is not None else [])
        for i0, st0 in enumerate(stmts0):
            s0 = strip(st0)
            cnd0 = strip(s0.get("c") or {}) if s0.get("k") == "If" else {}
            if cnd0.get("k") == "Let" and _self_field(cnd0.get("init")) == "stopping" and s0.get("else") is None:
                inner = [y for y in walk(s0["then"]) if y.get("k") == "If" and any(z.get("k") == "Break" for z in walk(y["then"]))]
                if len(inner) == 1:
                    iflets.append((i0, cnd0["pat"], inner[0]))
    if m is None and iflets and cmap is None:
        # the number of clusters kept in a counter that every merge decrements (the clusters themselves in a vector indexed by
        # id): the counter plays the part of `clusters.len()`, its decrement the part of the merge
        for i0, p_, i_ in iflets:
            cn = strip(i_["c"])
            if cn.get("k") == "Binary":
                for side in (cn["l"], cn["r"]):
                    sl = peel_refs(side)
                    if sl.get("k") == "Path" and "local" in sl and any(z.get("k") == "AssignOp" and z["op"] == "-" and local_of(z["l"]) == sl["local"] for z in walk(lp[2])):
                        counter = sl["local"]
    if (m is None and not iflets) or (cmap is None and counter is None):
        res.undecided("%s : stop-test" % key, "no match over self.stopping inside the step loop (fail closed)", fn_loc(fn))
        return res.finish(3)
    arms_ = [(arm["pat"], arm["body"], None) for arm in m["arms"]] if m is not None else [(p_, i_["c"], (i0, i_)) for i0, p_, i_ in iflets]
    positions = {}
    for pat, body_, where in arms_:
        while pat.get("k") == "Ref":
            pat = pat["pat"]
        vname = (c.dfn(pat.get("def")) or {}).get("name")
        bl = [b["local"] for b in pat_bindings(pat)]
        if vname not in ("NumClusters", "Distance") or len(bl) != 1:
            continue
        e = peel_refs(body_)
        while e.get("k") == "Block" and not e["stmts"] and e.get("e") is not None:
            e = peel_refs(e["e"])
        res.instance("%s : %s" % (key, vname))
        if where is not None:
            positions[vname] = where
        if e.get("k") != "Binary" or e["op"] not in FLIP:
            res.undecided("%s : %s-form" % (key, vname), "`%s` is not a comparison (fail closed)" % r.e(e)[:40], fn_loc(fn, e.get("ln")))
            continue

        def is_qty(x):
            x = peel_refs(x)
            if vname == "NumClusters":
                if counter is not None and x.get("k") == "Path" and x.get("local") == counter:
                    return True
                return x.get("k") == "MethodCall" and x["name"] == "len" and local_of(x["recv"]) == cmap
            return x.get("k") == "Field" and x["name"] == "dissimilarity" and local_of(x["e"]) == step_loc
        if is_qty(e["l"]) and local_of(e["r"]) == bl[0]:
            op = e["op"]
        elif is_qty(e["r"]) and local_of(e["l"]) == bl[0]:
            op = FLIP[e["op"]]
        else:
            res.undecided("%s : %s-operands" % (key, vname), "`%s` does not compare the %s with the configured value (fail closed)" % (r.e(e)[:40], "number of clusters" if vname == "NumClusters" else "step's dissimilarity"), fn_loc(fn, e.get("ln")))
            continue
        if vname == "NumClusters":
            if op == "<=":
                res.ok()
            elif op == "<":
                res.violate("%s : one-merge-too-many" % key, "the replay stops only when fewer clusters than requested are left: it returns requested - 1 clusters", fn_loc(fn, e.get("ln")))
            elif op == "==":
                res.violate("%s : count-test-misses-small-inputs" % key, "with fewer samples than requested clusters the number of clusters never equals the request: everything is merged into one cluster instead of min(requested, n)", fn_loc(fn, e.get("ln")))
            else:
                res.violate("%s : count-test-reversed" % key, "`clusters.len() %s requested` stops while more clusters than requested are left" % op, fn_loc(fn, e.get("ln")))
        else:
            if op == ">=":
                res.ok()
            elif op == ">":
                res.violate("%s : merges-at-the-threshold" % key, "a step whose dissimilarity equals the threshold is still merged: the documented clusters are those of the merges *below* it", fn_loc(fn, e.get("ln")))
            else:
                res.violate("%s : distance-test-reversed" % key, "`dissimilarity %s threshold` stops at the first merge below the threshold" % op, fn_loc(fn, e.get("ln")))
    # position of the test
    res.instance("%s : test before the merge" % key)
    body = strip(lp[2])
    stmts = list(body.get("stmts") or []) + ([body["e"]] if body.get("e") is not None else [])
    m_local = next((y["pat"]["local"] for y in stmts if y.get("k") == "LetStmt" and y["pat"].get("k") == "Bind" and y.get("init") is not None and any(z is m for z in walk(y["init"]))), None)
    brk = None
    for i, st in enumerate(stmts):
        s = strip(st)
        if s.get("k") == "If" and any(z.get("k") == "Break" for z in walk(s["then"])):
            cnd = strip(s["c"])
            if (m_local is not None and local_of(cnd) == m_local) or any(z is m for z in walk(cnd)):
                neg = cnd.get("k") == "Unary" and cnd["op"] == "!"
                brk = (i, neg, s)
    rem = next((i for i, st in enumerate(stmts) if any(z.get("k") == "MethodCall" and z["name"] in ("remove", "insert") and local_of(z["recv"]) == cmap for z in walk(st))), None)
    if counter is not None:
        rem = next((i for i, st in enumerate(stmts) if any((z.get("k") == "AssignOp" and z["op"] == "-" and local_of(z["l"]) == counter) or (z.get("k") == "MethodCall" and z["name"] in ("take", "remove", "push", "insert", "swap_remove")) for z in walk(st))), None)
    if m is None and rem is not None and positions:
        late = [(vn, w) for vn, w in sorted(positions.items()) if w[0] > rem]
        if len(positions) < 2:
            res.undecided("%s : test-position" % key, "only %s of the two criteria has a recognised `if let .. { if .. { break } }` test (fail closed)" % "/".join(sorted(positions)), fn_loc(fn))
        elif late:
            for vn, w in late:
                res.violate("%s : stop-test-after-merge" % key, "the %s test is evaluated after the merge of the step: one merge more than documented is performed (and the count is taken after it)" % vn, fn_loc(fn, w[1].get("ln")))
        else:
            res.ok()
        return res.finish(3)
    if brk is None or rem is None:
        res.undecided("%s : test-position" % key, "`if <stop test> { break }` and the merge were not found as statements of the loop body (fail closed)", fn_loc(fn))
    elif brk[1]:
        res.violate("%s : stop-test-negated" % key, "the loop breaks when the stop test is false", fn_loc(fn, brk[2].get("ln")))
    elif brk[0] < rem:
        res.ok()
    else:
        res.violate("%s : stop-test-after-merge" % key, "the stop test is evaluated after the merge of the step: one merge more than documented is performed (and the count is taken after it)", fn_loc(fn, brk[2].get("ln")))
    return res.finish(3)


def rule_offset(ctx):
    """A running offset whose advance depends on the loop index (`start += n - row - 1`) is the position of iteration `row` in
    the output: it has to advance in every iteration, also in those that have nothing to write.  A `continue` before the
    advance shifts everything that follows."""
    from .layout import with_parents
    res = RuleResult("R-C06-offset", "in linfa-kernel a running position that is advanced by an amount depending on the loop index is advanced on every path through the loop body (no `continue` skips it)")
    F = ctx.facts()
    n = 0
    scanned = 0
    for fn in F.all_fns():
        d = fn["d"]
        if d["krate"] != "linfa_kernel" or "tests" in d["path"] or fn.get("exp"):
            continue
        c = fn["crate"]
        r = Render(c)
        loops = list(for_loops(fn["body"]))
        if loops:
            scanned += 1
        for it, pat, body, node in loops:
            b = strip(body)
            if b.get("k") != "Block":
                continue
            stmts = list(b.get("stmts") or []) + ([b["e"]] if b.get("e") is not None else [])
            lb = set(x["local"] for x in pat_bindings(pat))
            inner_lets = set(x["local"] for s_ in stmts for y in walk(s_) if y.get("k") == "LetStmt" for x in pat_bindings(y["pat"]))
            adv = [(i, strip(s_)) for i, s_ in enumerate(stmts) if strip(s_).get("k") == "AssignOp" and strip(s_)["op"] in ("+", "-") and local_of(strip(s_)["l"]) is not None
                   and local_of(strip(s_)["l"]) not in inner_lets and any(z.get("k") == "Path" and z.get("local") in lb for z in walk(strip(s_)["r"]))]
            if not adv:
                continue
            i_adv, a = adv[-1]
            n += 1
            key = fn_key(fn)
            res.instance("%s : `%s` (line %s)" % (key, r.e(a)[:40], a.get("ln")))
            bad = None
            for s_ in stmts[:i_adv]:
                for y, anc in with_parents(s_):
                    if y.get("k") == "Continue" and not any(x.get("k") == "Loop" or (x.get("k") == "Match" and x.get("src") == "ForLoopDesugar") or x.get("k") == "Closure" for x in anc):
                        bad = y
            if bad is not None:
                res.violate("%s : position-not-advanced-on-continue" % key, "a `continue` (line %s) skips `%s`: the position of every later iteration is short by what the skipped iterations should have added" % (bad.get("ln"), r.e(a)[:40]), fn_loc(fn, bad.get("ln")))
            else:
                res.ok()
    res.instance("functions of linfa-kernel with loops scanned: %d" % scanned)
    if scanned >= 3:
        res.ok()
    else:
        res.missing_anchor("loops in linfa-kernel (found %d functions)" % scanned)
    return res.finish(1)


def rule_countarith(ctx):
    """min(requested, n) clusters: requesting more clusters than there are samples is legal (only 0 is rejected) and gives n
    clusters.  `n - requested` in unsigned arithmetic is only defined for requested <= n; without a guard (a comparison, a
    min, a saturating subtraction) it overflows exactly in that case."""
    res = RuleResult("R-C06-countarith", "the requested number of clusters is not subtracted from the number of samples (or the reverse) in unsigned arithmetic without a guard: more clusters than samples may be requested")
    F = ctx.facts()
    fn = _hier(F)
    if fn is None:
        res.missing_anchor("ValidHierarchicalCluster::transform")
        return res.finish(1)
    c = fn["crate"]
    r = Render(c)
    key = fn_key(fn)
    inits = inits_of(fn)
    res.instance("%s : arithmetic on the requested cluster count" % key)
    bad = None
    for m in walk(fn["body"]):
        if m.get("k") != "Match" or m.get("src", "Normal") != "Normal" or _self_field(m["scrut"]) != "stopping":
            continue
        for arm in m["arms"]:
            pat = arm["pat"]
            while pat.get("k") == "Ref":
                pat = pat["pat"]
            if (c.dfn(pat.get("def")) or {}).get("name") != "NumClusters":
                continue
            bl = [b["local"] for b in pat_bindings(pat)]
            if len(bl) != 1:
                continue
            guarded = arm.get("guard") is not None and any(z.get("k") == "Path" and z.get("local") == bl[0] for z in walk(arm["guard"]))
            for y in walk(arm["body"]):
                if y.get("k") == "Binary" and y["op"] == "-" and bl[0] in (local_of(y["l"]), local_of(y["r"])):
                    other = y["l"] if local_of(y["r"]) == bl[0] else y["r"]
                    oe = resolve(other, inits)
                    sized = (oe.get("k") == "MethodCall" and oe["name"] in ("size", "nsamples", "len"))
                    inner_guard = any(z.get("k") == "If" and any(w.get("k") == "Path" and w.get("local") == bl[0] for w in walk(z["c"])) and any(w is y for w in walk(z)) for z in walk(arm["body"]))
                    if sized and not guarded and not inner_guard:
                        bad = y
    if bad is not None:
        res.violate("%s : cluster-count-subtraction-unguarded" % key, "`%s` is computed in unsigned arithmetic without a guard: requesting more clusters than there are samples (legal, and documented to give one cluster per sample) overflows" % r.e(bad)[:50], fn_loc(fn, bad.get("ln")))
    else:
        res.ok()
    return res.finish(1)


def rule_merge(ctx):
    res = RuleResult("R-C06-merge", "a merge removes the two clusters of the step and inserts the union of their members under a fresh id that starts at n and advances by one (kodama's numbering)")
    F = ctx.facts()
    fn = _hier(F)
    if fn is None:
        res.missing_anchor("ValidHierarchicalCluster::transform")
        return res.finish(3)
    c = fn["crate"]
    r = Render(c)
    key = fn_key(fn)
    inits = inits_of(fn)
    lp = _steps_loop(fn, inits)
    if lp is None:
        res.missing_anchor("the loop over the linkage steps")
        return res.finish(3)
    step_loc = next((b["local"] for b in pat_bindings(lp[1])), None)
    cmap = _cluster_map(lp[2])
    link = next(y for y in walk(fn["body"]) if callee_name(c, y) == "linkage")
    n_expr = resolve(link["args"][1], inits) if len(link["args"]) >= 2 else {}
    removes = [y for y in walk(lp[2]) if y.get("k") == "MethodCall" and y["name"] == "remove" and local_of(y["recv"]) == cmap]
    inserts = [y for y in walk(lp[2]) if y.get("k") == "MethodCall" and y["name"] == "insert" and local_of(y["recv"]) == cmap]
    res.instance("%s : both clusters of the step removed" % key)
    fields = []
    for y in removes:
        a = peel_refs(y["args"][0]) if y["args"] else {}
        fields.append(a["name"] if a.get("k") == "Field" and local_of(a["e"]) == step_loc else None)
    if len(removes) == 2 and set(fields) == {"cluster1", "cluster2"}:
        res.ok()
    elif len(removes) == 2 and fields[0] == fields[1] and fields[0] is not None:
        res.violate("%s : same-cluster-removed-twice" % key, "both removals take `step.%s`" % fields[0], fn_loc(fn, removes[1].get("ln")))
    elif len(removes) == 1 and fields[0] in ("cluster1", "cluster2"):
        res.violate("%s : one-cluster-left-behind" % key, "only `step.%s` is removed: the other cluster of the merge stays in the map beside the union" % fields[0], fn_loc(fn, removes[0].get("ln")))
    else:
        res.undecided("%s : removals" % key, "%d removals with keys %s (fail closed)" % (len(removes), fields), fn_loc(fn))
    res.instance("%s : union inserted under a fresh id" % key)
    if len(inserts) != 1 or len(inserts[0]["args"]) != 2:
        res.undecided("%s : insert" % key, "no single insert into the cluster map (fail closed)", fn_loc(fn))
        return res.finish(3)
    ins = inserts[0]
    ct, ids = local_of(ins["args"][0]), local_of(ins["args"][1])
    removed_locals = set()
    for y in walk(lp[2]):
        if y.get("k") == "LetStmt" and y.get("init") is not None and any(z in removes for z in walk(y["init"])):
            removed_locals |= set(b["local"] for b in pat_bindings(y["pat"]))
    joins = [y for y in walk(lp[2]) if y.get("k") == "MethodCall" and y["name"] in ("append", "extend", "extend_from_slice") and local_of(y["recv"]) == ids
             and (local_of(y["args"][0]) in removed_locals or any(z in removes for z in walk(y["args"][0])))]
    if ids is None or ct is None:
        res.undecided("%s : insert-args" % key, "insert arguments are not plain locals (fail closed)", fn_loc(fn, ins.get("ln")))
    elif len(joins) + (1 if ids in removed_locals else 0) >= 2:
        res.ok()        # two clusters joined into a fresh list, or one removed cluster extended by the other
    elif len(removes) == 2:
        res.violate("%s : merge-drops-members" % key, "the inserted union receives the members of %d of the two removed clusters: the others get no cluster" % (len(joins) + (1 if ids in removed_locals else 0)), fn_loc(fn, ins.get("ln")))
    else:
        res.undecided("%s : union" % key, "joins: %d (fail closed)" % len(joins), fn_loc(fn))
    res.instance("%s : fresh ids n, n+1, .." % key)
    if ct is not None:
        start = resolve({"k": "Path", "local": ct}, inits)
        adv = [y for y in walk(lp[2]) if y.get("k") == "AssignOp" and local_of(y["l"]) == ct]
        same_n = r.e(start) == r.e(n_expr) and start.get("k") == "MethodCall"
        if not adv:
            res.violate("%s : fresh-id-not-advanced" % key, "the id under which the union is inserted is never advanced: every union overwrites the previous one, while the steps refer to them as n, n+1, ..", fn_loc(fn, ins.get("ln")))
        elif adv[0]["op"] != "+" or str(peel_refs(adv[0]["r"]).get("v")) != "1":
            res.violate("%s : fresh-id-step" % key, "the id advances by `%s= %s`" % (adv[0]["op"], r.e(adv[0]["r"])[:10]), fn_loc(fn, adv[0].get("ln")))
        elif same_n:
            res.ok()
        elif start.get("k") == "Lit" or (start.get("k") == "Binary"):
            res.violate("%s : fresh-id-start" % key, "the ids of the unions start at `%s`, the steps number them from n (= `%s`)" % (r.e(start)[:30], r.e(n_expr)[:30]), fn_loc(fn))
        else:
            res.undecided("%s : fresh-id-start" % key, "start `%s` vs n `%s` (fail closed)" % (r.e(start)[:30], r.e(n_expr)[:30]), fn_loc(fn))
    return res.finish(3)


def rule_labels(ctx):
    res = RuleResult("R-C06-labels", "the label vector has one slot per sample of the kernel and every member of a cluster receives the running index of that cluster; it is returned as the targets next to the kernel")
    F = ctx.facts()
    fn = _hier(F)
    if fn is None:
        res.missing_anchor("ValidHierarchicalCluster::transform")
        return res.finish(2)
    c = fn["crate"]
    r = Render(c)
    key = fn_key(fn)
    inits = inits_of(fn)
    ps = param_locals(fn)
    kernel = ps[1] if len(ps) > 1 else None
    link = next(y for y in walk(fn["body"]) if callee_name(c, y) == "linkage")
    n_expr = resolve(link["args"][1], inits) if len(link["args"]) >= 2 else {}
    tail = strip(fn["body"]).get("e")
    tail = peel_refs(tail) if tail is not None else {}
    res.instance("%s : label vector" % key)
    if callee_name(c, tail) != "new" or len(tail["args"]) != 2 or local_of(tail["args"][0]) != kernel:
        res.undecided("%s : result" % key, "the result is not DatasetBase::new(kernel, labels) (fail closed)", fn_loc(fn))
        return res.finish(2)
    tmp = local_of(tail["args"][1])
    alloc = resolve(tail["args"][1], inits)
    ln_ok = None
    if callee_name(c, alloc) == "from_elem" and len(alloc["args"]) == 2:
        ln_ok = r.e(resolve(alloc["args"][1], inits)) == r.e(n_expr)
    if ln_ok is None:
        res.undecided("%s : allocation" % key, "the label vector is not `vec![_; n]` (fail closed)", fn_loc(fn))
    elif ln_ok:
        res.ok()
    else:
        res.violate("%s : label-vector-length" % key, "the label vector has `%s` slots, the kernel has `%s` samples" % (r.e(alloc["args"][1])[:30], r.e(n_expr)[:30]), fn_loc(fn, alloc.get("ln")))
    res.instance("%s : label = running index of the cluster" % key)
    asg = next((y for y in walk(fn["body"]) if y.get("k") == "Assign" and peel_refs(y["l"]).get("k") == "Index" and local_of(peel_refs(y["l"])["e"]) == tmp), None)
    if asg is None:
        res.undecided("%s : assignment" % key, "no `labels[member] = ..` (fail closed)", fn_loc(fn))
        return res.finish(2)
    loops = list(for_loops(fn["body"]))
    enc = [l for l in loops if any(z is asg for z in walk(l[2]))]
    outer = next((l for l in enc if through(l[0], ()).get("k") == "MethodCall" and through(l[0], ())["name"] == "enumerate"), None)
    inner = next((l for l in enc if l is not outer and outer is not None and any(z is l[3] for z in walk(outer[2]))), None)
    if outer is None or inner is None:
        res.undecided("%s : loops" % key, "the assignment is not inside `for (i, (_, members)) in clusters.enumerate() { for id in members {..} }` (fail closed)", fn_loc(fn, asg.get("ln")))
        return res.finish(2)
    opos = tuple_positions(outer[1])
    idx = next((l for l, p_ in opos.items() if p_ == (0,)), None)
    members = next((l for l, p_ in opos.items() if p_ == (1, 1)), None)
    key_loc = next((l for l, p_ in opos.items() if p_ == (1, 0)), None)
    member = next((b["local"] for b in pat_bindings(inner[1])), None)
    slot = local_of(peel_refs(asg["l"])["i"])
    val = local_of(asg["r"])
    if local_of(through(inner[0], ("iter", "into_iter"))) != members or slot != member:
        res.undecided("%s : member-loop" % key, "the inner loop does not walk the members of the cluster / the slot is not the member (fail closed)", fn_loc(fn, asg.get("ln")))
    elif val == idx:
        res.ok()
    elif val == member:
        res.violate("%s : label-is-the-sample" % key, "every sample is labelled with its own index", fn_loc(fn, asg.get("ln")))
    elif val is not None and val == key_loc:
        res.violate("%s : label-is-the-map-key" % key, "samples are labelled with the id of the cluster in the merge numbering (up to 2n - 2), not with 0 .. clusters - 1", fn_loc(fn, asg.get("ln")))
    else:
        res.violate("%s : label-not-cluster-index" % key, "`%s` is stored instead of the running index of the cluster" % r.e(asg["r"])[:30], fn_loc(fn, asg.get("ln")))
    return res.finish(2)


def rule_linkage(ctx):
    res = RuleResult("R-C06-linkage", "the linkage runs on the -ln transform (floored) of the kernel's upper triangle, with the kernel's size and the configured method")
    F = ctx.facts()
    fn = _hier(F)
    if fn is None:
        res.missing_anchor("ValidHierarchicalCluster::transform")
        return res.finish(3)
    c = fn["crate"]
    r = Render(c)
    key = fn_key(fn)
    inits = inits_of(fn)
    ps = param_locals(fn)
    kernel = ps[1] if len(ps) > 1 else None
    link = next(y for y in walk(fn["body"]) if callee_name(c, y) == "linkage")
    if len(link["args"]) != 3:
        res.undecided("%s : linkage-args" % key, "unexpected arity (fail closed)", fn_loc(fn, link.get("ln")))
        return res.finish(3)
    res.instance("%s : condensed input = upper triangle of the kernel" % key)
    src = resolve(link["args"][0], inits)
    chain = []
    cur = src
    clo = None
    while cur.get("k") == "MethodCall":
        chain.append(cur["name"])
        if cur["name"] == "map" and cur["args"] and strip(cur["args"][0]).get("k") == "Closure":
            clo = strip(cur["args"][0])
        cur = peel_refs(cur["recv"])
    if "to_upper_triangle" in chain and local_of(cur) == kernel and not any(x in chain for x in ("rev", "skip", "take", "step_by", "filter")):
        res.ok()
    elif "to_upper_triangle" not in chain and local_of(cur) == kernel:
        res.violate("%s : not-the-upper-triangle" % key, "the linkage input is `%s`, not the kernel's upper triangle in condensed order" % r.e(src)[:50], fn_loc(fn, src.get("ln")))
    else:
        res.undecided("%s : condensed-input" % key, "`%s` (fail closed)" % r.e(src)[:60], fn_loc(fn, src.get("ln")))
    res.instance("%s : -ln transform with a floor" % key)
    if clo is None:
        res.undecided("%s : transform" % key, "no map closure over the similarities (fail closed)", fn_loc(fn))
    else:
        x = next((b["local"] for p_ in clo["params"] for b in pat_bindings(p_)), None)
        clamped = []
        body = peel_refs(clo["body"])
        while body.get("k") == "Block" and not body["stmts"] and body.get("e") is not None:
            body = peel_refs(body["e"])

        def neglog(e):
            """(negated?, local under ln) of an expression"""
            e = peel_refs(e)
            while e.get("k") == "Block" and e.get("e") is not None:
                e = peel_refs(e["e"])        # the value of a block is its tail (statements before it only bind locals)
            neg = False
            while e.get("k") == "Unary" and e["op"] == "-":
                neg = not neg
                e = peel_refs(e["e"])
            if e.get("k") == "MethodCall" and e["name"] == "ln":
                return neg, local_of(e["recv"])
            # a clamp around the transform: max(-ln x, 0), (-ln x).max(0), .abs(), .clamp(..)
            inner = None
            if e.get("k") == "Call" and callee_name(c, e) in ("max", "min", "clamp") and e["args"]:
                inner = next((a for a in e["args"] if any(z.get("k") == "MethodCall" and z["name"] == "ln" for z in walk(a))), None)
            if e.get("k") == "MethodCall" and e["name"] in ("max", "min", "clamp", "abs") and any(z.get("k") == "MethodCall" and z["name"] == "ln" for z in walk(e["recv"])):
                inner = e["recv"]
            if inner is not None:
                clamped.append(e)
                return neglog(inner)
            return None
        # an outer `if x >= c { constant } else { <the two-branch transform> }` (or the other way round) is a clamp written
        # as a branch: a whole range of similarities gets one dissimilarity
        while body.get("k") == "If" and body.get("else") is not None:
            th_, el_ = peel_refs(body["then"]), peel_refs(body["else"])
            for q in (0, 1):
                a_, b_ = (th_, el_) if q == 0 else (el_, th_)
                b2 = b_
                while b2.get("k") == "Block" and not b2["stmts"] and b2.get("e") is not None:
                    b2 = peel_refs(b2["e"])
                if b2.get("k") == "If" and b2.get("else") is not None and _const_branch(c, fn, a_) is not None and any(z.get("k") == "MethodCall" and z["name"] == "ln" for z in walk(b2)):
                    clamped.append(body)
                    body = b2
                    break
            else:
                break
        if body.get("k") == "If" and body.get("else") is not None:
            t_, e_ = neglog(body["then"]), neglog(body["else"])
            cnd = strip(body["c"])
            if clamped:
                res.violate("%s : dissimilarity-clamped" % key, "the -ln transform is passed through `%s`: dissimilarities of similarities above one (linear and polynomial kernels) are cut off, so averaging linkages merge at other levels" % r.e(clamped[0])[:50], fn_loc(fn, clamped[0].get("ln")))
            elif (t_ is None) != (e_ is None) and cnd.get("k") == "Binary" and _const_branch(c, fn, body["then"] if t_ is None else body["else"]) is not None:
                # one branch is a constant: the cap for pairs at or below the floor.  It has to be the transform of the floor
                # itself (-ln floor), or floored pairs are nearer (or farther) than pairs just above the floor
                import math as _math
                capv = _const_branch(c, fn, body["then"] if t_ is None else body["else"])
                floorv = None
                for side in (cnd["l"], cnd["r"]):
                    if local_of(side) != x:
                        floorv = _const_branch(c, fn, side)
                if floorv is None or floorv <= 0:
                    res.undecided("%s : transform-form" % key, "constant cap with an unreadable floor (fail closed)", fn_loc(fn, body.get("ln")))
                elif abs(capv - (-_math.log(floorv))) <= 1e-6 * max(1.0, abs(capv)):
                    res.ok()
                else:
                    res.violate("%s : cap-is-not-the-transform-of-the-floor" % key, "similarities at or below the floor %g get the dissimilarity %g, but -ln(%g) = %.4f: pairs under the floor come out %s than pairs just above it, in another order than their similarities" % (floorv, capv, floorv, -_math.log(floorv), "nearer" if capv < -_math.log(floorv) else "farther"), fn_loc(fn, body.get("ln")))
            elif t_ is None or e_ is None or cnd.get("k") != "Binary":
                res.undecided("%s : transform-form" % key, "branches are not `±v.ln()` (fail closed)", fn_loc(fn, body.get("ln")))
            elif not t_[0] or not e_[0]:
                res.violate("%s : log-not-negated" % key, "a branch of the transform is `ln` without the minus: similarities in (0, 1] give negative or reversed dissimilarities", fn_loc(fn, body.get("ln")))
            else:
                # the branch that takes ln(x) must be the one where x is above the floor
                xl, xr = local_of(cnd["l"]) == x, local_of(cnd["r"]) == x
                above = (cnd["op"] in (">", ">=") and xl) or (cnd["op"] in ("<", "<=") and xr)
                below = (cnd["op"] in ("<", "<=") and xl) or (cnd["op"] in (">", ">=") and xr)
                x_in_then = t_[1] == x
                x_in_else = e_[1] == x
                if (above and x_in_then and not x_in_else) or (below and x_in_else and not x_in_then):
                    res.ok()
                elif (above and x_in_else and not x_in_then) or (below and x_in_then and not x_in_else):
                    res.violate("%s : floor-branch-reversed" % key, "ln of the similarity is taken when it is *below* the floor (and the floor used when it is above): small similarities give huge or NaN dissimilarities", fn_loc(fn, body.get("ln")))
                else:
                    res.undecided("%s : floor" % key, "floor test not classified (fail closed)", fn_loc(fn, body.get("ln")))
        else:
            nl = neglog(body)
            if clamped:
                res.violate("%s : dissimilarity-clamped" % key, "the -ln transform is passed through `%s`" % r.e(clamped[0])[:50], fn_loc(fn, clamped[0].get("ln")))
            elif nl is None:
                res.undecided("%s : transform-form" % key, "`%s` (fail closed)" % r.e(body)[:50], fn_loc(fn, body.get("ln")))
            elif not nl[0]:
                res.violate("%s : log-not-negated" % key, "the transform is `ln` without the minus", fn_loc(fn, body.get("ln")))
            else:
                res.undecided("%s : floor" % key, "no floor for similarities near zero (fail closed)", fn_loc(fn, body.get("ln")))
    res.instance("%s : size and method" % key)
    n_expr = resolve(link["args"][1], inits)
    meth = peel_refs(link["args"][2])
    size_ok = n_expr.get("k") == "MethodCall" and n_expr["name"] in ("size", "nsamples") and local_of(n_expr["recv"]) == kernel
    if not size_ok:
        res.undecided("%s : size" % key, "`%s` is not kernel.size() (fail closed)" % r.e(n_expr)[:30], fn_loc(fn, link.get("ln")))
    elif _self_field(meth) == "method":
        res.ok()
    elif meth.get("k") == "Path" and "def" in meth:
        res.violate("%s : linkage-method-ignored" % key, "the linkage is computed with the fixed method `%s`, not the configured one" % r.e(meth)[:40], fn_loc(fn, link.get("ln")))
    else:
        res.undecided("%s : method" % key, "`%s` (fail closed)" % r.e(meth)[:30], fn_loc(fn, link.get("ln")))
    return res.finish(3)


# ---------------------------------------------------------------- views
VIEWS = ("dot", "sum", "size", "column", "to_upper_triangle", "diagonal")


def _const_branch(c, fn, e, depth=0):
    """float value of a constant expression (literals, F::cast(lit), locals bound to such, negation), else None"""
    e = peel_refs(e)
    while e.get("k") == "Block" and not e.get("stmts") and e.get("e") is not None:
        e = peel_refs(e["e"])
    if depth > 4:
        return None
    if e.get("k") == "Lit":
        try:
            return float(str(e.get("v")).replace("_", "").replace("f32", "").replace("f64", ""))
        except ValueError:
            return None
    if e.get("k") == "Unary" and e["op"] == "-":
        v = _const_branch(c, fn, e["e"], depth + 1)
        return -v if v is not None else None
    if e.get("k") == "Call" and len(e["args"]) == 1 and (c.dfn(strip(e["f"]).get("def")) or {}).get("name") in ("cast", "from", "from_f64", "from_f32"):
        return _const_branch(c, fn, e["args"][0], depth + 1)
    if e.get("k") == "MethodCall" and e["name"] == "unwrap" and not e["args"]:
        return _const_branch(c, fn, e["recv"], depth + 1)
    if e.get("k") == "Call" and not e["args"] and (c.dfn(strip(e["f"]).get("def")) or {}).get("name") in ("zero", "one"):
        return 0.0 if (c.dfn(strip(e["f"]).get("def")) or {}).get("name") == "zero" else 1.0
    if e.get("k") == "Path" and "local" in e:
        for y in walk(fn["body"]):
            if y.get("k") == "LetStmt" and y.get("init") is not None and y["pat"].get("k") == "Bind" and y["pat"]["local"] == e["local"]:
                return _const_branch(c, fn, y["init"], depth + 1)
    return None


def rule_views(ctx):
    res = RuleResult("R-C06-views", "every Kernel accessor dispatches to the Inner method of its own name in both arms; the three to_upper_triangle impls keep the strict upper triangle (col > row); Kernel::new / view / to_owned keep the variant and the configured method")
    F = ctx.facts()
    n_disp = 0
    for fn in F.all_fns():
        d = fn["d"]
        if d["krate"] != "linfa_kernel" or not (d.get("self_adt") or "").endswith("KernelBase") or d.get("trait") or d["name"] not in VIEWS:
            continue
        c = fn["crate"]
        key = fn_key(fn)
        m = next((y for y in walk(fn["body"]) if y.get("k") == "Match" and y.get("src", "Normal") == "Normal" and _self_field(y["scrut"]) == "inner"), None)
        n_disp += 1
        res.instance("%s : dispatch" % key)
        if m is None:
            res.undecided("%s : dispatch" % key, "no match over self.inner (fail closed)", fn_loc(fn))
            continue
        bad = None
        arms = 0
        for arm in m["arms"]:
            bl = [b["local"] for b in pat_bindings(arm["pat"])]
            calls = [y for y in walk(arm["body"]) if y.get("k") == "MethodCall" and bl and local_of(y["recv"]) == bl[0]]
            if len(bl) != 1 or not calls:
                bad = ("shape", None)
                break
            arms += 1
            if calls[0]["name"] != d["name"]:
                bad = ("name", calls[0]["name"])
                break
            # the arguments are passed on as given
            pl = param_locals(fn)[1:]
            if [local_of(a) for a in calls[0]["args"]] != pl:
                bad = ("args", None)
                break
        if bad is None and arms == 2:
            res.ok()
        elif bad and bad[0] == "name":
            res.violate("%s : dispatch-to-other-view:%s" % (key, bad[1]), "`%s` of the kernel returns `%s` of the inner matrix in one arm" % (d["name"], bad[1]), fn_loc(fn))
        elif bad and bad[0] == "args":
            res.violate("%s : dispatch-alters-argument" % key, "an arm does not pass the argument on as given", fn_loc(fn))
        else:
            res.undecided("%s : dispatch-shape" % key, "arms not recognised (fail closed)", fn_loc(fn))
    if n_disp < 6:
        res.missing_anchor("the six dispatching accessors of KernelBase (found %d)" % n_disp)
    n_tri = 0
    for fn in F.all_fns():
        d = fn["d"]
        if d["krate"] != "linfa_kernel" or d["name"] != "to_upper_triangle" or not (d.get("trait") or "").endswith("Inner") or d.get("pk") == "trait":
            continue
        c = fn["crate"]
        r = Render(c)
        key = fn_key(fn) + "@" + (c.ty(fn["body"].get("t")) and fn["inputs"][0][-30:] or "")
        n_tri += 1
        res.instance("%s : strict upper triangle" % key)
        flt = next((y for y in walk(fn["body"]) if y.get("k") == "MethodCall" and y["name"] == "filter" and y["args"] and strip(y["args"][0]).get("k") == "Closure"), None)
        src_idx = any(y.get("k") == "MethodCall" and y["name"] == "indexed_iter" for y in walk(fn["body"]))
        if flt is None or not src_idx:
            # a hand-computed position in the condensed triangle: row r starts at r(2n - r - 1)/2, an integer although
            # neither factor need be even - dividing one factor first truncates for every other row
            trunc = None
            for y in walk(fn["body"]):
                if y.get("k") == "Binary" and y["op"] == "*" and (c.ty(y.get("t")) or "").strip() in ("usize", "u32", "u64", "isize", "i32", "i64"):
                    for side in (y["l"], y["r"]):
                        s_ = peel_refs(side)
                        while s_.get("k") in ("Paren", "DropTemps"):
                            s_ = peel_refs(s_["e"])
                        if s_.get("k") == "Binary" and s_["op"] == "/" and peel_refs(s_["r"]).get("k") == "Lit":
                            dd = peel_refs(s_["l"])
                            while dd.get("k") in ("Paren", "DropTemps"):
                                dd = peel_refs(dd["e"])
                            if dd.get("k") == "Binary" and dd["op"] in ("+", "-"):
                                trunc = y
            # the triangle walked with explicit loops: `for (i, row) in m.outer_iterator().enumerate() { for (j, v) in row.iter() .. }`
            # - i is the row, j the column; what is kept must be col > row, in row-major order
            from .c17 import for_loops as _for_loops
            rows_, cols_ = set(), set()
            for it_, pat_, body_, node_ in _for_loops(fn["body"]):
                if any(z.get("k") == "MethodCall" and z["name"] == "enumerate" for z in walk(it_)) and pat_.get("k") == "Tuple" and pat_["pats"]:
                    rows_ |= {b["local"] for b in pat_bindings(pat_["pats"][0])}
                    for it2, pat2, body2, node2 in _for_loops(body_):
                        if pat2.get("k") == "Tuple" and pat2["pats"]:
                            cols_ |= {b["local"] for b in pat_bindings(pat2["pats"][0])}
                    for z in walk(body_):
                        if z.get("k") == "Closure" and z["params"] and z["params"][0].get("k") == "Tuple" and z["params"][0]["pats"]:
                            cols_ |= {b["local"] for b in pat_bindings(z["params"][0]["pats"][0])}
            lower = None
            for y in walk(fn["body"]):
                if y.get("k") == "Binary" and y["op"] in ("<", "<=", ">", ">="):
                    a_, b_ = peel_refs(y["l"]), peel_refs(y["r"])
                    while a_.get("k") == "Unary":
                        a_ = peel_refs(a_["e"])
                    while b_.get("k") == "Unary":
                        b_ = peel_refs(b_["e"])
                    la, lb = a_.get("local"), b_.get("local")
                    if la in cols_ and lb in rows_ and y["op"] in ("<", "<="):
                        lower = y
                    if la in rows_ and lb in cols_ and y["op"] in (">", ">="):
                        lower = y
            if lower is not None:
                res.violate("%s : lower-triangle" % key, "`%s` keeps the entries with column below row: the lower triangle walked row by row is not the condensed (row-major upper triangle) order the linkage expects, although it holds the same values" % r.e(lower)[:40], fn_loc(fn, lower.get("ln")))
                continue
            if trunc is not None:
                res.violate("%s : truncating-division-before-product" % key, "`%s`: one factor of a product that is even only as a whole is divided first; the integer division truncates whenever that factor is odd and the values land in other cells of the condensed triangle" % r.e(trunc)[:50], fn_loc(fn, trunc.get("ln")))
                continue
            res.undecided("%s : form" % key, "not `indexed_iter().filter(|((row, col), _)| ..)` (fail closed)", fn_loc(fn))
            continue
        clo = strip(flt["args"][0])
        pos = tuple_positions(clo["params"][0])
        row = next((l for l, p_ in pos.items() if p_ == (0, 0)), None)
        col = next((l for l, p_ in pos.items() if p_ == (0, 1)), None)
        b = peel_refs(clo["body"])
        while b.get("k") == "Block" and not b["stmts"] and b.get("e") is not None:
            b = peel_refs(b["e"])
        if b.get("k") != "Binary" or row is None or col is None or {local_of(b["l"]), local_of(b["r"])} != {row, col}:
            res.undecided("%s : relation" % key, "`%s` (fail closed)" % r.e(b)[:40], fn_loc(fn, flt.get("ln")))
            continue
        op = b["op"] if local_of(b["l"]) == col else {"<": ">", ">": "<", "<=": ">=", ">=": "<=", "==": "==", "!=": "!="}[b["op"]]
        if op == ">":
            res.ok()
        elif op == ">=":
            res.violate("%s : triangle-includes-diagonal" % key, "the diagonal is part of the `upper triangle`: n(n+1)/2 values where the condensed form has n(n-1)/2", fn_loc(fn, flt.get("ln")))
        elif op in ("<", "<="):
            res.violate("%s : lower-triangle" % key, "the filter keeps col %s row: the lower triangle in row-major order is not the condensed order of the upper one" % op, fn_loc(fn, flt.get("ln")))
        else:
            res.violate("%s : triangle-relation" % key, "the filter keeps col %s row" % op, fn_loc(fn, flt.get("ln")))
    if n_tri < 3:
        res.missing_anchor("the three Inner::to_upper_triangle impls (found %d)" % n_tri)
    # constructors / conversions keep the variant and the method
    for name in ("new", "view", "to_owned"):
        for fn in F.all_fns():
            d = fn["d"]
            if d["krate"] != "linfa_kernel" or d["name"] != name or not (d.get("self_adt") or "").endswith("KernelBase") or d.get("trait"):
                continue
            c = fn["crate"]
            r = Render(c)
            key = fn_key(fn)
            inits = inits_of(fn)
            lit = next((y for y in walk(fn["body"]) if y.get("k") == "Struct" and {f_["name"] for f_ in y.get("fields") or []} == {"inner", "method"}), None)
            m = next((y for y in walk(fn["body"]) if y.get("k") == "Match" and y.get("src", "Normal") == "Normal" and len(y["arms"]) == 2), None)
            res.instance("%s : variant and method kept" % key)
            if lit is None or m is None:
                res.undecided("%s : shape" % key, "no `Kernel { inner: match .., method: .. }` (fail closed)", fn_loc(fn))
                continue
            src_is_params = name == "new"
            pl = param_locals(fn)
            bad = None
            for arm in m["arms"]:
                pat = arm["pat"]
                while pat.get("k") == "Ref":
                    pat = pat["pat"]
                vname = (c.dfn(pat.get("def")) or {}).get("name")
                built = [callee_name(c, y) for y in walk(arm["body"]) if y.get("k") == "Call" and callee_name(c, y) in ("Dense", "Sparse")]
                if vname not in ("Dense", "Sparse") or len(built) != 1:
                    bad = ("shape", vname)
                    break
                if built[0] != vname:
                    bad = ("variant", vname)
                    break
                if src_is_params:
                    bl = [b["local"] for b in pat_bindings(pat)]
                    call = next((y for y in walk(arm["body"]) if callee_name(c, y) in ("dense_from_fn", "sparse_from_fn")), None)
                    if call is None or (vname == "Dense") != (callee_name(c, call) == "dense_from_fn"):
                        bad = ("builder", vname)
                        break
                    margs = [a for a in call["args"] if peel_refs(a).get("k") == "Field" and peel_refs(a)["name"] == "method"]
                    if not margs or local_of(peel_refs(margs[0])["e"]) != pl[1]:
                        bad = ("method-arg", vname)
                        break
                    if vname == "Sparse" and (len(call["args"]) < 2 or local_of(call["args"][1]) not in bl):
                        a1 = peel_refs(call["args"][1]) if len(call["args"]) >= 2 else {}
                        bad = ("k", r.e(a1)[:20]) if a1.get("k") in ("Binary", "Lit") else ("shape", vname)
                        break
            mf = peel_refs(next(f_["e"] for f_ in lit["fields"] if f_["name"] == "method"))
            m_ok = mf.get("k") == "Field" and mf["name"] == "method" and (local_of(mf["e"]) == (pl[1] if src_is_params else pl[0]))
            if bad is None and m_ok:
                res.ok()
            elif bad and bad[0] == "variant":
                res.violate("%s : variant-mismatch:%s" % (key, bad[1]), "the %s arm builds the other variant" % bad[1], fn_loc(fn))
            elif bad and bad[0] == "builder":
                res.violate("%s : builder-mismatch:%s" % (key, bad[1]), "the %s arm fills its matrix with the other builder" % bad[1], fn_loc(fn))
            elif bad and bad[0] == "k":
                res.violate("%s : neighbour-count-altered" % key, "the sparse kernel is built with `%s` neighbours instead of the configured number" % bad[1], fn_loc(fn))
            elif bad and bad[0] == "method-arg":
                res.violate("%s : method-not-the-configured-one" % key, "the %s matrix is not filled with params.method" % bad[1], fn_loc(fn))
            elif bad is None and not m_ok and mf.get("k") in ("Call", "Path") and "def" in (strip(mf.get("f") or mf)):
                res.violate("%s : method-not-the-configured-one" % key, "the kernel records the method `%s` instead of the one its matrix was filled with" % r.e(mf)[:40], fn_loc(fn))
            else:
                res.undecided("%s : parts" % key, "%s / method field `%s` (fail closed)" % (bad, r.e(mf)[:30]), fn_loc(fn))
    return res.finish(12)


def rules(tier):
    from . import carry, precision, c13, c04
    CR = {"linfa_kernel", "linfa_hierarchical"}
    return [rule_countarith, rule_offset, c04.make_carry_rule("R-C06-carry", {"HierarchicalCluster", "KernelParams"}, 3), c04.make_setter_value_rule("R-C06-setter", {"HierarchicalCluster", "KernelParams"}, 3),
            rule_entries, rule_method, rule_adjacency, rule_stop, rule_merge, rule_labels, rule_linkage, rule_views, c13.rule_kernel,
            carry.make_clone_rule("R-C06-clone", CR, 6), carry.make_setter_rule("R-C06-override", CR, 4),
            carry.make_ctor_rule("R-C06-ctor", CR, 1),
            precision.make_rule("R-C06-precision", lambda f: f["d"]["krate"] in CR, 40, "linfa-kernel and linfa-hierarchical")]
