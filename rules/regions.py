"""Interval-set algebra over the finite reals / non-negative integers (E-B of DESIGN.md).

A Region is a finite union of disjoint intervals with open/closed ends. Integer regions are normalised
to closed integer intervals, so `x == 0`, `x < 1` and `x <= 0` on a usize are the same set.
NaN and the infinities are outside the domain (the property speaks of finite values).
"""
from fractions import Fraction
import math

INF = float("inf")
EPS = Fraction(1, 10 ** 12)  # stands for Float::epsilon(): a fixed tiny positive constant


class Region:
    def __init__(self, ivs=(), integer=False):
        self.integer = integer
        self.ivs = self._norm(list(ivs))

    @staticmethod
    def full(integer=False, unsigned=False):
        return Region([(0 if unsigned else -INF, True if unsigned else False, INF, False)], integer)

    @staticmethod
    def empty(integer=False):
        return Region([], integer)

    @staticmethod
    def cmp(op, c, integer=False):
        """{x : x op c}"""
        if op == "<":
            return Region([(-INF, False, c, False)], integer)
        if op == "<=":
            return Region([(-INF, False, c, True)], integer)
        if op == ">":
            return Region([(c, False, INF, False)], integer)
        if op == ">=":
            return Region([(c, True, INF, False)], integer)
        if op == "==":
            return Region([(c, True, c, True)], integer)
        if op == "!=":
            return Region([(c, True, c, True)], integer).complement()
        raise ValueError(op)

    def _norm(self, ivs):
        out = []
        for lo, lc, hi, hc in ivs:
            if lo == INF or hi == -INF:
                continue
            if self.integer:
                if lo != -INF:
                    if lo == math.floor(lo):
                        lo = lo if lc else lo + 1
                    else:
                        lo = math.ceil(lo)
                    lc = True
                if hi != INF:
                    if hi == math.floor(hi):
                        hi = hi if hc else hi - 1
                    else:
                        hi = math.floor(hi)
                    hc = True
            if lo > hi or (lo == hi and not (lc and hc)):
                continue
            out.append((lo, lc, hi, hc))
        out.sort(key=lambda t: (t[0], not t[1]))
        merged = []
        for iv in out:
            if merged:
                plo, plc, phi, phc = merged[-1]
                lo, lc, hi, hc = iv
                touch = lo < phi or (lo == phi and (lc or phc)) or (self.integer and phi != INF and lo == phi + 1)
                if touch:
                    if hi > phi or (hi == phi and hc):
                        merged[-1] = (plo, plc, hi, hc if hi > phi else (hc or phc))
                    continue
            merged.append(iv)
        return merged

    def union(self, o):
        return Region(self.ivs + o.ivs, self.integer or o.integer)

    def complement(self):
        res = []
        cur_lo, cur_lc = -INF, False
        for lo, lc, hi, hc in self.ivs:
            res.append((cur_lo, cur_lc, lo, not lc))
            cur_lo, cur_lc = hi, not hc
        res.append((cur_lo, cur_lc, INF, False))
        return Region(res, self.integer)

    def intersect(self, o):
        return self.complement().union(o.complement()).complement()

    def minus(self, o):
        return self.intersect(o.complement())

    def is_empty(self):
        return not self.ivs

    def contains(self, v):
        for lo, lc, hi, hc in self.ivs:
            if (lo < v or (lo == v and lc)) and (v < hi or (v == hi and hc)):
                return True
        return False

    def __eq__(self, o):
        return self.ivs == o.ivs

    def witness(self):
        """Some member (prefers a value well inside)."""
        for lo, lc, hi, hc in self.ivs:
            if lo == -INF and hi == INF:
                return Fraction(1, 2) if not self.integer else 1
            if lo == -INF:
                return hi - 1
            if hi == INF:
                return lo + 1
            if self.integer:
                return lo
            return (Fraction(lo) + Fraction(hi)) / 2
        return None

    def boundary_points(self):
        pts = set()
        for lo, lc, hi, hc in self.ivs:
            if lo != -INF:
                pts.add(lo)
            if hi != INF:
                pts.add(hi)
        return pts

    def __repr__(self):
        if not self.ivs:
            return "{}"
        def f(x):
            if x == INF:
                return "inf"
            if x == -INF:
                return "-inf"
            if x == EPS:
                return "eps"
            return str(x)
        return " u ".join("%s%s, %s%s" % ("[" if lc else "(", f(lo), f(hi), "]" if hc else ")") for lo, lc, hi, hc in self.ivs)


def parse_spec(spec, integer=False):
    """'>=1', '>0', '[0,1]', '(0,1)', '(0,1]', 'any', '<=0 | >=1', '>=eps'."""
    spec = spec.strip()
    if spec == "any":
        return Region.full(integer)
    if "|" in spec:
        r = Region.empty(integer)
        for part in spec.split("|"):
            r = r.union(parse_spec(part, integer))
        return r

    def num(s):
        s = s.strip()
        if s == "eps":
            return EPS
        if s == "inf":
            return INF
        if s == "-inf":
            return -INF
        return Fraction(s)
    if spec[0] in "[(":
        lo, hi = spec[1:-1].split(",")
        return Region([(num(lo), spec[0] == "[", num(hi), spec[-1] == "]")], integer)
    for op in (">=", "<=", "==", "!=", ">", "<"):
        if spec.startswith(op):
            return Region.cmp(op, num(spec[len(op):]), integer)
    raise ValueError(spec)
