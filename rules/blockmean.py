"""The mean of block means is the overall mean only when all blocks have the same size.

Code that walks its rows in blocks (`axis_chunks_iter`, `chunks`, ..) - to keep running sums short, say - and averages
the per-block means with one weight per *block* weights the rows of a short last block (or of a block in which a
cluster has few members) more than the others: identical for inputs that fit one block or divide evenly, which is what
the tests use, and off for every other size.

Positive evidence asked for, all three together: inside a loop over a chunk iterator (a) a per-block mean is formed
(`mean_axis` / `mean()` of the block, or a quotient whose divisor is a count declared inside the loop body), (b) a
counter declared outside the loop is incremented by the literal one per block, and (c) that counter is used as a divisor."""
from .core import RuleResult
from .facts import fn_key, fn_loc, walk, strip, peel_refs, pat_bindings, Render

CHUNKS = {"axis_chunks_iter", "axis_chunks_iter_mut", "chunks", "chunks_exact", "exact_chunks", "exact_chunks_mut", "chunks_mut"}


def _root(n):
    n = peel_refs(n)
    while True:
        k = n.get("k")
        if k in ("Index", "Field", "Cast", "Ref"):
            n = peel_refs(n["e"])
        elif k == "Unary":
            n = peel_refs(n["e"])
        elif k == "MethodCall" and n["name"] in ("clone", "unwrap", "row", "row_mut", "view", "get", "get_mut", "index_axis", "to_owned"):
            n = peel_refs(n["recv"])
        elif k == "Call" and len(n.get("args") or []) == 1:
            n = peel_refs(n["args"][0])          # F::cast(n), F::from(n)
        else:
            return n.get("local") if k == "Path" else None


def make_rule(rid, select, what):
    def rule(ctx):
        from .c17 import for_loops
        res = RuleResult(rid, "no mean of per-block means with one weight per block in %s" % what)
        F = ctx.facts()
        n_fns = n_loops = 0
        for fn in F.all_fns():
            if not select(fn) or fn.get("exp") or "tests" in fn["d"]["path"]:
                continue
            n_fns += 1
            c = fn["crate"]
            r = Render(c)
            key = fn_key(fn)
            inits = {}
            for y in walk(fn["body"]):
                if y.get("k") == "LetStmt" and y.get("init") is not None and y["pat"].get("k") == "Bind":
                    inits[y["pat"]["local"]] = y["init"]
            for it, pat, body, node in for_loops(fn["body"]):
                src = [it]
                i0 = peel_refs(it)
                if i0.get("k") == "Path" and i0.get("local") in inits:
                    src.append(inits[i0["local"]])
                if not any(y.get("k") == "MethodCall" and y["name"] in CHUNKS for e in src for y in walk(e)):
                    continue
                n_loops += 1
                res.instance("%s : loop over blocks (line %s)" % (key, node.get("ln")))
                inner = {b["local"] for b in pat_bindings(pat)}
                for y in walk(body):
                    if y.get("k") in ("LetStmt", "Let"):
                        inner |= {b["local"] for b in pat_bindings(y["pat"])}
                    if y.get("k") == "Closure":
                        for p_ in y["params"]:
                            inner |= {b["local"] for b in pat_bindings(p_)}
                    if y.get("k") == "Match":
                        for a in y["arms"]:
                            inner |= {b["local"] for b in pat_bindings(a["pat"])}
                block_mean = None
                for y in walk(body):
                    if y.get("k") == "MethodCall" and y["name"] in ("mean_axis", "mean"):
                        block_mean = y
                    if y.get("k") in ("Binary", "AssignOp") and y["op"] == "/" and _root(y["r"]) in inner and _root(y["r"]) is not None:
                        block_mean = block_mean or y
                counters = {}
                for y in walk(body):
                    if y.get("k") == "AssignOp" and y["op"] == "+" and peel_refs(y["r"]).get("k") == "Lit" and str(peel_refs(y["r"]).get("v")).rstrip("usizeu3264_") == "1":
                        rt = _root(y["l"])
                        if rt is not None and rt not in inner:
                            counters[rt] = y
                divisor = None
                for y in walk(fn["body"]):
                    if y.get("k") in ("Binary", "AssignOp") and y["op"] == "/" and _root(y["r"]) in counters:
                        divisor = y
                if block_mean is not None and counters and divisor is not None:
                    res.violate("%s : mean-of-block-means" % key, "per-block means (`%s`) are averaged with one weight per block (`%s` counts blocks, `%s` divides by it): unless every block has the same number of rows this is not the mean of the rows - the rows of a short block weigh more" % (r.e(block_mean)[:40], r.e(list(counters.values())[0])[:30], r.e(divisor)[:40]), fn_loc(fn, divisor.get("ln")))
                else:
                    res.ok()
        res.instance("%d functions scanned, %d loops over blocks" % (n_fns, n_loops))
        if n_fns:
            res.ok()
        else:
            res.missing_anchor("functions of %s" % what)
        return res.finish(1)
    rule.__name__ = "rule_" + rid.replace("-", "_")
    return rule
