"""The mean of block means is the overall mean only when all blocks have the same size.

Code that walks its rows in blocks (`axis_chunks_iter`, `chunks`, ..) - to keep running sums short, say - and averages
the per-block means with one weight per *block* weights the rows of a short last block (or of a block in which a
cluster has few members) more than the others: identical for inputs that fit one block or divide evenly, which is what
the tests use, and off for every other size.

Positive evidence asked for, all three together: inside a loop over a chunk iterator (a) a per-block mean is formed
(`mean_axis` / `mean()` of the block, or a quotient whose divisor is a count declared inside the loop body), (b) a
counter declared outside the loop is incremented by the literal one per block, and (c) that counter is used as a divisor."""
from .core import RuleResult
from .facts import fn_key, fn_loc, walk, strip, peel_refs, pat_bindings, Render
from .facts import lit_float, lit_number

CHUNKS = {"axis_chunks_iter", "axis_chunks_iter_mut", "chunks", "chunks_exact", "exact_chunks", "exact_chunks_mut", "chunks_mut"}


def _root(n):
    n = peel_refs(n)
    while True:
        k = n.get("k")
        if k in ("Index", "Field", "Cast", "Ref"):
            n = peel_refs(n["e"])
        elif k == "Unary":
            n = peel_refs(n["e"])
        elif k == "MethodCall" and n["name"] in ("clone", "unwrap", "row", "row_mut", "view", "get", "get_mut", "index_axis", "to_owned"):
            n = peel_refs(n["recv"])
        elif k == "Call" and len(n.get("args") or []) == 1:
            n = peel_refs(n["args"][0])          # F::cast(n), F::from(n)
        else:
            return n.get("local") if k == "Path" else None


def make_rule(rid, select, what):
    def rule(ctx):
        from .c17 import for_loops
        res = RuleResult(rid, "no mean of per-block means with one weight per block in %s" % what)
        F = ctx.facts()
        n_fns = n_loops = 0
        for fn in F.all_fns():
            if not select(fn) or fn.get("exp") or "tests" in fn["d"]["path"]:
                continue
            n_fns += 1
            c = fn["crate"]
            r = Render(c)
            key = fn_key(fn)
            inits = {}
            for y in walk(fn["body"]):
                if y.get("k") == "LetStmt" and y.get("init") is not None and y["pat"].get("k") == "Bind":
                    inits[y["pat"]["local"]] = y["init"]
            for it, pat, body, node in for_loops(fn["body"]):
                src = [it]
                i0 = peel_refs(it)
                if i0.get("k") == "Path" and i0.get("local") in inits:
                    src.append(inits[i0["local"]])
                if not any(y.get("k") == "MethodCall" and y["name"] in CHUNKS for e in src for y in walk(e)):
                    continue
                n_loops += 1
                res.instance("%s : loop over blocks (line %s)" % (key, node.get("ln")))
                inner = {b["local"] for b in pat_bindings(pat)}
                for y in walk(body):
                    if y.get("k") in ("LetStmt", "Let"):
                        inner |= {b["local"] for b in pat_bindings(y["pat"])}
                    if y.get("k") == "Closure":
                        for p_ in y["params"]:
                            inner |= {b["local"] for b in pat_bindings(p_)}
                    if y.get("k") == "Match":
                        for a in y["arms"]:
                            inner |= {b["local"] for b in pat_bindings(a["pat"])}
                block_mean = None
                for y in walk(body):
                    if y.get("k") == "MethodCall" and y["name"] in ("mean_axis", "mean"):
                        block_mean = y
                    if y.get("k") in ("Binary", "AssignOp") and y["op"] == "/" and _root(y["r"]) in inner and _root(y["r"]) is not None:
                        block_mean = block_mean or y
                counters = {}
                for y in walk(body):
                    if y.get("k") == "AssignOp" and y["op"] == "+" and peel_refs(y["r"]).get("k") == "Lit" and lit_float(peel_refs(y["r"]).get("v")) == 1.0:
                        rt = _root(y["l"])
                        if rt is not None and rt not in inner:
                            counters[rt] = y
                divisor = None
                for y in walk(fn["body"]):
                    if y.get("k") in ("Binary", "AssignOp") and y["op"] == "/" and _root(y["r"]) in counters:
                        divisor = y
                if block_mean is not None and counters and divisor is not None:
                    res.violate("%s : mean-of-block-means" % key, "per-block means (`%s`) are averaged with one weight per block (`%s` counts blocks, `%s` divides by it): unless every block has the same number of rows this is not the mean of the rows - the rows of a short block weigh more" % (r.e(block_mean)[:40], r.e(list(counters.values())[0])[:30], r.e(divisor)[:40]), fn_loc(fn, divisor.get("ln")))
                else:
                    res.ok()
        res.instance("%d functions scanned, %d loops over blocks" % (n_fns, n_loops))
        if n_fns:
            res.ok()
        else:
            res.missing_anchor("functions of %s" % what)
        return res.finish(1)
    rule.__name__ = "rule_" + rid.replace("-", "_")
    return rule



def make_tile_rule(rid, select, what):
    """`for j0 in (0..n).step_by(T) { let j1 = min(j0 + T, n); .. }`: the end of a tile is its own start plus the tile length.
    Computed from the *enclosing* loop's start (`min(i0 + T, n)`) it is right for the tiles on the diagonal - all there is
    when n <= T - and leaves the others empty or too long."""
    def rule(ctx):
        from .c17 import for_loops
        res = RuleResult(rid, "in tiled loops of %s the end of a tile is computed from that tile's start" % what)
        F = ctx.facts()
        n_fns = n_loops = 0
        for fn in F.all_fns():
            if not select(fn) or fn.get("exp") or "tests" in fn["d"]["path"]:
                continue
            n_fns += 1
            c = fn["crate"]
            r = Render(c)
            key = fn_key(fn)
            stepped = []
            for it, pat, body, node in for_loops(fn["body"]):
                st = next((y for y in walk(it) if y.get("k") == "MethodCall" and y["name"] == "step_by" and y["args"]), None)
                ids = [b["local"] for b in pat_bindings(pat)]
                if st is not None and len(ids) == 1:
                    stepped.append((ids[0], r.e(peel_refs(st["args"][0])), body, node))
            starts = {s_[0] for s_ in stepped}
            for vid, step, body, node in stepped:
                n_loops += 1
                res.instance("%s : tiled loop (line %s)" % (key, node.get("ln")))
                b0 = strip(body)
                bad = None
                for st_ in (b0.get("stmts") or []) if b0.get("k") == "Block" else []:
                    if st_.get("k") != "LetStmt" or st_.get("init") is None:
                        continue
                    for y in walk(st_["init"]):
                        if y.get("k") == "Binary" and y["op"] == "+" and step in (r.e(peel_refs(y["l"])), r.e(peel_refs(y["r"]))):
                            other = peel_refs(y["l"]) if r.e(peel_refs(y["r"])) == step else peel_refs(y["r"])
                            if other.get("k") == "Path" and other.get("local") in starts and other["local"] != vid and not any(z.get("k") == "Path" and z.get("local") == vid for z in walk(st_["init"])):
                                bad = (st_, other)
                if bad:
                    res.violate("%s : tile-end-from-other-loop" % key, "`%s`: the end of this loop's tile is computed from `%s`, the start of the enclosing loop's tile: right on the diagonal only (all there is when the data fits one tile)" % (r.e(bad[0]["init"])[:50], bad[1].get("name")), fn_loc(fn, bad[0].get("ln")))
                else:
                    res.ok()
        res.instance("%d functions scanned, %d tiled loops" % (n_fns, n_loops))
        if n_fns:
            res.ok()
        else:
            res.missing_anchor("functions of %s" % what)
        return res.finish(1)
    rule.__name__ = "rule_" + rid.replace("-", "_")
    return rule


def make_offset_rule(rid, select, what):
    """Work done block by block writes block b at offset b * BLOCK: the *nominal* block length.  `b * block.len()` is the same
    number for every full block and a smaller one for a short last block, whose results then land on top of earlier rows
    while the tail keeps whatever the buffer held - for every size that is not a multiple of the block length."""
    def rule(ctx):
        from .c17 import for_loops
        res = RuleResult(rid, "blocked loops in %s place block b at b * (nominal block length), not at b * (length of the current block)" % what)
        F = ctx.facts()
        n_fns = n_loops = 0
        for fn in F.all_fns():
            if not select(fn) or fn.get("exp") or "tests" in fn["d"]["path"]:
                continue
            n_fns += 1
            c = fn["crate"]
            r = Render(c)
            key = fn_key(fn)
            inits = {}
            for y in walk(fn["body"]):
                if y.get("k") == "LetStmt" and y.get("init") is not None and y["pat"].get("k") == "Bind":
                    inits[y["pat"]["local"]] = y["init"]
            bodies = []
            for it, pat, body, node in for_loops(fn["body"]):
                src = [it]
                for z in walk(it):
                    if z.get("k") == "Path" and z.get("local") in inits:
                        src.append(inits[z["local"]])      # `blocks.iter().enumerate()` with `let blocks = x.axis_chunks_iter(..)..collect()`
                if any(y.get("k") == "MethodCall" and y["name"] in CHUNKS for e in src for y in walk(e)) and any(y.get("k") == "MethodCall" and y["name"] == "enumerate" for e in src for y in walk(e)):
                    bodies.append((pat, body, node))
            # closure form: `chunks.enumerate().for_each(|(b, block)| ..)` / par_iter variants
            for y in walk(fn["body"]):
                if y.get("k") == "MethodCall" and y["name"] in ("for_each", "map", "flat_map", "try_for_each") and y["args"] and strip(y["args"][0]).get("k") == "Closure":
                    if any(z.get("k") == "MethodCall" and z["name"] in CHUNKS for z in walk(y["recv"])) and any(z.get("k") == "MethodCall" and z["name"] == "enumerate" for z in walk(y["recv"])):
                        clo = strip(y["args"][0])
                        if clo["params"]:
                            bodies.append((clo["params"][0], clo["body"], y))
            for pat, body, node in bodies:
                n_loops += 1
                res.instance("%s : blocked loop (line %s)" % (key, node.get("ln")))
                p0 = pat
                while p0.get("k") == "Ref":
                    p0 = p0["pat"]
                if p0.get("k") != "Tuple" or len(p0["pats"]) < 2:
                    res.ok()
                    continue
                idx = {b["local"] for b in pat_bindings(p0["pats"][0])}
                blk = {b["local"] for q in p0["pats"][1:] for b in pat_bindings(q)}
                # locals bound to parts of the block inside the body
                for y in walk(body):
                    if y.get("k") == "LetStmt" and y.get("init") is not None and any(z.get("k") == "Path" and z.get("local") in blk for z in walk(y["init"])) and not any(z.get("k") == "MethodCall" and z["name"] in ("len", "nrows", "len_of", "dim") for z in [peel_refs(y["init"])]):
                        blk |= {b["local"] for b in pat_bindings(y["pat"])}
                bad = None
                lens = {}
                for y in walk(body):
                    if y.get("k") == "LetStmt" and y.get("init") is not None and y["pat"].get("k") == "Bind":
                        i1 = peel_refs(y["init"])
                        if i1.get("k") == "MethodCall" and i1["name"] in ("len", "nrows", "len_of") and peel_refs(i1["recv"]).get("local") in blk:
                            lens[y["pat"]["local"]] = i1
                for y in walk(body):
                    if y.get("k") == "Binary" and y["op"] == "*":
                        for a, b in ((y["l"], y["r"]), (y["r"], y["l"])):
                            a0, b0 = peel_refs(a), peel_refs(b)
                            if a0.get("k") == "Path" and a0.get("local") in idx:
                                is_len = (b0.get("k") == "MethodCall" and b0["name"] in ("len", "nrows", "len_of") and peel_refs(b0["recv"]).get("local") in blk) or (b0.get("k") == "Path" and b0.get("local") in lens)
                                if is_len:
                                    bad = y
                if bad is not None:
                    res.violate("%s : block-offset-from-current-block-length" % key, "`%s`: block b is placed at b times the length of the *current* block: right for full blocks, too small for a short last block - its results overwrite earlier rows and the tail is never written - for every size that is not a multiple of the block length" % r.e(bad)[:50], fn_loc(fn, bad.get("ln")))
                else:
                    res.ok()
        res.instance("%d functions scanned, %d blocked loops with a block index" % (n_fns, n_loops))
        if n_fns:
            res.ok()
        else:
            res.missing_anchor("functions of %s" % what)
        return res.finish(1)
    rule.__name__ = "rule_" + rid.replace("-", "_")
    return rule
