"""An enum dispatcher `match self { A => AImpl::f(x), B => BImpl::f(x), .. }` sends every variant to its own implementation.

Complements the method-name agreement (all arms call the same operation): the *implementing types* of the arms are pairwise
different, and where all the other arms follow the naming scheme `<Variant>..` the remaining one does too."""
from .core import RuleResult
from .facts import fn_key, fn_loc, strip, peel_refs


def make_rule(rid, select, floor, what):
    def rule(ctx):
        res = RuleResult(rid, "every arm of an enum dispatcher in %s calls the implementation of its own variant (no two variants share one implementing type)" % what)
        F = ctx.facts()
        n = 0
        for fn in F.all_fns():
            if not select(fn):
                continue
            c = fn["crate"]
            b = strip(fn["body"])
            while b.get("k") == "Block" and not b["stmts"] and b.get("e") is not None:
                b = strip(b["e"])
            if b.get("k") != "Match" or b.get("src", "Normal") != "Normal" or len(b["arms"]) < 2 or peel_refs(b["scrut"]).get("name") != "self":
                continue
            arms = []
            for a in b["arms"]:
                pat = a["pat"]
                while pat.get("k") == "Ref":
                    pat = pat["pat"]
                vname = (c.dfn(pat.get("def")) or {}).get("name") if pat.get("k") in ("Path", "TupleStruct", "Struct") else None
                body = strip(a["body"])
                impl = None
                if body.get("k") == "Call" and strip(body["f"]).get("k") == "Path":
                    f = strip(body["f"])
                    ga = f.get("ga") or []
                    d = c.dfn(f.get("inst")) if f.get("inst") is not None else None
                    impl = (ga[0] if ga else None) or (d or {}).get("self_adt")
                    if impl is None:
                        dd = c.dfn(f.get("def")) or {}
                        impl = dd.get("self_adt")
                arms.append((vname, (impl or "").split("::")[-1].split("<")[0] or None))
            if any(v is None or i is None for v, i in arms):
                continue
            n += 1
            key = fn_key(fn)
            res.instance("%s : %s" % (key, ", ".join("%s -> %s" % a for a in arms)))
            impls = [i for _, i in arms]
            dup = next((i for i in impls if impls.count(i) > 1), None)
            named = [i.lower().startswith(v.lower()) for v, i in arms]
            if dup is not None:
                vs = [v for v, i in arms if i == dup]
                odd = next((v for v in vs if not dup.lower().startswith(v.lower())), vs[-1])
                res.violate("%s : two-variants-one-implementation:%s" % (key, odd), "the variants %s are both dispatched to `%s`: `%s` does not get its own implementation" % (" and ".join(vs), dup, odd), fn_loc(fn))
            elif named.count(False) == 1 and len(arms) >= 3:
                v, i = arms[named.index(False)]
                res.violate("%s : arm-dispatches-to-sibling:%s" % (key, v), "every other arm calls the implementation named after its variant; `%s` calls `%s`" % (v, i), fn_loc(fn))
            else:
                res.ok()
        if n < floor:
            res.missing_anchor("enum dispatchers with one implementing type per arm (found %d)" % n)
        return res.finish(floor)
    return rule
