#!/bin/bash
# usage: round.sh <tag> <prop>    verify + try every change of one property of a round; appends to /tmp/seeded<tag>/verify.log and try.log
TAG=$1; P=$2
ROOT=/tmp/seeded$TAG
for i in 1 2; do
  SD=$ROOT/$P/$i
  [ -f $SD/patch.diff ] || continue
  python3 - $SD $P <<'PY'
import json,sys,os
p=os.path.join(sys.argv[1],'meta.json')
try: d=json.load(open(p))
except Exception: d={}
d['property']=sys.argv[2]
json.dump(d,open(p,'w'),indent=1)
PY
  { echo "##### $P/$i"; PRESERVING=1 SV_TAG=$TAG$P /verif/bin/verify-seeded $SD 2>&1; } > $ROOT/$P/$i/verify.out
  /verif/bin/try-seeded $SD all > $ROOT/$P/$i/try.out 2>&1
done
cat $ROOT/$P/*/verify.out >> $ROOT/verify.log
echo "== $P"; grep -h "VERIFY OK\|VERIFY FAILED\|patch-does-not" $ROOT/$P/*/verify.out; grep -h -A3 "rc=[12]" $ROOT/$P/*/try.out | grep -v "^--" | cut -c1-250
rm -rf /tmp/sv-clean$TAG$P /tmp/sv-patched$TAG$P /tmp/sv-demo$TAG$P*
git -C /repo worktree remove --force /tmp/wt$TAG-$P 2>/dev/null; rm -rf /tmp/wt$TAG-$P
