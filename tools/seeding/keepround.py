#!/usr/bin/env python3
"""keepround.py <tag> <idprefix> [--preserving]: re-run try-seeded (all checks) on every verified change of a round with the current rules and keep it under /verif/seeded"""
import concurrent.futures, json, os, re, subprocess, sys
tag, prefix = sys.argv[1], sys.argv[2]
pres = "--preserving" in sys.argv
root = "/tmp/seeded%s" % tag
WHY = json.load(open(os.path.join(os.path.dirname(os.path.abspath(__file__)), "why_%s.json") % tag)) if os.path.exists(os.path.join(os.path.dirname(os.path.abspath(__file__)), "why_%s.json") % tag) else {}
jobs = []
for p in sorted(os.listdir(root)):
    for i in "123":
        sd = os.path.join(root, p, i)
        if os.path.exists(os.path.join(sd, "patch.diff")) and os.path.exists(os.path.join(sd, "verify.out")) and "VERIFY OK" in open(os.path.join(sd, "verify.out")).read():
            jobs.append((p, i, sd))
def run(j):
    p, i, sd = j
    out = subprocess.run(["/verif/bin/try-seeded", sd, "all"], capture_output=True, text=True).stdout
    open(os.path.join(sd, "try_final.out"), "w").write(out)
    return j, out
summary = []
with concurrent.futures.ThreadPoolExecutor(6) as ex:
    for (p, i, sd), out in ex.map(run, jobs):
        hits = {}
        cur = None
        und = False
        for l in out.splitlines():
            m = re.match(r"seed=\S+ check=(C\d+) rc=(\d)", l)
            if m:
                cur = m.group(1) if m.group(2) == "1" else None
                continue
            if cur and "key:" in l:
                hits.setdefault(cur, []).append(l.split("key:", 1)[1].strip())
            if "undecided:" in l:
                und = True
        sid = "%s-%s-%s" % (prefix, p, i)
        if pres:
            status = "FALSE-ALARM " + json.dumps(hits) if hits else ("undecided-only" if und else "clean")
            summary.append((sid, status))
            if not hits:
                subprocess.run(["/verif/bin/keep-seeded", sd, sid, "--preserving", "--verify-log", root + "/verify.log", "--root", root], capture_output=True)
            continue
        if p in hits:
            chk, key = p, hits[p][0]
        elif hits:
            chk = sorted(hits)[0]
            key = hits[chk][0]
        else:
            chk = key = None
        if key:
            # expect_key: rule + function + reason without the digest suffix
            key = re.sub(r":[0-9a-f]{8}$", "", key)
            subprocess.run(["/verif/bin/keep-seeded", sd, sid, "--key", key, "--check", chk, "--verify-log", root + "/verify.log", "--root", root], capture_output=True)
            summary.append((sid, "detected by %s: %s" % (chk, key[:110])))
        else:
            why = WHY.get("%s/%s" % (p, i), "not decided by any rule (see DESIGN 9.5)")
            subprocess.run(["/verif/bin/keep-seeded", sd, sid, "--undecidable", why, "--verify-log", root + "/verify.log", "--root", root], capture_output=True)
            summary.append((sid, "NOT DETECTED%s" % (" (undecided lines)" if und else "")))
for s in summary:
    print(*s)
