#!/bin/bash
# usage: setup_round.sh <tag>   e.g. 12  -> worktrees /tmp/wt12-Cxx, out dirs /tmp/seeded12/Cxx
TAG=$1
mkdir -p /tmp/seeded$TAG
for i in $(seq -w 1 20); do
  P=C$i
  git -C /repo worktree add --detach /tmp/wt$TAG-$P HEAD >/dev/null 2>&1
  mkdir -p /tmp/seeded$TAG/$P
  python3 - "$P" "$TAG" <<'EOF'
import json,sys
p,tag=sys.argv[1],sys.argv[2]
for l in open('/verif/properties.jsonl'):
    d=json.loads(l)
    if d['id']==p:
        json.dump(d,open('/tmp/seeded%s/%s/property.json'%(tag,p),'w'),indent=1)
EOF
done
git -C /repo worktree list | wc -l
ls /tmp/seeded$TAG
