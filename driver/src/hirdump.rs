// Typed HIR expression trees (HIR + typeck results; closures are inlined at their expression).
use crate::json::J;
use crate::Cx;
use rustc_hir as hir;
use rustc_hir::def::{DefKind, Res};
use rustc_hir::def_id::{DefId, LocalDefId};
use rustc_middle::ty::{self, TypeckResults, TypingEnv};

pub struct Hd<'a, 'tcx> {
    pub cx: &'a mut Cx<'tcx>,
    pub tc: &'tcx TypeckResults<'tcx>,
    pub env: TypingEnv<'tcx>,
}

fn o(v: Vec<(&'static str, J)>) -> J {
    J::O(v)
}

pub fn dump_fn<'tcx>(cx: &mut Cx<'tcx>, did: LocalDefId) -> J {
    let tcx = cx.tcx;
    let body = tcx.hir_body_owned_by(did);
    let tc = tcx.typeck(did);
    let env = TypingEnv::post_analysis(tcx, did.to_def_id());
    let sig = tcx.fn_sig(did).instantiate_identity().skip_norm_wip().skip_binder();
    let inputs: Vec<J> = sig.inputs().iter().map(|t| J::S(cx.ty_str(*t))).collect();
    let output = J::S(cx.ty_str(sig.output()));
    let def = cx.def(did.to_def_id());
    let (file, line) = cx.loc(tcx.def_span(did));
    let sm = tcx.sess.source_map();
    let hi = sm.lookup_char_pos(body.value.span.source_callsite().hi()).line;
    let vis = crate::vis_str(tcx, tcx.visibility(did));
    let attrs = cx.attrs(did);
    let doc = cx.doc(did);
    let exp = cx.exp_flag(tcx.def_span(did));
    let mut hd = Hd { cx, tc, env };
    let params: Vec<J> = body.params.iter().map(|p| hd.pat(p.pat)).collect();
    let value = hd.expr(body.value);
    o(vec![
        ("def", def),
        ("vis", J::S(vis)),
        ("inputs", J::A(inputs)),
        ("output", output),
        ("file", J::I(file as i64)),
        ("line", J::I(line as i64)),
        ("end_line", J::I(hi as i64)),
        ("exp", J::I(exp)),
        ("attrs", attrs),
        ("doc", doc),
        ("params", J::A(params)),
        ("body", value),
    ])
}

/// the initialiser of a `const` / `static` item (a named constant that a rule has to look through, e.g. a clip bound)
pub fn dump_const<'tcx>(cx: &mut Cx<'tcx>, did: LocalDefId) -> J {
    let tcx = cx.tcx;
    let body = tcx.hir_body_owned_by(did);
    let tc = tcx.typeck(did);
    let env = TypingEnv::post_analysis(tcx, did.to_def_id());
    let def = cx.def(did.to_def_id());
    let (file, line) = cx.loc(tcx.def_span(did));
    let exp = cx.exp_flag(tcx.def_span(did));
    let mut hd = Hd { cx, tc, env };
    let value = hd.expr(body.value);
    o(vec![
        ("def", def),
        ("file", J::I(file as i64)),
        ("line", J::I(line as i64)),
        ("exp", J::I(exp)),
        ("body", value),
    ])
}

impl<'a, 'tcx> Hd<'a, 'tcx> {
    fn base(&mut self, k: &str, e: &hir::Expr<'tcx>) -> Vec<(&'static str, J)> {
        let mut v = vec![("k", J::S(k.into()))];
        let t = self.tc.expr_ty(e);
        v.push(("t", self.cx.ty(t)));
        let adj = self.tc.expr_adjustments(e);
        if let Some(last) = adj.last() {
            v.push(("at", self.cx.ty(last.target)));
        }
        v.push(("ln", self.cx.line(e.span)));
        let x = self.cx.exp_flag(e.span);
        if x != 0 {
            v.push(("x", J::I(x)));
        }
        v
    }

    fn callee(&mut self, v: &mut Vec<(&'static str, J)>, did: DefId, args: ty::GenericArgsRef<'tcx>) {
        v.push(("def", self.cx.def(did)));
        let ga: Vec<J> = args.iter().map(|a| J::S(rustc_middle::ty::print::with_no_trimmed_paths!(format!("{}", a)))).collect();
        if !ga.is_empty() {
            v.push(("ga", J::A(ga)));
        }
        let tcx = self.cx.tcx;
        if matches!(tcx.def_kind(did), DefKind::Fn | DefKind::AssocFn)
            && tcx.generics_of(did).count() == args.len()
        {
            if let Ok(Some(inst)) = ty::Instance::try_resolve(tcx, self.env, did, args) {
                let idid = inst.def_id();
                if idid != did {
                    v.push(("inst", self.cx.def(idid)));
                }
            }
        }
    }

    fn opt_expr(&mut self, e: Option<&hir::Expr<'tcx>>) -> J {
        match e {
            Some(e) => self.expr(e),
            None => J::Null,
        }
    }

    fn exprs(&mut self, es: &[hir::Expr<'tcx>]) -> J {
        J::A(es.iter().map(|e| self.expr(e)).collect())
    }

    fn block(&mut self, b: &hir::Block<'tcx>) -> J {
        let mut stmts = vec![];
        for s in b.stmts {
            match s.kind {
                hir::StmtKind::Let(l) => {
                    let mut v = vec![("k", J::S("LetStmt".into()))];
                    v.push(("pat", self.pat(l.pat)));
                    v.push(("init", self.opt_expr(l.init)));
                    if let Some(els) = l.els {
                        v.push(("els", self.block(els)));
                    }
                    v.push(("ln", self.cx.line(s.span)));
                    stmts.push(o(v));
                }
                hir::StmtKind::Item(_) => {}
                hir::StmtKind::Expr(e) => stmts.push(self.expr(e)),
                hir::StmtKind::Semi(e) => {
                    let j = self.expr(e);
                    stmts.push(o(vec![("k", J::S("Semi".into())), ("e", j)]));
                }
            }
        }
        let mut v = vec![("k", J::S("Block".into()))];
        v.push(("stmts", J::A(stmts)));
        v.push(("e", self.opt_expr(b.expr)));
        v.push(("ln", self.cx.line(b.span)));
        o(v)
    }

    pub fn expr(&mut self, e: &hir::Expr<'tcx>) -> J {
        use hir::ExprKind as K;
        let tcx = self.cx.tcx;
        match &e.kind {
            K::DropTemps(inner) => self.expr(inner),
            K::Type(inner, _) => self.expr(inner),
            K::Lit(lit) => {
                let mut v = self.base("Lit", e);
                let s = match lit.node {
                    rustc_ast::LitKind::Int(n, _) => format!("{}", n.get()),
                    rustc_ast::LitKind::Float(sym, _) => sym.to_string(),
                    rustc_ast::LitKind::Bool(b) => format!("{}", b),
                    rustc_ast::LitKind::Str(sym, _) => sym.to_string(),
                    rustc_ast::LitKind::Char(c) => c.to_string(),
                    _ => "?".to_string(),
                };
                let lk = match lit.node {
                    rustc_ast::LitKind::Int(..) => "int",
                    rustc_ast::LitKind::Float(..) => "float",
                    rustc_ast::LitKind::Bool(..) => "bool",
                    rustc_ast::LitKind::Str(..) => "str",
                    rustc_ast::LitKind::Char(..) => "char",
                    _ => "other",
                };
                v.push(("v", J::S(s)));
                v.push(("lk", J::S(lk.into())));
                o(v)
            }
            K::Path(qpath) => {
                let mut v = self.base("Path", e);
                let res = self.tc.qpath_res(qpath, e.hir_id);
                match res {
                    Res::Local(hid) => {
                        v.push(("local", J::I(hid.local_id.as_u32() as i64)));
                        v.push(("name", J::S(tcx.hir_name(hid).to_string())));
                    }
                    Res::Def(_, did) => {
                        let args = self.tc.node_args(e.hir_id);
                        self.callee(&mut v, did, args);
                    }
                    other => {
                        v.push(("res", J::S(format!("{:?}", other))));
                    }
                }
                o(v)
            }
            K::Call(f, args) => {
                let mut v = self.base("Call", e);
                v.push(("f", self.expr(f)));
                v.push(("args", self.exprs(args)));
                o(v)
            }
            K::MethodCall(seg, recv, args, _) => {
                let mut v = self.base("MethodCall", e);
                v.push(("name", J::S(seg.ident.to_string())));
                if let Some(did) = self.tc.type_dependent_def_id(e.hir_id) {
                    let ga = self.tc.node_args(e.hir_id);
                    self.callee(&mut v, did, ga);
                }
                v.push(("recv", self.expr(recv)));
                v.push(("args", self.exprs(args)));
                o(v)
            }
            K::Binary(op, l, r) => {
                let mut v = self.base("Binary", e);
                v.push(("op", J::S(op.node.as_str().to_string())));
                if self.tc.is_method_call(e) {
                    if let Some(did) = self.tc.type_dependent_def_id(e.hir_id) {
                        let ga = self.tc.node_args(e.hir_id);
                        self.callee(&mut v, did, ga);
                    }
                }
                v.push(("l", self.expr(l)));
                v.push(("r", self.expr(r)));
                o(v)
            }
            K::Unary(op, x) => {
                let mut v = self.base("Unary", e);
                let s = match op {
                    hir::UnOp::Deref => "*",
                    hir::UnOp::Not => "!",
                    hir::UnOp::Neg => "-",
                };
                v.push(("op", J::S(s.into())));
                if self.tc.is_method_call(e) {
                    if let Some(did) = self.tc.type_dependent_def_id(e.hir_id) {
                        let ga = self.tc.node_args(e.hir_id);
                        self.callee(&mut v, did, ga);
                    }
                }
                v.push(("e", self.expr(x)));
                o(v)
            }
            K::Assign(l, r, _) => {
                let mut v = self.base("Assign", e);
                v.push(("l", self.expr(l)));
                v.push(("r", self.expr(r)));
                o(v)
            }
            K::AssignOp(op, l, r) => {
                let mut v = self.base("AssignOp", e);
                // "+=" -> "+": the same operator names as for Binary
                let ops = op.node.as_str();
                let ops = ops.strip_suffix('=').unwrap_or(ops);
                v.push(("op", J::S(ops.to_string())));
                if self.tc.is_method_call(e) {
                    if let Some(did) = self.tc.type_dependent_def_id(e.hir_id) {
                        let ga = self.tc.node_args(e.hir_id);
                        self.callee(&mut v, did, ga);
                    }
                }
                v.push(("l", self.expr(l)));
                v.push(("r", self.expr(r)));
                o(v)
            }
            K::Cast(x, _) => {
                let mut v = self.base("Cast", e);
                v.push(("e", self.expr(x)));
                o(v)
            }
            K::Let(le) => {
                let mut v = self.base("Let", e);
                v.push(("pat", self.pat(le.pat)));
                v.push(("init", self.expr(le.init)));
                o(v)
            }
            K::If(c, t, el) => {
                let mut v = self.base("If", e);
                v.push(("c", self.expr(c)));
                v.push(("then", self.expr(t)));
                v.push(("else", self.opt_expr(*el)));
                o(v)
            }
            K::Loop(b, _, src, _) => {
                let mut v = self.base("Loop", e);
                v.push(("src", J::S(format!("{:?}", src))));
                v.push(("body", self.block(b)));
                o(v)
            }
            K::Match(scrut, arms, src) => {
                let mut v = self.base("Match", e);
                let s = format!("{:?}", src);
                let s = s.split('(').next().unwrap_or("").to_string();
                v.push(("src", J::S(s)));
                v.push(("scrut", self.expr(scrut)));
                let mut av = vec![];
                for a in *arms {
                    let mut w = vec![("pat", self.pat(a.pat))];
                    w.push(("guard", self.opt_expr(a.guard)));
                    w.push(("body", self.expr(a.body)));
                    av.push(o(w));
                }
                v.push(("arms", J::A(av)));
                o(v)
            }
            K::Closure(c) => {
                let mut v = self.base("Closure", e);
                v.push(("def", self.cx.def(c.def_id.to_def_id())));
                let body = tcx.hir_body(c.body);
                let params: Vec<J> = body.params.iter().map(|p| self.pat(p.pat)).collect();
                v.push(("params", J::A(params)));
                let mut caps = vec![];
                for cp in self.tc.closure_min_captures_flattened(c.def_id) {
                    let root = cp.get_root_variable();
                    let by = match cp.info.capture_kind {
                        ty::UpvarCapture::ByValue => "value".to_string(),
                        ty::UpvarCapture::ByUse => "use".to_string(),
                        ty::UpvarCapture::ByRef(bk) => format!("{:?}", bk),
                    };
                    caps.push(o(vec![
                        ("local", J::I(root.local_id.as_u32() as i64)),
                        ("name", J::S(tcx.hir_name(root).to_string())),
                        ("place", J::S(format!("{:?}", cp.place.projections.iter().map(|p| format!("{:?}", p.kind)).collect::<Vec<_>>()))),
                        ("by", J::S(by)),
                    ]));
                }
                v.push(("captures", J::A(caps)));
                v.push(("body", self.expr(body.value)));
                o(v)
            }
            K::Block(b, _) => {
                let mut j = self.block(b);
                if let J::O(ref mut v) = j {
                    let t = self.tc.expr_ty(e);
                    v.push(("t", self.cx.ty(t)));
                    let x = self.cx.exp_flag(e.span);
                    if x != 0 {
                        v.push(("x", J::I(x)));
                    }
                    if !matches!(b.rules, hir::BlockCheckMode::DefaultBlock) {
                        v.push(("unsafe", J::B(true)));
                    }
                }
                j
            }
            K::Field(b, ident) => {
                let mut v = self.base("Field", e);
                v.push(("name", J::S(ident.to_string())));
                v.push(("e", self.expr(b)));
                o(v)
            }
            K::Index(b, i, _) => {
                let mut v = self.base("Index", e);
                if self.tc.is_method_call(e) {
                    if let Some(did) = self.tc.type_dependent_def_id(e.hir_id) {
                        let ga = self.tc.node_args(e.hir_id);
                        self.callee(&mut v, did, ga);
                    }
                }
                v.push(("e", self.expr(b)));
                v.push(("i", self.expr(i)));
                o(v)
            }
            K::AddrOf(_, m, x) => {
                let mut v = self.base("Ref", e);
                v.push(("mut", J::B(m.is_mut())));
                v.push(("e", self.expr(x)));
                o(v)
            }
            K::Break(dest, val) => {
                let mut v = self.base("Break", e);
                if let Some(l) = dest.label {
                    v.push(("label", J::S(l.ident.to_string())));
                }
                v.push(("e", self.opt_expr(*val)));
                o(v)
            }
            K::Continue(dest) => {
                let mut v = self.base("Continue", e);
                if let Some(l) = dest.label {
                    v.push(("label", J::S(l.ident.to_string())));
                }
                o(v)
            }
            K::Ret(val) => {
                let mut v = self.base("Ret", e);
                v.push(("e", self.opt_expr(*val)));
                o(v)
            }
            K::Struct(qpath, fields, tail) => {
                let mut v = self.base("Struct", e);
                let res = self.tc.qpath_res(qpath, e.hir_id);
                match res {
                    Res::Def(_, did) => {
                        v.push(("def", self.cx.def(did)));
                    }
                    other => {
                        v.push(("res", J::S(format!("{:?}", other).chars().take(80).collect())));
                    }
                }
                let mut fv = vec![];
                for f in *fields {
                    fv.push(o(vec![
                        ("name", J::S(f.ident.to_string())),
                        ("e", self.expr(f.expr)),
                    ]));
                }
                v.push(("fields", J::A(fv)));
                match tail {
                    hir::StructTailExpr::Base(b) => v.push(("base", self.expr(b))),
                    _ => {}
                }
                o(v)
            }
            K::Tup(es) => {
                let mut v = self.base("Tup", e);
                v.push(("es", self.exprs(es)));
                o(v)
            }
            K::Array(es) => {
                let mut v = self.base("Array", e);
                v.push(("es", self.exprs(es)));
                o(v)
            }
            K::Repeat(x, _) => {
                let mut v = self.base("Repeat", e);
                v.push(("e", self.expr(x)));
                o(v)
            }
            other => {
                let mut v = self.base("Other", e);
                let s = format!("{:?}", other);
                v.push(("dbg", J::S(s.chars().take(40).collect())));
                o(v)
            }
        }
    }

    pub fn pat(&mut self, p: &hir::Pat<'tcx>) -> J {
        use hir::PatKind as P;
        let tcx = self.cx.tcx;
        let t = self.tc.pat_ty(p);
        let tj = self.cx.ty(t);
        let mut v: Vec<(&'static str, J)> = vec![];
        match &p.kind {
            P::Wild => v.push(("k", J::S("Wild".into()))),
            P::Binding(mode, hid, ident, sub) => {
                v.push(("k", J::S("Bind".into())));
                v.push(("local", J::I(hid.local_id.as_u32() as i64)));
                v.push(("name", J::S(ident.to_string())));
                let m = format!("{:?}", mode);
                v.push(("mode", J::S(m)));
                if let Some(s) = sub {
                    v.push(("sub", self.pat(s)));
                }
            }
            P::Struct(qpath, fields, _) => {
                v.push(("k", J::S("Struct".into())));
                if let Res::Def(_, did) = self.tc.qpath_res(qpath, p.hir_id) {
                    v.push(("def", self.cx.def(did)));
                }
                let mut fv = vec![];
                for f in *fields {
                    fv.push(o(vec![("name", J::S(f.ident.to_string())), ("pat", self.pat(f.pat))]));
                }
                v.push(("fields", J::A(fv)));
            }
            P::TupleStruct(qpath, pats, _) => {
                v.push(("k", J::S("TupleStruct".into())));
                if let Res::Def(_, did) = self.tc.qpath_res(qpath, p.hir_id) {
                    v.push(("def", self.cx.def(did)));
                }
                v.push(("pats", J::A(pats.iter().map(|q| self.pat(q)).collect())));
            }
            P::Or(pats) => {
                v.push(("k", J::S("Or".into())));
                v.push(("pats", J::A(pats.iter().map(|q| self.pat(q)).collect())));
            }
            P::Tuple(pats, _) => {
                v.push(("k", J::S("Tuple".into())));
                v.push(("pats", J::A(pats.iter().map(|q| self.pat(q)).collect())));
            }
            P::Ref(q, ..) => {
                v.push(("k", J::S("Ref".into())));
                v.push(("pat", self.pat(q)));
            }
            P::Box(q) => {
                v.push(("k", J::S("Box".into())));
                v.push(("pat", self.pat(q)));
            }
            P::Expr(pe) => match &pe.kind {
                hir::PatExprKind::Lit { lit, negated } => {
                    v.push(("k", J::S("Lit".into())));
                    let s = match lit.node {
                        rustc_ast::LitKind::Int(n, _) => format!("{}", n.get()),
                        rustc_ast::LitKind::Float(sym, _) => sym.to_string(),
                        rustc_ast::LitKind::Bool(b) => format!("{}", b),
                        rustc_ast::LitKind::Str(sym, _) => sym.to_string(),
                        rustc_ast::LitKind::Char(c) => c.to_string(),
                        _ => "?".to_string(),
                    };
                    v.push(("v", J::S(if *negated { format!("-{}", s) } else { s })));
                }
                hir::PatExprKind::Path(qpath) => {
                    v.push(("k", J::S("Path".into())));
                    if let Res::Def(_, did) = self.tc.qpath_res(qpath, pe.hir_id) {
                        v.push(("def", self.cx.def(did)));
                    }
                }
                _ => {
                    v.push(("k", J::S("OtherPat".into())));
                }
            },
            P::Range(..) => v.push(("k", J::S("Range".into()))),
            P::Slice(a, m, b) => {
                v.push(("k", J::S("Slice".into())));
                let mut all = vec![];
                for q in a.iter() {
                    all.push(self.pat(q));
                }
                if let Some(q) = m {
                    all.push(self.pat(q));
                }
                for q in b.iter() {
                    all.push(self.pat(q));
                }
                v.push(("pats", J::A(all)));
            }
            other => {
                v.push(("k", J::S("OtherPat".into())));
                v.push(("dbg", J::S(format!("{:?}", other).chars().take(40).collect())));
            }
        }
        let _ = tcx;
        v.push(("t", tj));
        o(v)
    }
}
