// linfa-facts: rustc_private driver that dumps, for every workspace lib crate it is wrapped
// around, the resolved program as JSON facts:
//   <out>/<crate>.<cfg>.json      items, ADTs, impls, fn records with typed HIR expression trees
//   <out>/<crate>.<cfg>.mir.json  MIR (mir-opt-level=0) of every fn / closure body
// It never runs any linfa code. Invoked as RUSTC_WORKSPACE_WRAPPER (argv[1] = real rustc, dropped).
#![feature(rustc_private)]
#![feature(box_patterns)]
#![allow(clippy::all)]

extern crate rustc_abi;
extern crate rustc_ast;
extern crate rustc_driver;
extern crate rustc_hir;
extern crate rustc_interface;
extern crate rustc_middle;
extern crate rustc_span;

mod hirdump;
mod json;
mod mirdump;

use json::J;
use rustc_driver::{Callbacks, Compilation};
use rustc_hir::def::DefKind;
use rustc_hir::def_id::{DefId, LocalDefId};
use rustc_interface::interface::Compiler;
use rustc_middle::ty::print::with_no_trimmed_paths;
use rustc_middle::ty::{self, Ty, TyCtxt};
use rustc_span::Span;
use std::collections::HashMap;

pub struct Cx<'tcx> {
    pub tcx: TyCtxt<'tcx>,
    tys: HashMap<String, usize>,
    ty_list: Vec<String>,
    defs: HashMap<DefId, usize>,
    def_list: Vec<J>,
    files: HashMap<String, usize>,
    file_list: Vec<String>,
}

impl<'tcx> Cx<'tcx> {
    fn new(tcx: TyCtxt<'tcx>) -> Self {
        Cx {
            tcx,
            tys: HashMap::new(),
            ty_list: vec![],
            defs: HashMap::new(),
            def_list: vec![],
            files: HashMap::new(),
            file_list: vec![],
        }
    }

    pub fn ty_str(&self, t: Ty<'tcx>) -> String {
        with_no_trimmed_paths!(format!("{}", t))
    }

    pub fn intern_str_ty(&mut self, s: String) -> J {
        if let Some(i) = self.tys.get(&s) {
            return J::I(*i as i64);
        }
        let i = self.ty_list.len();
        self.ty_list.push(s.clone());
        self.tys.insert(s, i);
        J::I(i as i64)
    }

    pub fn ty(&mut self, t: Ty<'tcx>) -> J {
        let s = self.ty_str(t);
        self.intern_str_ty(s)
    }

    pub fn path_str(&self, d: DefId) -> String {
        with_no_trimmed_paths!(self.tcx.def_path_str(d))
    }

    /// Intern a definition: path, item name, crate, kind, and (for associated items) the
    /// enclosing impl's self type / trait.
    pub fn def(&mut self, d: DefId) -> J {
        if let Some(i) = self.defs.get(&d) {
            return J::I(*i as i64);
        }
        let tcx = self.tcx;
        let mut o: Vec<(&'static str, J)> = vec![];
        o.push(("path", J::S(self.path_str(d))));
        o.push(("krate", J::S(tcx.crate_name(d.krate).to_string())));
        o.push((
            "name",
            J::S(tcx.opt_item_name(d).map(|s| s.to_string()).unwrap_or_default()),
        ));
        let kind = tcx.def_kind(d);
        o.push(("kind", J::S(format!("{:?}", kind))));
        o.push(("raw", J::S(format!("{}", tcx.def_path(d).to_string_no_crate_verbose()))));
        if let Some(p) = tcx.opt_parent(d) {
            match tcx.def_kind(p) {
                DefKind::Impl { .. } => {
                    o.push(("pk", J::S("impl".into())));
                    let st = tcx.type_of(p).instantiate_identity().skip_norm_wip();
                    o.push(("self_ty", J::S(self.ty_str(st))));
                    if let ty::Adt(adt, _) = st.kind() {
                        o.push(("self_adt", J::S(self.path_str(adt.did()))));
                    }
                    if let Some(tr) = tcx.impl_opt_trait_ref(p) {
                        let tr = tr.instantiate_identity().skip_norm_wip();
                        o.push(("trait", J::S(self.path_str(tr.def_id))));
                        o.push(("trait_ref", J::S(with_no_trimmed_paths!(format!("{}", tr)))));
                    }
                }
                DefKind::Trait => {
                    o.push(("pk", J::S("trait".into())));
                    o.push(("trait", J::S(self.path_str(p))));
                }
                DefKind::Fn | DefKind::AssocFn | DefKind::Closure => {
                    o.push(("pk", J::S("fn".into())));
                    o.push(("parent", J::S(self.path_str(p))));
                }
                _ => {}
            }
        }
        let i = self.def_list.len();
        self.def_list.push(J::O(o));
        self.defs.insert(d, i);
        J::I(i as i64)
    }

    pub fn file_idx(&mut self, name: String) -> usize {
        if let Some(i) = self.files.get(&name) {
            return *i;
        }
        let i = self.file_list.len();
        self.file_list.push(name.clone());
        self.files.insert(name, i);
        i
    }

    /// (file index, line) of the span's call site (macro invocation for expanded code).
    pub fn loc(&mut self, span: Span) -> (usize, usize) {
        let s = span.source_callsite();
        let sm = self.tcx.sess.source_map();
        let l = sm.lookup_char_pos(s.lo());
        let name = format!("{}", l.file.name.prefer_local_unconditionally());
        (self.file_idx(name), l.line)
    }

    pub fn line(&mut self, span: Span) -> J {
        let (_, l) = self.loc(span);
        J::I(l as i64)
    }

    /// 0 = written by hand, 1 = from a macro expansion, 2 = compiler desugaring
    pub fn exp_flag(&self, span: Span) -> i64 {
        if !span.from_expansion() {
            0
        } else if span.desugaring_kind().is_some() {
            2
        } else {
            1
        }
    }

    pub fn attrs(&mut self, did: LocalDefId) -> J {
        let tcx = self.tcx;
        let hid = tcx.local_def_id_to_hir_id(did);
        let mut v = vec![];
        for a in tcx.hir_attrs(hid) {
            match a {
                rustc_hir::Attribute::Unparsed(item) => {
                    let sm = tcx.sess.source_map();
                    let path = item
                        .path
                        .segments
                        .iter()
                        .map(|s| s.to_string())
                        .collect::<Vec<_>>()
                        .join("::");
                    let snip = sm.span_to_snippet(item.span).unwrap_or_default();
                    v.push(J::O(vec![("path", J::S(path)), ("text", J::S(snip))]));
                }
                rustc_hir::Attribute::Parsed(k) => {
                    let s = format!("{:?}", k);
                    // keep it short: only the variant name + a prefix of the payload
                    let short: String = s.chars().take(160).collect();
                    if short.starts_with("DocComment") {
                        continue;
                    }
                    v.push(J::O(vec![("path", J::S("<parsed>".into())), ("text", J::S(short))]));
                }
            }
        }
        J::A(v)
    }

    pub fn doc(&mut self, did: LocalDefId) -> J {
        let tcx = self.tcx;
        let hid = tcx.local_def_id_to_hir_id(did);
        let mut s = String::new();
        for a in tcx.hir_attrs(hid) {
            if let Some((sym, _)) = a.doc_str_and_fragment_kind() {
                s.push_str(sym.as_str());
                s.push('\n');
            }
        }
        J::S(s)
    }
}

struct Facts {
    out_dir: String,
    cfg_name: String,
}

impl Callbacks for Facts {
    fn after_analysis<'tcx>(&mut self, _c: &Compiler, tcx: TyCtxt<'tcx>) -> Compilation {
        let crate_name = tcx.crate_name(rustc_hir::def_id::LOCAL_CRATE).to_string();
        if crate_name.starts_with("build_script") {
            return Compilation::Continue;
        }
        if let Ok(only) = std::env::var("LINFA_FACTS_ONLY") {
            if only.replace('-', "_") != crate_name {
                return Compilation::Continue;
            }
        }
        let t0 = std::time::Instant::now();
        let mut cx = Cx::new(tcx);
        let mut adts = vec![];
        let mut impls = vec![];
        let mut fns = vec![];
        let mut consts = vec![];
        let mut mirs = vec![];
        let mut n_bodies = 0usize;

        for did in tcx.hir_crate_items(()).definitions() {
            let kind = tcx.def_kind(did);
            match kind {
                DefKind::Struct | DefKind::Enum | DefKind::Union => {
                    adts.push(dump_adt(&mut cx, did));
                }
                DefKind::Impl { .. } => {
                    impls.push(dump_impl(&mut cx, did));
                }
                _ => {}
            }
        }
        for did in tcx.hir_body_owners() {
            let kind = tcx.def_kind(did);
            match kind {
                DefKind::Fn | DefKind::AssocFn => {
                    n_bodies += 1;
                    fns.push(hirdump::dump_fn(&mut cx, did));
                    mirs.push(mirdump::dump_body(&mut cx, did));
                }
                DefKind::Closure => {
                    n_bodies += 1;
                    mirs.push(mirdump::dump_body(&mut cx, did));
                }
                DefKind::Const { .. } | DefKind::AssocConst { .. } | DefKind::Static { .. } => {
                    consts.push(hirdump::dump_const(&mut cx, did));
                }
                _ => {}
            }
        }
        let exports = dump_exports(&mut cx);
        let tys = J::A(cx.ty_list.iter().map(|s| J::S(s.clone())).collect());
        let defs = J::A(std::mem::take(&mut cx.def_list));
        let files = J::A(cx.file_list.iter().map(|s| J::S(s.clone())).collect());
        let n_fns = fns.len();
        let main = J::O(vec![
            ("crate", J::S(crate_name.clone())),
            ("cfg", J::S(self.cfg_name.clone())),
            ("n_bodies", J::I(n_bodies as i64)),
            ("files", files.clone()),
            ("tys", tys.clone()),
            ("defs", defs.clone()),
            ("adts", J::A(adts)),
            ("impls", J::A(impls)),
            ("exports", exports),
            ("fns", J::A(fns)),
            ("consts", J::A(consts)),
        ]);
        let mir = J::O(vec![
            ("crate", J::S(crate_name.clone())),
            ("cfg", J::S(self.cfg_name.clone())),
            ("files", files),
            ("tys", tys),
            ("defs", defs),
            ("bodies", J::A(mirs)),
        ]);
        let p1 = format!("{}/{}.{}.json", self.out_dir, crate_name, self.cfg_name);
        let p2 = format!("{}/{}.{}.mir.json", self.out_dir, crate_name, self.cfg_name);
        let mut s = String::new();
        main.write(&mut s);
        std::fs::write(&p1, s).expect("write facts");
        let mut s = String::new();
        mir.write(&mut s);
        std::fs::write(&p2, s).expect("write mir facts");
        eprintln!(
            "linfa-facts: {} [{}] fns={} bodies={} in {:.1}s",
            crate_name,
            self.cfg_name,
            n_fns,
            n_bodies,
            t0.elapsed().as_secs_f64()
        );
        Compilation::Continue
    }
}

/// Shortest public path (from the crate root, through public modules and `pub use` re-exports)
/// of every local ADT / trait / fn that is nameable from outside the crate.
fn dump_exports<'tcx>(cx: &mut Cx<'tcx>) -> J {
    use rustc_hir::def::Res;
    use std::collections::{HashMap as Map, VecDeque};
    let tcx = cx.tcx;
    let mut best: Map<DefId, String> = Map::new();
    let mut seen: std::collections::HashSet<LocalDefId> = std::collections::HashSet::new();
    let mut q: VecDeque<(LocalDefId, String)> = VecDeque::new();
    q.push_back((rustc_hir::def_id::CRATE_DEF_ID, String::new()));
    while let Some((m, prefix)) = q.pop_front() {
        if !seen.insert(m) {
            continue;
        }
        for ch in tcx.module_children_local(m) {
            if !ch.vis.is_public() {
                continue;
            }
            let name = ch.ident.name.to_string();
            let path = if prefix.is_empty() { name.clone() } else { format!("{}::{}", prefix, name) };
            if let Res::Def(kind, did) = ch.res {
                match kind {
                    DefKind::Mod => {
                        if let Some(l) = did.as_local() {
                            q.push_back((l, path));
                        }
                    }
                    DefKind::Struct | DefKind::Enum | DefKind::Union | DefKind::Trait | DefKind::Fn | DefKind::TyAlias => {
                        if did.is_local() {
                            let e = best.entry(did).or_insert_with(|| path.clone());
                            if path.len() < e.len() {
                                *e = path;
                            }
                        }
                    }
                    _ => {}
                }
            }
        }
    }
    let mut v: Vec<(String, String)> = best.into_iter().map(|(d, p)| (cx.path_str(d), p)).collect();
    v.sort();
    J::A(v.into_iter().map(|(a, b)| J::A(vec![J::S(a), J::S(b)])).collect())
}

fn vis_str<'tcx>(tcx: TyCtxt<'tcx>, v: ty::Visibility<DefId>) -> String {
    match v {
        ty::Visibility::Public => "pub".into(),
        ty::Visibility::Restricted(m) => {
            if m.is_crate_root() {
                "crate".into()
            } else {
                format!("in {}", tcx.def_path_str(m))
            }
        }
    }
}

fn dump_adt<'tcx>(cx: &mut Cx<'tcx>, did: LocalDefId) -> J {
    let tcx = cx.tcx;
    let adt = tcx.adt_def(did.to_def_id());
    let mut variants = vec![];
    for v in adt.variants().iter() {
        let mut fields = vec![];
        for f in v.fields.iter() {
            let fty = tcx.type_of(f.did).instantiate_identity().skip_norm_wip();
            let attrs = match f.did.as_local() {
                Some(l) => cx.attrs(l),
                None => J::A(vec![]),
            };
            fields.push(J::O(vec![
                ("name", J::S(f.name.to_string())),
                ("ty", J::S(cx.ty_str(fty))),
                ("vis", J::S(vis_str(tcx, f.vis))),
                ("attrs", attrs),
            ]));
        }
        let vattrs = match v.def_id.as_local() {
            Some(l) if adt.is_enum() => cx.attrs(l),
            _ => J::A(vec![]),
        };
        variants.push(J::O(vec![
            ("name", J::S(v.name.to_string())),
            ("fields", J::A(fields)),
            ("attrs", vattrs),
        ]));
    }
    let generics = tcx
        .generics_of(did)
        .own_params
        .iter()
        .map(|p| J::S(p.name.to_string()))
        .collect();
    let (file, line) = cx.loc(tcx.def_span(did));
    J::O(vec![
        ("path", J::S(cx.path_str(did.to_def_id()))),
        ("name", J::S(tcx.item_name(did.to_def_id()).to_string())),
        (
            "kind",
            J::S(if adt.is_enum() {
                "enum"
            } else if adt.is_union() {
                "union"
            } else {
                "struct"
            }
            .into()),
        ),
        ("vis", J::S(vis_str(tcx, tcx.visibility(did)))),
        ("generics", J::A(generics)),
        ("attrs", cx.attrs(did)),
        ("variants", J::A(variants)),
        ("file", J::I(file as i64)),
        ("line", J::I(line as i64)),
    ])
}

fn dump_impl<'tcx>(cx: &mut Cx<'tcx>, did: LocalDefId) -> J {
    let tcx = cx.tcx;
    let st = tcx.type_of(did).instantiate_identity().skip_norm_wip();
    let mut o = vec![
        ("raw", J::S(tcx.def_path(did.to_def_id()).to_string_no_crate_verbose())),
        ("self_ty", J::S(cx.ty_str(st))),
    ];
    if let ty::Adt(adt, _) = st.kind() {
        o.push(("self_adt", J::S(cx.path_str(adt.did()))));
    }
    if let Some(tr) = tcx.impl_opt_trait_ref(did) {
        let tr = tr.instantiate_identity().skip_norm_wip();
        o.push(("trait", J::S(cx.path_str(tr.def_id))));
        o.push(("trait_ref", J::S(with_no_trimmed_paths!(format!("{}", tr)))));
    }
    o.push(("derived", J::B(tcx.is_automatically_derived(did.to_def_id()))));
    let items = tcx
        .associated_item_def_ids(did)
        .iter()
        .map(|d| J::S(tcx.opt_item_name(*d).map(|s| s.to_string()).unwrap_or_default()))
        .collect();
    o.push(("items", J::A(items)));
    let preds = tcx
        .predicates_of(did)
        .predicates
        .iter()
        .map(|(p, _)| J::S(with_no_trimmed_paths!(format!("{}", p))))
        .collect();
    o.push(("preds", J::A(preds)));
    let (file, line) = cx.loc(tcx.def_span(did));
    o.push(("file", J::I(file as i64)));
    o.push(("line", J::I(line as i64)));
    o.push(("exp", J::I(cx.exp_flag(tcx.def_span(did)))));
    J::O(o)
}

fn main() {
    let mut args: Vec<String> = std::env::args().collect();
    // RUSTC_WORKSPACE_WRAPPER convention: argv[1] is the path of the real rustc.
    if args.len() > 1 && (args[1].ends_with("rustc") || args[1].contains("/rustc")) {
        args.remove(1);
    }
    let out_dir = std::env::var("LINFA_FACTS_OUT").unwrap_or_else(|_| "/tmp/linfa-facts".into());
    let cfg_name = std::env::var("LINFA_FACTS_CFG").unwrap_or_else(|_| "default".into());
    let _ = std::fs::create_dir_all(&out_dir);
    let mut cb = Facts { out_dir, cfg_name };
    rustc_driver::run_compiler(&args, &mut cb);
}
