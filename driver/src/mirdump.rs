// MIR (mir-opt-level=0) of one body as JSON: locals, user variable names, blocks with
// assignments and terminators, callees resolved through type information.
use crate::json::J;
use crate::Cx;
use rustc_hir::def_id::LocalDefId;
use rustc_middle::mir::{self, Operand, Place, Rvalue, StatementKind, TerminatorKind};
use rustc_middle::ty::{self, TypingEnv};

fn o(v: Vec<(&'static str, J)>) -> J {
    J::O(v)
}

fn place<'tcx>(p: &Place<'tcx>) -> J {
    let mut v = vec![J::I(p.local.as_u32() as i64)];
    for e in p.projection.iter() {
        use mir::ProjectionElem as E;
        let s = match e {
            E::Deref => "*".to_string(),
            E::Field(f, _) => format!(".{}", f.as_u32()),
            E::Index(l) => format!("[_{}]", l.as_u32()),
            E::ConstantIndex { offset, from_end, .. } => {
                if from_end {
                    format!("[-{}]", offset)
                } else {
                    format!("[{}]", offset)
                }
            }
            E::Subslice { from, to, from_end } => format!("[{}..{}{}]", from, if from_end { "-" } else { "" }, to),
            E::Downcast(name, idx) => format!(
                "as {}#{}",
                name.map(|s| s.to_string()).unwrap_or_default(),
                idx.as_u32()
            ),
            other => format!("?{:?}", other),
        };
        v.push(J::S(s));
    }
    J::A(v)
}

fn operand<'tcx>(cx: &mut Cx<'tcx>, env: TypingEnv<'tcx>, op: &Operand<'tcx>) -> J {
    match op {
        Operand::Copy(p) => o(vec![("copy", place(p))]),
        Operand::Move(p) => o(vec![("move", place(p))]),
        Operand::Constant(c) => {
            let t = c.const_.ty();
            let mut v = vec![];
            if let ty::FnDef(did, args) = t.kind() {
                v.push(("fn", cx.def(*did)));
                let ga: Vec<J> = args
                    .iter()
                    .map(|a| J::S(rustc_middle::ty::print::with_no_trimmed_paths!(format!("{}", a))))
                    .collect();
                if !ga.is_empty() {
                    v.push(("ga", J::A(ga)));
                }
                if cx.tcx.generics_of(*did).count() == args.len() {
                    if let Ok(Some(inst)) = ty::Instance::try_resolve(cx.tcx, env, *did, args) {
                        if inst.def_id() != *did {
                            v.push(("inst", cx.def(inst.def_id())));
                        }
                    }
                }
            } else {
                v.push(("const", J::S(format!("{}", c.const_))));
                v.push(("ty", cx.ty(t)));
            }
            o(v)
        }
        #[allow(unreachable_patterns)]
        other => o(vec![("op_other", J::S(format!("{:?}", other)))]),
    }
}

fn rvalue<'tcx>(cx: &mut Cx<'tcx>, env: TypingEnv<'tcx>, rv: &Rvalue<'tcx>) -> J {
    match rv {
        Rvalue::Use(op, ..) => o(vec![("rk", J::S("Use".into())), ("ops", J::A(vec![operand(cx, env, op)]))]),
        Rvalue::Repeat(op, _) => o(vec![("rk", J::S("Repeat".into())), ("ops", J::A(vec![operand(cx, env, op)]))]),
        Rvalue::Ref(_, bk, p) => o(vec![
            ("rk", J::S("Ref".into())),
            ("mut", J::B(matches!(bk, mir::BorrowKind::Mut { .. }))),
            ("place", place(p)),
        ]),
        Rvalue::RawPtr(_, p) => o(vec![("rk", J::S("RawPtr".into())), ("place", place(p))]),
        Rvalue::Cast(kind, op, t) => o(vec![
            ("rk", J::S("Cast".into())),
            ("ck", J::S(format!("{:?}", kind).chars().take(40).collect())),
            ("ops", J::A(vec![operand(cx, env, op)])),
            ("ty", cx.ty(*t)),
        ]),
        Rvalue::BinaryOp(op, box (l, r)) => o(vec![
            ("rk", J::S("BinaryOp".into())),
            ("op", J::S(format!("{:?}", op))),
            ("ops", J::A(vec![operand(cx, env, l), operand(cx, env, r)])),
        ]),
        Rvalue::UnaryOp(op, x) => o(vec![
            ("rk", J::S("UnaryOp".into())),
            ("op", J::S(format!("{:?}", op))),
            ("ops", J::A(vec![operand(cx, env, x)])),
        ]),
        Rvalue::Discriminant(p) => o(vec![("rk", J::S("Discriminant".into())), ("place", place(p))]),
        Rvalue::Aggregate(box kind, fields) => {
            let mut v = vec![("rk", J::S("Aggregate".into()))];
            match kind {
                mir::AggregateKind::Adt(did, variant, _, _, _) => {
                    v.push(("adt", cx.def(*did)));
                    v.push(("variant", J::I(variant.as_u32() as i64)));
                }
                mir::AggregateKind::Closure(did, _) => {
                    v.push(("closure", cx.def(*did)));
                }
                mir::AggregateKind::Tuple => v.push(("agg", J::S("tuple".into()))),
                mir::AggregateKind::Array(_) => v.push(("agg", J::S("array".into()))),
                other => v.push(("agg", J::S(format!("{:?}", other).chars().take(40).collect()))),
            }
            let ops: Vec<J> = fields.iter().map(|f| operand(cx, env, f)).collect();
            v.push(("ops", J::A(ops)));
            o(v)
        }
        Rvalue::CopyForDeref(p) => o(vec![("rk", J::S("CopyForDeref".into())), ("place", place(p))]),
        other => o(vec![("rk", J::S("Other".into())), ("dbg", J::S(format!("{:?}", other).chars().take(120).collect()))]),
    }
}

pub fn dump_body<'tcx>(cx: &mut Cx<'tcx>, did: LocalDefId) -> J {
    let tcx = cx.tcx;
    let body = tcx.optimized_mir(did.to_def_id());
    let env = TypingEnv::post_analysis(tcx, did.to_def_id());
    let def = cx.def(did.to_def_id());
    let mut locals = vec![];
    for (_, d) in body.local_decls.iter_enumerated() {
        locals.push(cx.ty(d.ty));
    }
    let mut names = vec![];
    for vdi in body.var_debug_info.iter() {
        if let mir::VarDebugInfoContents::Place(p) = &vdi.value {
            names.push(o(vec![("name", J::S(vdi.name.to_string())), ("place", place(p))]));
        }
    }
    let mut blocks = vec![];
    for (_, bb) in body.basic_blocks.iter_enumerated() {
        let mut stmts = vec![];
        for s in bb.statements.iter() {
            match &s.kind {
                StatementKind::Assign(box (p, rv)) => {
                    let mut v = vec![("p", place(p)), ("rv", rvalue(cx, env, rv))];
                    v.push(("ln", cx.line(s.source_info.span)));
                    let x = cx.exp_flag(s.source_info.span);
                    if x != 0 {
                        v.push(("x", J::I(x)));
                    }
                    stmts.push(o(v));
                }
                StatementKind::SetDiscriminant { place: p, variant_index } => {
                    stmts.push(o(vec![
                        ("setdisc", place(p)),
                        ("variant", J::I(variant_index.as_u32() as i64)),
                    ]));
                }
                _ => {}
            }
        }
        let term = bb.terminator();
        let mut t: Vec<(&'static str, J)> = vec![];
        t.push(("ln", cx.line(term.source_info.span)));
        let x = cx.exp_flag(term.source_info.span);
        if x != 0 {
            t.push(("x", J::I(x)));
        }
        match &term.kind {
            TerminatorKind::Goto { target } => {
                t.push(("tk", J::S("Goto".into())));
                t.push(("target", J::I(target.as_u32() as i64)));
            }
            TerminatorKind::SwitchInt { discr, targets } => {
                t.push(("tk", J::S("SwitchInt".into())));
                t.push(("discr", operand(cx, env, discr)));
                let mut tv = vec![];
                for (val, bb) in targets.iter() {
                    tv.push(J::A(vec![J::S(format!("{}", val)), J::I(bb.as_u32() as i64)]));
                }
                t.push(("targets", J::A(tv)));
                t.push(("otherwise", J::I(targets.otherwise().as_u32() as i64)));
            }
            TerminatorKind::Return => t.push(("tk", J::S("Return".into()))),
            TerminatorKind::Unreachable => t.push(("tk", J::S("Unreachable".into()))),
            TerminatorKind::UnwindResume => t.push(("tk", J::S("UnwindResume".into()))),
            TerminatorKind::Drop { place: p, target, .. } => {
                t.push(("tk", J::S("Drop".into())));
                t.push(("place", place(p)));
                t.push(("target", J::I(target.as_u32() as i64)));
            }
            TerminatorKind::Call { func, args, destination, target, .. } => {
                t.push(("tk", J::S("Call".into())));
                t.push(("func", operand(cx, env, func)));
                let av: Vec<J> = args.iter().map(|a| operand(cx, env, &a.node)).collect();
                t.push(("args", J::A(av)));
                t.push(("dest", place(destination)));
                match target {
                    Some(b) => t.push(("target", J::I(b.as_u32() as i64))),
                    None => t.push(("target", J::Null)),
                }
            }
            TerminatorKind::Assert { cond, expected, target, msg, .. } => {
                t.push(("tk", J::S("Assert".into())));
                t.push(("cond", operand(cx, env, cond)));
                t.push(("expected", J::B(*expected)));
                t.push(("msg", J::S(format!("{:?}", msg).chars().take(60).collect())));
                t.push(("target", J::I(target.as_u32() as i64)));
            }
            TerminatorKind::FalseEdge { real_target, .. } => {
                t.push(("tk", J::S("Goto".into())));
                t.push(("target", J::I(real_target.as_u32() as i64)));
            }
            TerminatorKind::FalseUnwind { real_target, .. } => {
                t.push(("tk", J::S("Goto".into())));
                t.push(("target", J::I(real_target.as_u32() as i64)));
            }
            other => {
                t.push(("tk", J::S("Other".into())));
                t.push(("dbg", J::S(format!("{:?}", other).chars().take(80).collect())));
            }
        }
        blocks.push(o(vec![
            ("cleanup", J::B(bb.is_cleanup)),
            ("stmts", J::A(stmts)),
            ("term", o(t)),
        ]));
    }
    let (file, line) = cx.loc(tcx.def_span(did));
    o(vec![
        ("def", def),
        ("file", J::I(file as i64)),
        ("line", J::I(line as i64)),
        ("arg_count", J::I(body.arg_count as i64)),
        ("locals", J::A(locals)),
        ("names", J::A(names)),
        ("blocks", J::A(blocks)),
    ])
}
